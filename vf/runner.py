"""Parent process: schedules sub-check jobs over 16 worker processes, aggregates
their counters into evidence/<id>.json, handles known findings / regressions /
replays and decides the exit code (0 held, 1 violation, 2 harness/inconclusive).
"""
from __future__ import annotations

import argparse
import collections
import concurrent.futures as cf
import glob
import hashlib
import json
import os
import shutil
import subprocess
import sys
import tempfile
import time

from . import core
from .core import ROOT

PY = sys.executable
KNOWN_FILE = os.path.join(ROOT, "known_findings.txt")


def tree_sha():
    h = hashlib.sha1()
    base = os.path.join(core.REPO, "quimb")
    for dp, dn, fn in sorted(os.walk(base)):
        dn.sort()
        for f in sorted(fn):
            if f.endswith(".py"):
                p = os.path.join(dp, f)
                h.update(p.encode())
                with open(p, "rb") as fh:
                    h.update(fh.read())
    return h.hexdigest()[:16]


def parse_known(prop):
    """known_findings.txt -> (open findings, fixed entries) for one property."""
    opens, fixed = [], []
    lines = []
    for fn in [KNOWN_FILE, os.path.join(ROOT, "known", f"{prop}.txt")]:
        if os.path.exists(fn):
            lines += open(fn).read().splitlines()
    for line in lines:
        line = line.strip()
        if not line or line.startswith("#"):
            continue
        if line.startswith("finding:"):
            head, text, js = [p.strip() for p in line[len("finding:"):].split("::", 2)]
            kv = dict(tok.split("=", 1) for tok in head.split())
            if kv.get("property") != prop:
                continue
            d = json.loads(js)
            opens.append({"id": kv["id"], "subcheck": kv["subcheck"], "text": text,
                          "match": d["match"], "reproducer": d.get("reproducer")})
        elif line.startswith("fixed:"):
            toks = line[len("fixed:"):].split(None, 2)
            kv = dict(t.split("=", 1) for t in toks[:1])
            if kv.get("property") == prop:
                fixed.append(line)
    return opens, fixed


def numba_cache_is_cold():
    """Name of a quimb source file that is newer than numba's on-disk cache for it (None if the cache is warm)."""
    base = os.path.join(core.REPO, "quimb")
    any_index = False
    for dp, dn, fn in os.walk(base):
        if "__pycache__" in dp:
            continue
        for f in fn:
            if not f.endswith(".py"):
                continue
            src = os.path.join(dp, f)
            try:
                with open(src, "rb") as fh:
                    txt = fh.read()
            except OSError:
                continue
            if b"njit" not in txt and b"numba" not in txt:
                continue
            stem = f[:-3]
            idx = glob.glob(os.path.join(dp, "__pycache__", stem + ".*.nbi"))
            if not idx:
                continue  # never compiled before (possibly never imported): no evidence either way
            any_index = True
            if max(os.path.getmtime(i) for i in idx) < os.path.getmtime(src):
                return os.path.relpath(src, core.REPO)
    if not any_index:
        return "the whole tree (no numba cache present)"
    return None


def worker_env(sha):
    env = dict(os.environ)
    env.setdefault("PYTHONHASHSEED", "0")
    env["OMP_NUM_THREADS"] = "1"
    env["MKL_NUM_THREADS"] = "1"
    env["OPENBLAS_NUM_THREADS"] = "1"
    # numba's own on-disk cache next to the sources (<tree>/quimb/**/__pycache__) is used: it is keyed on each source
    # file's (mtime, size), so an edited file is recompiled while an unchanged tree stays warm - also on a fresh restore,
    # where a cache directory under /verif would always be cold (minutes of compilation per check).
    env.pop("NUMBA_CACHE_DIR", None)
    env["PYTHONPATH"] = ROOT + os.pathsep + core.REPO + os.pathsep + env.get("PYTHONPATH", "")
    env["PYTHONDONTWRITEBYTECODE"] = "1"
    env["VERIF_REPO"] = core.REPO
    return env


def run_job(spec, env, timeout):
    t0 = time.time()
    try:
        p = subprocess.run([PY, "-u", "-m", "vf.fuzz" if spec.get("driver") == "fuzz" else "vf.worker", json.dumps(spec)], cwd=ROOT, env=env,
                           stdout=subprocess.PIPE, stderr=subprocess.STDOUT, timeout=timeout)
        out = p.stdout.decode(errors="replace")
        rc = p.returncode
    except subprocess.TimeoutExpired as e:
        out = (e.stdout or b"").decode(errors="replace")
        rc = "timeout"
    res = None
    if os.path.exists(spec["out"]):
        try:
            res = json.load(open(spec["out"]))
        except Exception:
            res = None
    return spec, rc, out, res, time.time() - t0


def replay_main(prop, path):
    sys.path.insert(0, core.REPO)
    from . import worker

    worker._env_setup()
    rec = json.load(open(path))
    mod, subs = worker.load_property(prop)
    sub = subs[rec["subcheck"]]
    if sub.needs_deps:
        core.with_deps()
    try:
        worker.replay_case(sub, rec["case"])
    except core.Violation as v:
        print(f"replay: {v}")
        print(f"VIOLATION property={prop} replay={path}")
        return 1
    except core.HarnessError as e:
        print("HARNESS ERROR", e)
        return 2
    print("replay: case passes")
    return 0


def main(argv=None):
    ap = argparse.ArgumentParser()
    ap.add_argument("property")
    ap.add_argument("--tier", default=os.environ.get("VERIF_TIER", "quick"), choices=["quick", "thorough"])
    ap.add_argument("--replay")
    ap.add_argument("--only", help="comma separated sub-check names (debugging; evidence not written)")
    ap.add_argument("--jobs", type=int, default=int(os.environ.get("VERIF_JOBS", "16")))
    ap.add_argument("--scale", type=float, default=float(os.environ.get("VERIF_SCALE", "1")))
    a = ap.parse_args(argv)
    prop = a.property
    try:
        seed = int(os.environ.get("VERIF_SEED", "1"))
    except ValueError:
        seed = 1
    if a.replay:
        return replay_main(prop, a.replay)

    t0 = time.time()
    sys.path.insert(0, core.REPO)
    sha = tree_sha()
    env = worker_env(sha)
    # import the property module in the parent only to enumerate sub-checks
    from . import worker

    worker._env_setup()
    try:
        mod, subs = worker.load_property(prop)
    except Exception as e:
        import traceback

        traceback.print_exc()
        print(f"HARNESS ERROR: cannot load property module {prop}: {e}")
        return 2
    ti = 0 if a.tier == "quick" else 1
    only = set(a.only.split(",")) if a.only else None
    opens, fixed = parse_known(prop)
    alt = os.path.realpath(core.REPO) != "/repo"  # sensitivity run against a scratch tree: keep outputs apart
    replay_dir = os.path.join(ROOT, ".cache", "replays-alt", prop) if alt else os.path.join(ROOT, "replays", prop)
    tmpdir = tempfile.mkdtemp(prefix=f"vf-{prop}-", dir=os.path.join(ROOT, ".cache") if os.path.isdir(os.path.join(ROOT, ".cache")) else None)

    status = 0
    violations = []
    harness = []
    known_lines = []

    # 1. regressions of fixed defects, and reproducers of open findings ----------
    active_known = collections.defaultdict(list)
    reg_files = sorted(glob.glob(os.path.join(ROOT, "vf", "regressions", prop, "*.json")))
    reg_run = 0
    if reg_files or opens:
        if any(s.needs_deps for s in subs.values()):
            core.with_deps()
    for rf in reg_files:
        rec = json.load(open(rf))
        sub = subs.get(rec["subcheck"])
        if sub is None or (only and sub.name not in only):
            continue
        reg_run += 1
        try:
            worker.replay_case(sub, rec["case"])
        except core.Violation as v:
            rel = os.path.relpath(rf, ROOT)
            print(f"regression {rel} fails: {v}")
            violations.append({"subcheck": sub.name, "replay": rel, "reason": v.reason})
        except core.HarnessError as e:
            harness.append(f"regression {rf}: {e}")
    for kf in opens:
        # `subcheck=a,b,c`: the reproducer is replayed on the first sub-check; while it still fails the finding is active
        # for every listed sub-check (one root cause reachable through several entry points)
        kf_subs = kf["subcheck"].split(",")
        sub = subs.get(kf_subs[0])
        if sub is None or any(x not in subs for x in kf_subs):
            harness.append(f"known finding {kf['id']} names unknown sub-check {kf['subcheck']}")
            continue
        rep = kf.get("reproducer")
        still = False
        if rep is not None:
            try:
                worker.replay_case(sub, rep)
            except core.Violation as v:
                key = core.jsonable(v.key())
                if all(key.get(k) == val for k, val in kf["match"].items()):
                    still = True
                else:
                    print(f"known finding {kf['id']}: reproducer fails differently: {v}")
                    still = False
                    # a different failure of the reproducer is an unlisted violation
                    os.makedirs(replay_dir, exist_ok=True)
                    rp = os.path.join(replay_dir, f"{kf_subs[0]}-reproducer-{kf['id']}.json")
                    json.dump({"property": prop, "subcheck": kf_subs[0], "case": rep, "reason": v.reason,
                               "info": core.jsonable(v.info)}, open(rp, "w"))
                    violations.append({"subcheck": kf_subs[0], "replay": os.path.relpath(rp, ROOT), "reason": v.reason})
            except core.HarnessError as e:
                harness.append(f"known finding {kf['id']} reproducer: {e}")
        if still:
            known_lines.append(f"KNOWN-FINDING: property={prop} {kf['id']} {kf['text']}")
            for x in kf_subs:
                active_known[x].append({"id": kf["id"], "match": kf["match"]})

    # 2. generated search --------------------------------------------------------
    jobs = []
    for sub in mod.SUBCHECKS:
        if only and sub.name not in only:
            continue
        n = sub.shards[ti]
        for sh in range(n):
            out = os.path.join(tmpdir, f"{sub.name}-{sh}.json")
            jobs.append(({"property": prop, "subcheck": sub.name, "tier": a.tier, "seed": seed, "shard": sh,
                          "nshards": n, "known": active_known.get(sub.name, []), "replay_dir": replay_dir,
                          "out": out}, sub.hard_timeout[ti]))
        if a.tier == "thorough" and sub.fuzz and sub.machine is not None and os.path.isdir(core.DEPS):
            fz = sub.fuzz
            for sh in range(int(fz.get("shards", 4))):
                out = os.path.join(tmpdir, f"{sub.name}-fuzz-{sh}.json")
                jobs.append(({"property": prop, "subcheck": sub.name, "tier": a.tier, "seed": seed, "shard": sh,
                              "nshards": int(fz.get("shards", 4)), "known": active_known.get(sub.name, []),
                              "replay_dir": replay_dir, "out": out, "driver": "fuzz", "runs": int(fz.get("runs", 20000)),
                              "max_seconds": int(fz.get("max_seconds", 600)),
                              "corpus": os.path.join(tmpdir, f"corpus-{sub.name}-{sh}")}, int(fz.get("max_seconds", 600)) + 300))
    results = collections.defaultdict(list)
    cold = numba_cache_is_cold()
    if cold:
        print(f"(numba cache is cold for {cold}: the first shard of every sub-check runs first so kernels are compiled once)")

    def all_futures(ex):
        if not cold:
            yield from cf.as_completed([ex.submit(run_job, spec, env, to) for spec, to in jobs])
            return
        lead = [j for j in jobs if j[0]["shard"] == 0 and j[0].get("driver") != "fuzz"]
        rest = [j for j in jobs if not (j[0]["shard"] == 0 and j[0].get("driver") != "fuzz")]
        yield from cf.as_completed([ex.submit(run_job, spec, env, to * 2) for spec, to in lead])
        yield from cf.as_completed([ex.submit(run_job, spec, env, to) for spec, to in rest])

    with cf.ThreadPoolExecutor(max_workers=a.jobs) as ex:
        for fut in all_futures(ex):
            spec, rc, out, res, wall = fut.result()
            name = spec["subcheck"]
            if res is None:
                # killed by the watchdog or died: violation only if it left a replay behind
                left = glob.glob(os.path.join(replay_dir, f"{name}-{'fuzz-' if spec.get('driver') == 'fuzz' else ''}s{seed}-{spec['shard']}.json"))
                if rc == "timeout" and left:
                    violations.append({"subcheck": name, "replay": os.path.relpath(left[0], ROOT), "reason": "timeout-while-shrinking"})
                else:
                    cur = ""
                    if os.path.exists(spec["out"] + ".cur"):
                        cur = "\nlast case started: " + open(spec["out"] + ".cur").read()[:3000]
                    harness.append(f"{name}[{spec['shard']}]: worker rc={rc} wall={wall:.0f}s\n{out[-2000:]}{cur}")
                continue
            if res.get("harness_error"):
                harness.append(f"{name}[{spec['shard']}]: {res['harness_error']}")
            for v in res.get("violations", []):
                if v.get("reproduced"):
                    violations.append({"subcheck": name, "replay": os.path.relpath(v["replay"], ROOT), "reason": v["reason"], "info": v.get("info")})
                else:
                    harness.append(f"{name}[{spec['shard']}]: failure did not reproduce outside hypothesis (flaky): {v}")
            if "executed" in res:
                results[name].append(res)

    # 3. aggregate -----------------------------------------------------------------
    subs_ev = {}
    tot_eval = 0
    all_nt = set()
    tot_nt_cells = 0
    samples = []
    rules = []
    exhaustive_all = True
    for sub in mod.SUBCHECKS:
        rs = results.get(sub.name, [])
        if not rs:
            continue
        ex_ = sum(r["executed"] for r in rs)
        cells = sum(r["cells"] for r in rs)
        rej = sum(r["rejected"] for r in rs)
        nth = set()
        for r in rs:
            nth.update(sub.name + ":" + h for h in r["nt_hashes"])
        ntc = sum(r["nt_cells"] for r in rs)
        cls = collections.Counter()
        rr = collections.Counter()
        exk = collections.Counter()
        for r in rs:
            cls.update(r["classes"])
            rr.update(r["reject_reasons"])
            exk.update(r["excluded_known"])
        skipped = sum(r["skipped_budget"] for r in rs)
        accepted = ex_ - rej - sum(exk.values())
        subs_ev[sub.name] = {
            "mode": rs[0]["mode"], "executed": ex_, "cells": cells, "nontrivial_distinct": max(len(nth), ntc),
            "rejected": rej, "reject_reasons": dict(rr.most_common(6)), "excluded_known": dict(exk),
            "skipped_budget": skipped, "classes": dict(cls.most_common(40)),
            "max_observed_error": max(r["max_err"] for r in rs), "wall_s": max(r["wall_s"] for r in rs),
            "exhaustive": bool(sub.exhaustive), "rule": sub.rule,
        }
        fz = [r for r in rs if r.get("mode") == "fuzz"]
        if fz:
            subs_ev[sub.name]["fuzz"] = {"driver": "atheris/libFuzzer on fuzz_one_input of the list-of-steps form of the machine",
                                         "executions": sum(r["executed"] for r in fz), "shards": len(fz),
                                         "instrumented_functions": max(r.get("instrumented_functions", 0) for r in fz),
                                         "steps": sum(r.get("steps", 0) for r in fz)}
            if sum(r["executed"] for r in fz) < 5 * len(fz) and not any(r.get("violations") for r in fz):
                harness.append(f"{sub.name}: the libFuzzer driver executed only {sum(r['executed'] for r in fz)} histories in "
                               f"{len(fz)} shards (buffers rejected by the strategy?)")
        if rs[0]["mode"] in ("machine", "fuzz"):
            subs_ev[sub.name]["steps"] = sum(r.get("steps", 0) for r in rs)
            subs_ev[sub.name]["step_rejects"] = sum(r.get("step_rejects", 0) for r in rs)
        tot_eval += max(cells, ex_)
        all_nt.update(nth)
        tot_nt_cells += max(len(nth), ntc)
        for r in rs:
            for s in r["samples"][:1]:
                if len(samples) < 12:
                    samples.append({"subcheck": sub.name, "case": s})
        if sub.rule:
            rules.append(f"{sub.name}: {sub.rule}")
        exhaustive_all = exhaustive_all and bool(sub.exhaustive)
        # vacuity floor
        if ex_ >= 20 and accepted < sub.min_accept * ex_ and not violations:
            harness.append(f"{sub.name}: vacuous - only {accepted}/{ex_} cases accepted (floor {sub.min_accept}); reasons {dict(rr.most_common(3))}")
        if ex_ == 0 and not skipped:
            harness.append(f"{sub.name}: no case executed")

    wall = time.time() - t0
    ev = {
        "property_id": prop, "tier": a.tier, "seed": seed, "level": "exploration",
        "coverage": {
            "evaluations": int(tot_eval), "distinct_nontrivial": int(tot_nt_cells),
            "rule": getattr(mod, "RULE", "") + " | per sub-check: " + " ; ".join(rules),
            "samples": samples, "exhaustive": bool(exhaustive_all and subs_ev),
            "subchecks": subs_ev, "regressions_run": reg_run, "tree_sha": sha,
            "known_findings_active": [k for k in known_lines],
        },
        "assumptions": getattr(mod, "ASSUMPTIONS", []),
        "wall_s": round(wall, 2), "violations": len(violations),
    }
    if not only:
        evdir = os.path.join(ROOT, ".cache", "evidence-alt") if alt else os.path.join(ROOT, "evidence")
        os.makedirs(evdir, exist_ok=True)
        with open(os.path.join(evdir, f"{prop}.json"), "w") as f:
            json.dump(ev, f, indent=1, sort_keys=True)
    shutil.rmtree(tmpdir, ignore_errors=True)

    # 4. report ----------------------------------------------------------------------
    for name, se in subs_ev.items():
        print(f"  {name:34s} {se['mode']:7s} exec={se['executed']:6d} cells={se['cells']:7d} nt={se['nontrivial_distinct']:6d} "
              f"rej={se['rejected']:5d} known={sum(se['excluded_known'].values()):4d} skip={se['skipped_budget']:4d} "
              f"maxerr={se['max_observed_error']:.1e} wall={se['wall_s']:.0f}s")
    for l in known_lines:
        print(l)
    seen = set()
    for v in violations:
        if v["replay"] in seen:
            continue
        seen.add(v["replay"])
        print(f"violation in {v['subcheck']}: {v['reason']} {json.dumps(v.get('info'))[:300] if v.get('info') else ''}")
        print(f"VIOLATION property={prop} replay={v['replay']}")
    for h in harness:
        print("HARNESS:", h)
    print(f"{prop} tier={a.tier} seed={seed} evaluations={tot_eval} nontrivial={tot_nt_cells} wall={wall:.0f}s "
          f"violations={len(seen)} harness_errors={len(harness)}")
    if violations:
        return 1
    if harness:
        return 2
    return 0


if __name__ == "__main__":
    sys.exit(main())
