"""C09 — MPS/MPO arithmetic and 1D compression match dense linear algebra.

Every chain (MPS or MPO) is described by a JSON-able dict (length, per-site
physical dims, per-bond dims, open/cyclic, dtype, seed, array kind); its arrays
come from vf.arrays.make_array and its *denotation* is numpy.einsum over the
generator's own labels (never quimb's contraction).  Results returned by quimb
are densified independently as well (einsum over the .data/.inds that are read
off the returned network), and compared with numpy linear algebra on the dense
inputs.  quimb's own ``to_dense`` is checked against that in the constructor
sub-checks.
"""
from __future__ import annotations

import itertools
import math

import numpy as np
from hypothesis import strategies as st

from .. import arrays as A
from ..core import EXACT32, EXACT64, INV32, INV64, Reject, SubCheck, Violation, rejecting, rel_err
from ..oracle import einsum_value, embed, iso_defect, ptrace, tn_value

RULE = ("cases are MPS/MPO chains (L 1-7, site-dependent physical dims 1-3 and bond dims 1-4, open and (L>=3) periodic, "
        "4 dtypes, array kinds gauss/uniform/int/sparse) built from generated arrays, plus dense arrays for from_dense and "
        "parameters of the named generators; oracle = numpy.einsum denotation of the generated arrays + numpy linear algebra; "
        "results are densified by the harness from the returned tensors' data/inds. Non-trivial = L>=3 and (site-dependent "
        "dims or periodic or truncation happened or >=2 layers or a non-default option)")
ASSUMPTIONS = [
    "numpy.einsum / numpy.linalg (svd, norm, kron) are the trusted reference",
    "tn.H only conjugates (indices stay in place); MPO.to_dense() has upper indices as rows, lower as columns (class docstring)",
    "periodic chains are only generated with L>=3 (for L=2 the two sites share two bonds and most 1D routines reject that)",
    "from_dense with its default cutoff (1e-10, rsum2) may legitimately discard relative weight 1e-5 per split; exactness "
    "at EXACT64 is only demanded with cutoff=0.0",
    "the a-priori error bound for method='direct' is sqrt(sum_k sum_{j>chi_k} sigma_j(A_k)^2) with A_k the k-th unfolding of "
    "the dense input and chi_k the bond sizes of the returned network (valid for any truncation rule that keeps leading "
    "singular vectors of a canonically gauged chain)",
]

KINDS = ("gauss", "gauss", "gauss", "uniform_pos", "int", "sparse")
KINDS_WELL = ("gauss", "gauss", "uniform_pos")


def Q():
    import quimb.tensor as qtn

    return qtn


def prod(xs):
    p = 1
    for x in xs:
        p *= int(x)
    return p


def single(dt):
    return str(dt) in ("float32", "complex64")


def tol_exact(*dts):
    return EXACT32 if any(single(d) for d in dts) else EXACT64


def site_seed(seed, i):
    return (int(seed) + 7919 * (i + 1)) % (2**31 - 1)


# ---------------------------------------------------------------------------
# chain descriptions
# ---------------------------------------------------------------------------

@st.composite
def chains(draw, op=False, Lmin=1, Lmax=7, maxD=1024, cyclic=True, dtypes=A.DTYPES, kinds=KINDS, max_bond=4,
           phys=(1, 2, 2, 2, 3), uniform_phys=False):
    L = draw(st.integers(Lmin, Lmax))
    if uniform_phys:
        ph = [draw(st.sampled_from(phys))] * L
    else:
        ph = [draw(st.sampled_from(phys)) for _ in range(L)]
    while prod(ph) > maxD:  # dense bound by construction
        j = int(np.argmax(ph))
        if uniform_phys:
            ph = [ph[0] - 1] * L
        else:
            ph[j] -= 1
    cyc = bool(cyclic and L >= 3 and draw(st.integers(0, 3)) == 0)
    bonds = [draw(st.integers(1, max_bond)) for _ in range(L)]
    return {"op": bool(op), "L": L, "phys": ph, "bonds": bonds, "cyclic": cyc, "dtype": draw(st.sampled_from(dtypes)),
            "seed": draw(A.seeds), "kind": draw(st.sampled_from(kinds))}


@st.composite
def partner(draw, desc, op=None, kinds=KINDS, max_bond=4, same_dtype=False):
    """A chain on the same sites/physical dims (same precision) with its own bonds, data and real/complex-ness."""
    dts = [d for d in A.DTYPES if single(d) == single(desc["dtype"])]
    L = desc["L"]
    return {"op": desc["op"] if op is None else bool(op), "L": L, "phys": list(desc["phys"]),
            "bonds": [draw(st.integers(1, max_bond)) for _ in range(L)], "cyclic": desc["cyclic"],
            "dtype": desc["dtype"] if same_dtype else draw(st.sampled_from(dts)), "seed": draw(A.seeds),
            "kind": draw(st.sampled_from(kinds))}


def chain_layout(desc):
    """per site: (labels, shape, letters) in the canonical order l, r, (p | u, d)."""
    L, cyc, ph, bd, op = desc["L"], desc["cyclic"], desc["phys"], desc["bonds"], desc["op"]
    out = []
    for i in range(L):
        labels, shape, letters = [], [], ""
        if cyc or i > 0:
            labels.append(f"B{i}")
            shape.append(bd[(i - 1) % L])
            letters += "l"
        if cyc or i < L - 1:
            labels.append(f"B{(i + 1) % L}")
            shape.append(bd[i])
            letters += "r"
        if op:
            labels += [f"U{i}", f"D{i}"]
            shape += [ph[i], ph[i]]
            letters += "ud"
        else:
            labels.append(f"P{i}")
            shape.append(ph[i])
            letters += "p"
        out.append((labels, shape, letters))
    return out


def chain_arrays(desc):
    return [A.make_array(site_seed(desc["seed"], i), desc["kind"], shape, desc["dtype"])
            for i, (_, shape, _) in enumerate(chain_layout(desc))]


def chain_dense(desc, arrs=None):
    """(dense value, a-priori magnitude): vector of size D for an MPS, D x D matrix (rows = upper) for an MPO."""
    lay = chain_layout(desc)
    arrs = chain_arrays(desc) if arrs is None else arrs
    ts = [(np.asarray(a, dtype=np.complex128), tuple(l)) for a, (l, _, _) in zip(arrs, lay)]
    L = desc["L"]
    if desc["op"]:
        out = [f"U{i}" for i in range(L)] + [f"D{i}" for i in range(L)]
    else:
        out = [f"P{i}" for i in range(L)]
    v = einsum_value(ts, out)
    mag = 1.0
    for a, _ in ts:
        mag *= max(float(np.linalg.norm(a.ravel())), 1e-300)
    D = prod(desc["phys"])
    return (v.reshape(D, D) if desc["op"] else v.reshape(D)), mag


def build_chain(desc, arrs=None, **opts):
    qtn = Q()
    arrs = chain_arrays(desc) if arrs is None else arrs
    cls = qtn.MatrixProductOperator if desc["op"] else qtn.MatrixProductState
    return cls([np.array(a, copy=True) for a in arrs], **opts)


def chain(desc):
    """(quimb object, dense reference, magnitude)"""
    arrs = chain_arrays(desc)
    ref, mag = chain_dense(desc, arrs)
    return build_chain(desc, arrs), ref, mag


def expect_outer(tn, want, **info):
    got = set(tn.outer_inds())
    if got != set(want):
        # (unexpected names may be library-generated uuids: only their number is reported)
        raise Violation("outer-inds", extra=len(got - set(want)), missing=sorted(set(want) - got)[:6], **info)


def dense_vec(tn, sites, **info):
    """independent densification of a vector-like network over `sites` (in that order)"""
    inds = [tn.site_ind_id.format(i) for i in sites]  # (by id string: independent of the recorded length)
    expect_outer(tn, inds, **info)
    return np.asarray(tn_value(tn, inds), dtype=np.complex128).reshape(-1)


def dense_op(tn, sites, **info):
    up = [tn.upper_ind_id.format(i) for i in sites]
    lo = [tn.lower_ind_id.format(i) for i in sites]
    expect_outer(tn, up + lo, **info)
    v = np.asarray(tn_value(tn, up + lo), dtype=np.complex128)
    D = prod(v.shape[: len(sites)])
    return v.reshape(D, -1)


def dense_any(tn, sites, **info):
    return dense_op(tn, sites, **info) if hasattr(tn, "upper_ind_id") else dense_vec(tn, sites, **info)


def close(got, ref, tol, floor, reason="value", **info):
    e = rel_err(np.asarray(got), np.asarray(ref), floor=floor)
    if not (e <= tol):
        raise Violation(reason, err=e, tol=tol, **info)
    return e


def fingerprint(tn):
    """exact content of a network (labels, tags, bytes) - to assert that an operand was left untouched"""
    return sorted((tuple(t.inds), tuple(sorted(t.tags)), np.asarray(t.data).tobytes()) for t in tn)


def untouched(tn, fp, what="operand-mutated", **info):
    if fingerprint(tn) != fp:
        raise Violation(what, **info)


def chain_classes(desc):
    c = ["mpo" if desc["op"] else "mps", "cyclic" if desc["cyclic"] else "open", f"L={desc['L']}", desc["dtype"]]
    if len(set(desc["phys"])) > 1:
        c.append("sitedep-phys")
    if 1 in desc["phys"]:
        c.append("phys1")
    return c


def chain_nt(desc):
    return desc["L"] >= 3 and (len(set(desc["phys"])) > 1 or desc["cyclic"] or len(set(desc["bonds"][: desc["L"] - 1])) > 1)


def bond_inds(tn, i, j):
    """indices shared by the tensors tagged as sites i and j (read from .inds only)"""
    ti, tj = tn[tn.site_tag(i)], tn[tn.site_tag(j)]
    return [ix for ix in ti.inds if ix in tj.inds]


# ---------------------------------------------------------------------------
# 1. constructors: arrays in any stated layout, from_fill_fn, to_dense, permute_arrays
# ---------------------------------------------------------------------------

def to_layout(arr, letters, shape_str):
    """array stored with axes `letters` -> the layout a user describes by `shape_str`"""
    given = [c for c in shape_str if c in letters]
    return np.transpose(arr, [letters.index(c) for c in given])


@st.composite
def s_ctor(draw, tier):
    op = draw(st.booleans())
    desc = draw(chains(op=op, maxD=64 if op else 1024, Lmax=6 if op else 7))
    base = "lrud" if op else "lrp"
    route = draw(st.sampled_from(["init", "init", "fill_fn"]))
    if route == "fill_fn":
        desc["bonds"] = [desc["bonds"][0]] * desc["L"]
    return {"chain": desc, "shape": "".join(draw(st.permutations(base))), "perm2": "".join(draw(st.permutations(base))),
            "route": route, "ids": draw(st.booleans())}


def run_ctor(case):
    qtn = Q()
    desc = case["chain"]
    op, L = desc["op"], desc["L"]
    lay = chain_layout(desc)
    arrs = chain_arrays(desc)
    ref, mag = chain_dense(desc, arrs)
    given = [to_layout(a, letters, case["shape"]) for a, (_, _, letters) in zip(arrs, lay)]
    cls = qtn.MatrixProductOperator if op else qtn.MatrixProductState
    ids = {}
    if case["ids"]:
        ids = dict(site_tag_id="S{}", upper_ind_id="u{}", lower_ind_id="l{}") if op else dict(site_tag_id="S{}", site_ind_id="q{}")
    info = dict(route=case["route"], op=op, cyclic=desc["cyclic"])
    if case["route"] == "init":
        tn = cls([np.array(g, copy=True) for g in given], shape=case["shape"], **ids)
    else:
        calls = []

        def fill_fn(shape):
            i = len(calls)
            calls.append(tuple(int(s) for s in shape))
            if i >= L or tuple(int(s) for s in shape) != tuple(given[i].shape):
                raise Violation("fill-fn-shape", got=[int(s) for s in shape], want=list(given[min(i, L - 1)].shape), site=i, **info)
            return np.array(given[i], copy=True)

        tn = cls.from_fill_fn(fill_fn, L=L, bond_dim=desc["bonds"][0], phys_dim=list(desc["phys"]), cyclic=desc["cyclic"],
                              shape=case["shape"], **ids)
        if len(calls) != L:
            raise Violation("fill-fn-calls", got=len(calls), want=L, **info)
    if tn.L != L or tn.nsites != L or bool(tn.cyclic) != bool(desc["cyclic"]) or tn.num_tensors != L:
        raise Violation("ctor-attrs", L=int(tn.L), nsites=int(tn.nsites), cyclic=bool(tn.cyclic), **info)
    sites = list(range(L))
    tol = tol_exact(desc["dtype"])
    got = dense_any(tn, sites, **info)
    e = close(got, ref, tol, mag, **info)
    # quimb's own densification: ket column (d, 1) for vectors, (upper, lower) matrix for operators
    dq = np.asarray(tn.to_dense())
    want_shape = ref.shape if op else (ref.size, 1)
    if dq.shape != tuple(want_shape):
        raise Violation("to_dense-shape", got=list(dq.shape), want=list(want_shape), **info)
    e = max(e, close(dq.reshape(ref.shape), ref, tol, mag, reason="to_dense", **info))
    # stored order after permute_arrays
    tn.permute_arrays(case["perm2"])
    for i in sites:
        t = tn[tn.site_tag(i)]
        want = {}
        if op:
            want["u"], want["d"] = tn.upper_ind(i), tn.lower_ind(i)
        else:
            want["p"] = tn.site_ind(i)
        if L > 1 and (desc["cyclic"] or i > 0):
            want["l"] = bond_inds(tn, i, (i - 1) % L)[0]
        if L > 1 and (desc["cyclic"] or i < L - 1):
            bi = bond_inds(tn, i, (i + 1) % L)
            want["r"] = bi[-1] if (L == 2 and desc["cyclic"]) else bi[0]
        order = tuple(want[c] for c in case["perm2"] if c in want)
        if tuple(t.inds) != order:
            raise Violation("permute-arrays-order", site=i, perm=case["perm2"], **info)
    e = max(e, close(dense_any(tn, sites, **info), ref, tol, mag, reason="permute-arrays-value", **info))
    return {"nt": chain_nt(desc) or (L >= 3 and case["shape"] not in ("lrp", "lrud")),
            "cls": chain_classes(desc) + ["route=" + case["route"], "shape=" + case["shape"]], "err": e}


# ---------------------------------------------------------------------------
# 2. constructors restricted to a subset of sites
# ---------------------------------------------------------------------------

@st.composite
def s_ctor_sites(draw, tier, op):
    # (a single array on a subset is outside the domain: the constructors decide "first/last" by position and
    #  MPO_identity explicitly refuses a one-site subset)
    n = draw(st.integers(2, 4))
    Ltot = draw(st.integers(n, n + 3))
    sites = sorted(draw(st.lists(st.integers(0, Ltot - 1), min_size=n, max_size=n, unique=True)))
    desc = draw(chains(op=op, Lmin=n, Lmax=n, cyclic=False, maxD=64, dtypes=A.DTYPES64))
    route = draw(st.sampled_from(["init", "init", "fill_fn"]))
    if route == "fill_fn":
        desc["bonds"] = [desc["bonds"][0]] * n
    return {"chain": desc, "sites": sites, "Ltot": Ltot, "route": route, "give_L": draw(st.booleans())}


def run_ctor_sites(case):
    qtn = Q()
    desc, sites, Ltot = case["chain"], case["sites"], case["Ltot"]
    op, n = desc["op"], desc["L"]
    arrs = chain_arrays(desc)
    ref, mag = chain_dense(desc, arrs)
    cls = qtn.MatrixProductOperator if op else qtn.MatrixProductState
    give_L = case["give_L"] or case["route"] == "fill_fn"
    want_L = Ltot if give_L else max(sites) + 1
    info = dict(route=case["route"], op=op, partial=len(sites) < want_L)
    if case["route"] == "init":
        kw = {"L": Ltot} if give_L else {}
        tn = cls([np.array(a, copy=True) for a in arrs], sites=sites, **kw)
    else:
        calls = []

        def fill_fn(shape):
            i = len(calls)
            calls.append(1)
            if i >= n or tuple(int(s) for s in shape) != tuple(arrs[i].shape):
                raise Violation("fill-fn-shape", got=[int(s) for s in shape], want=list(arrs[min(i, n - 1)].shape), **info)
            return np.array(arrs[i], copy=True)

        tn = cls.from_fill_fn(fill_fn, L=Ltot, bond_dim=desc["bonds"][0], phys_dim=list(desc["phys"]), sites=sites)
    # value first (read off the tensors by site name, independent of the recorded length) ...
    e = close(dense_any(tn, sites, **info), ref, EXACT64, mag, **info)
    # ... then the recorded structure
    if int(tn.L) != want_L:
        raise Violation("sites-L", got=int(tn.L), want=want_L, **info)
    present = list(tn.gen_sites_present())
    if present != list(sites):
        raise Violation("sites-present", got=present, want=list(sites), **info)
    dq = np.asarray(tn.to_dense())
    e = max(e, close(dq.reshape(ref.shape), ref, EXACT64, mag, reason="to_dense", **info))
    return {"nt": n >= 2 and len(sites) < want_L, "cls": ["mpo" if op else "mps", "route=" + case["route"],
                                                         "partial" if len(sites) < want_L else "all-sites", f"n={n}"], "err": e}


# ---------------------------------------------------------------------------
# 3. from_dense round trips
# ---------------------------------------------------------------------------

def dense_source(src, dims, seed, dtype, op=False):
    """a dense array over `dims` (vector) or dims x dims (operator) with constructed structure"""
    n = len(dims)
    shape = list(dims) + (list(dims) if op else [])
    if src in ("gauss", "int", "sparse", "uniform_pos"):
        return A.make_array(seed, src, shape, dtype)
    if src == "lowrank":
        rng = np.random.default_rng(seed)
        d = {"op": op, "L": n, "phys": list(dims), "bonds": [int(rng.integers(1, 3)) for _ in range(n)], "cyclic": False,
             "dtype": dtype, "seed": seed, "kind": "gauss"}
        v, _ = chain_dense(d)
        return v.reshape(shape).astype(dtype) if "complex" in dtype else np.real(v).reshape(shape).astype(dtype)
    if src == "product":
        out = np.array(1.0)
        for i, dd in enumerate(dims):
            f = A.make_array(site_seed(seed, i), "gauss", [dd, dd] if op else [dd], dtype)
            out = np.multiply.outer(out, f)
        if op:
            out = out.transpose(list(range(0, 2 * n, 2)) + list(range(1, 2 * n, 2)))
        return np.ascontiguousarray(out).astype(dtype)
    raise AssertionError(src)


@st.composite
def s_from_dense_mps(draw, tier):
    L = draw(st.integers(1, 8))
    uniform = draw(st.integers(0, 2)) == 0
    dims = [draw(st.sampled_from([2, 3]))] * L if uniform else [draw(st.sampled_from([1, 2, 2, 3, 4])) for _ in range(L)]
    while prod(dims) > 1024:
        dims = [max(1, d - 1) for d in dims] if uniform else [d - (1 if i == int(np.argmax(dims)) else 0) for i, d in enumerate(dims)]
    return {"dims": dims, "dims_arg": "int" if uniform and draw(st.booleans()) and dims[0] > 1 else "list",
            "seed": draw(A.seeds), "dtype": draw(st.sampled_from(A.DTYPES)),
            "src": draw(st.sampled_from(["gauss", "gauss", "lowrank", "product", "int", "sparse"])),
            "form": draw(st.sampled_from(["flat", "col", "nd"])), "cutoff": draw(st.sampled_from([None, 0.0])),
            "ids": draw(st.booleans())}


def run_from_dense_mps(case):
    qtn = Q()
    dims = case["dims"]
    L = len(dims)
    psi = dense_source(case["src"], dims, case["seed"], case["dtype"])
    nrm = float(np.linalg.norm(psi.ravel().astype(np.complex128)))
    if nrm == 0.0:
        raise Reject("zero vector (relative cutoffs undefined)")
    x = psi.reshape(-1) if case["form"] == "flat" else psi.reshape(-1, 1) if case["form"] == "col" else psi
    kw = {}
    if case["cutoff"] is not None:
        kw["cutoff"] = case["cutoff"]
    if case["ids"]:
        kw.update(site_ind_id="q{}", site_tag_id="S{}", tags="G")
    darg = dims[0] if case["dims_arg"] == "int" else list(dims)
    mps = qtn.MatrixProductState.from_dense(np.array(x, copy=True), darg, **kw)
    info = dict(src=case["src"], cutoff0=case["cutoff"] == 0.0)
    if mps.L != L or mps.num_tensors != L or mps.cyclic:
        raise Violation("from_dense-attrs", L=int(mps.L), n=int(mps.num_tensors), **info)
    if case["ids"] and any("G" not in t.tags for t in mps):
        raise Violation("from_dense-tags", **info)
    got = dense_vec(mps, list(range(L)), **info)
    if single(case["dtype"]):
        tol = EXACT32
    else:
        tol = EXACT64 if case["cutoff"] == 0.0 else 1e-4
    e = close(got, psi.reshape(-1), tol, nrm, **info)
    for i in range(L):
        if mps.phys_dim(i) != dims[i]:
            raise Violation("from_dense-phys", site=i, **info)
    # bond sizes can never exceed the rank bound of the bipartition
    for i in range(L - 1):
        b = bond_inds(mps, i, i + 1)
        if len(b) != 1:
            raise Violation("from_dense-bonds", site=i, n=len(b), **info)
        if mps.ind_size(b[0]) > min(prod(dims[: i + 1]), prod(dims[i + 1:])):
            raise Violation("from_dense-bond-size", site=i, **info)
    return {"nt": L >= 3 and (len(set(dims)) > 1 or case["src"] != "gauss"),
            "cls": ["src=" + case["src"], f"L={L}", case["dtype"], "cutoff=" + str(case["cutoff"]), "form=" + case["form"]] +
                   (["sitedep-phys"] if len(set(dims)) > 1 else []), "err": e}


@st.composite
def s_from_dense_mpo(draw, tier):
    n = draw(st.integers(1, 4))
    dims = [draw(st.sampled_from([1, 2, 2, 3])) for _ in range(n)]
    while prod(dims) > 16:
        dims[int(np.argmax(dims))] -= 1
    sub = draw(st.booleans())
    if sub:
        Ltot = draw(st.integers(n, min(n + 3, 6)))
        sites = draw(st.lists(st.integers(0, Ltot - 1), min_size=n, max_size=n, unique=True))  # any order
        give_L = draw(st.booleans())
    else:
        Ltot, sites, give_L = n, None, False
    fill = None
    if draw(st.booleans()):
        fill = {"mode": draw(st.sampled_from(["full", "full", "minimal", "list"])),
                "phys_dim": draw(st.sampled_from([None, None, "same", 2, 3])), "fill_array": draw(st.booleans()),
                "inplace": draw(st.booleans()), "pick": draw(st.integers(0, 2**16))}
    return {"dims": dims, "dims_arg": "int" if len(set(dims)) == 1 and dims[0] > 1 and draw(st.booleans()) else "list",
            "sites": sites, "Ltot": Ltot, "give_L": give_L, "seed": draw(A.seeds),
            "dtype": draw(st.sampled_from(A.DTYPES)), "src": draw(st.sampled_from(["gauss", "gauss", "lowrank", "product", "int"])),
            "cutoff": draw(st.sampled_from([None, 0.0])), "fill": fill}


def run_from_dense_mpo(case):
    qtn = Q()
    dims = case["dims"]
    n = len(dims)
    D = prod(dims)
    M = dense_source(case["src"], dims, case["seed"], case["dtype"], op=True).reshape(D, D)
    nrm = float(np.linalg.norm(M.astype(np.complex128)))
    if nrm == 0.0:
        raise Reject("zero operator")
    sites = case["sites"]
    kw = {}
    if case["cutoff"] is not None:
        kw["cutoff"] = case["cutoff"]
    if sites is not None:
        kw["sites"] = list(sites)
        if case["give_L"]:
            kw["L"] = case["Ltot"]
    darg = dims[0] if case["dims_arg"] == "int" else list(dims)
    mpo = qtn.MatrixProductOperator.from_dense(np.array(M, copy=True), darg, **kw)
    site_list = list(range(n)) if sites is None else list(sites)
    want_L = case["Ltot"] if (sites is not None and case["give_L"]) else max(site_list) + 1
    info = dict(src=case["src"], sub=sites is not None, sorted=site_list == sorted(site_list))
    if int(mpo.L) != want_L:
        raise Violation("from_dense-L", got=int(mpo.L), want=want_L, **info)
    if list(mpo.gen_sites_present()) != sorted(site_list):
        raise Violation("from_dense-sites", got=list(mpo.gen_sites_present()), **info)
    if single(case["dtype"]):
        tol = EXACT32
    else:
        tol = EXACT64 if case["cutoff"] == 0.0 else 1e-4
    # axis j of the dense operator lives on site_list[j]
    e = close(dense_op(mpo, site_list, **info), M, tol, nrm, **info)
    cls = ["src=" + case["src"], f"n={n}", case["dtype"], "sub" if sites is not None else "full",
           "unsorted" if site_list != sorted(site_list) else "sorted"]
    fill = case["fill"]
    if fill is None:
        return {"nt": n >= 2 and (sites is not None or len(set(dims)) > 1), "cls": cls + ["nofill"], "err": e}
    # ---- fill_empty_sites ---------------------------------------------------
    L = int(mpo.L)
    first = min(site_list)
    d0 = dims[site_list.index(first)]  # documented default: upper physical dim of the first present site
    empty = [s for s in range(L) if s not in site_list]
    if fill["mode"] == "full":
        mode, add = "full", empty
    elif fill["mode"] == "minimal":
        mode = "minimal"
        add = [s for s in empty if min(site_list) < s < max(site_list)]
    else:
        rng = np.random.default_rng(fill["pick"])
        add = [s for s in empty if rng.random() < 0.6]
        mode = list(add)
    pd = fill["phys_dim"]
    pd = d0 if pd == "same" else pd
    d_fill = d0 if pd is None else int(pd)
    fkw = {}
    if pd is not None:
        fkw["phys_dim"] = int(pd)
    if fill["fill_array"]:
        fkw["fill_array"] = np.eye(d_fill, dtype=case["dtype"])
    finfo = dict(mode=fill["mode"], phys_dim_given=pd is not None, fill_array_given=bool(fill["fill_array"]), **info)
    if fill["inplace"]:
        res = mpo.fill_empty_sites_(mode, **fkw)
        if res is not mpo:
            raise Violation("fill-inplace-identity", **finfo)
    else:
        before = sorted(mpo.gen_sites_present())
        res = mpo.fill_empty_sites(mode, **fkw)
        if sorted(mpo.gen_sites_present()) != before:
            raise Violation("fill-mutated-receiver", **finfo)
    now = sorted(site_list + add)
    if sorted(res.gen_sites_present()) != now:
        raise Violation("fill-sites", got=sorted(res.gen_sites_present()), want=now, **finfo)
    dims_now = [dims[site_list.index(s)] if s in site_list else d_fill for s in now]
    refF = embed(M, dims_now, [now.index(s) for s in site_list])
    magF = nrm * math.sqrt(float(prod(d_fill for s in add)))
    e = max(e, close(dense_op(res, now, **finfo), refF, tol, magF, reason="fill-value", **finfo))
    # promised structure: nearest neighbour bonds only (among the sites now present, when they are contiguous)
    if now == list(range(now[0], now[-1] + 1)):
        pos = {s: k for k, s in enumerate(now)}
        for ix, tids in res.ind_map.items():
            if len(tids) == 2:
                ss = []
                for tid in tids:
                    t = res.tensor_map[tid]
                    ss += [s for s in now if res.site_tag(s) in t.tags]
                if len(ss) == 2 and abs(pos[ss[0]] - pos[ss[1]]) != 1:
                    raise Violation("fill-non-nn-bond", sites=sorted(ss), **finfo)
        for a, b in zip(now, now[1:]):
            if len(bond_inds(res, a, b)) != 1:
                raise Violation("fill-missing-bond", sites=[a, b], **finfo)
    return {"nt": len(add) >= 1 and n >= 2, "cls": cls + ["fill=" + fill["mode"], "added=%d" % min(len(add), 3)] +
            (["phys_dim-given"] if pd is not None else []) + (["fill_array"] if fill["fill_array"] else []), "err": e}


# ---------------------------------------------------------------------------
# 4. named state / operator generators
# ---------------------------------------------------------------------------

VEC = {"0": [1.0, 0.0], "1": [0.0, 1.0], "+": [2**-0.5, 2**-0.5], "-": [2**-0.5, -(2**-0.5)]}


def kron_vecs(vs):
    out = np.array([1.0 + 0j])
    for v in vs:
        out = np.kron(out, np.asarray(v, dtype=np.complex128))
    return out


def kron_ops(ms):
    out = np.array([[1.0 + 0j]])
    for m in ms:
        out = np.kron(out, np.asarray(m, dtype=np.complex128))
    return out


def check_dtype(tn, dtype, **info):
    for t in tn:
        if str(t.dtype) != str(dtype):
            raise Violation("dtype", got=str(t.dtype), want=str(dtype), **info)


def canon_defects(tn, L, centre):
    """max isometry defect of the sites left of `centre` (left isometries: contracting everything but the
    right bond gives 1) and right of it (right isometries); read from data/inds only."""
    worst = 0.0
    for i in range(L):
        if i == centre:
            continue
        t = tn[tn.site_tag_id.format(i)]
        nb = i + 1 if i < centre else i - 1
        tb = tn[tn.site_tag_id.format(nb)]
        bond = [ix for ix in t.inds if ix in tb.inds]
        left = [ix for ix in t.inds if ix not in bond]
        worst = max(worst, iso_defect(np.asarray(t.data), t.inds, left))
    return worst


@st.composite
def s_named_mps(draw, tier):
    which = draw(st.sampled_from(["computational", "neel", "ghz", "w", "zero", "product", "rand", "rand", "rand_comp", "COPY"]))
    L = draw(st.integers(1, 8))
    return {"which": which, "L": L, "bits": "".join(draw(st.lists(st.sampled_from("01+-"), min_size=L, max_size=L))),
            "as_ints": draw(st.booleans()), "dtype": draw(st.sampled_from(A.DTYPES)), "cyclic": L >= 3 and draw(st.booleans()),
            "seed": draw(A.seeds), "bond": draw(st.integers(1, 4)), "phys": draw(st.sampled_from([1, 2, 2, 3])),
            "physl": [draw(st.sampled_from([1, 2, 3])) for _ in range(L)],
            "normalize": draw(st.sampled_from([True, True, False, "left", "right"])), "down_first": draw(st.booleans()),
            "dist": draw(st.sampled_from(["normal", "uniform", "rademacher", "exp"])), "trans_invar": draw(st.integers(0, 4)) == 0}


def run_named_mps(case):
    qtn = Q()
    w, L, dt = case["which"], case["L"], case["dtype"]
    tol = tol_exact(dt)
    sites = list(range(L))
    info = dict(which=w)
    cls = ["which=" + w, f"L={L}", dt]
    nt = L >= 3
    if w == "computational":
        bits = case["bits"]
        if case["as_ints"]:
            bits = "".join("1" if c in "1-" else "0" for c in bits)
            arg = [int(c) for c in bits]
        else:
            arg = bits
        psi = qtn.MPS_computational_state(arg, dtype=dt, cyclic=case["cyclic"])
        ref = kron_vecs([VEC[c] for c in bits])
        if bool(psi.cyclic) != bool(case["cyclic"]):
            raise Violation("cyclic-flag", **info)
        cls.append("cyclic" if case["cyclic"] else "open")
    elif w == "neel":
        psi = qtn.MPS_neel_state(L, down_first=case["down_first"], dtype=dt)
        # documented: alternating, starting with '1' (down) iff down_first
        bits = "".join(str((i + (1 if case["down_first"] else 0)) % 2) for i in range(L))
        ref = kron_vecs([VEC[c] for c in bits])
    elif w == "ghz":
        if L < 2:
            raise Reject("GHZ needs >= 2 qubits")
        psi = qtn.MPS_ghz_state(L, dtype=dt)
        ref = np.zeros(2**L, dtype=complex)
        ref[0] = ref[-1] = 2**-0.5
    elif w == "w":
        if L < 2:
            raise Reject("W needs >= 2 qubits")
        psi = qtn.MPS_w_state(L, dtype=dt)
        ref = np.zeros(2**L, dtype=complex)
        for i in range(L):
            ref[2 ** (L - 1 - i)] = L**-0.5
    elif w == "COPY":
        d = max(case["phys"], 2) if L > 4 else case["phys"] + 1
        psi = qtn.MPS_COPY(L, phys_dim=d, dtype=dt)
        r = np.zeros([d] * L, dtype=complex)
        for v in range(d):
            r[(v,) * L] = 1.0
        ref = r.reshape(-1)
    elif w == "zero":
        ph = case["phys"]
        psi = qtn.MPS_zero_state(L, bond_dim=case["bond"], phys_dim=ph, cyclic=case["cyclic"], dtype=dt)
        ref = np.zeros(ph**L, dtype=complex)
        for i in range(L):
            if psi.phys_dim(i) != ph:
                raise Violation("phys-dim", **info)
        if L >= 2 and psi.max_bond() != case["bond"]:
            raise Violation("bond-dim", got=int(psi.max_bond()), want=case["bond"], **info)
    elif w == "product":
        ph = list(case["physl"])
        while prod(ph) > 1024:
            ph[int(np.argmax(ph))] -= 1
        vs = [A.make_array(site_seed(case["seed"], i), "gauss", [d], dt) for i, d in enumerate(ph)]
        psi = qtn.MPS_product_state([v.copy() for v in vs], cyclic=case["cyclic"])
        ref = kron_vecs(vs)
        if L >= 2 and psi.max_bond() != 1:
            raise Violation("bond-dim", got=int(psi.max_bond()), want=1, **info)
        cls.append("cyclic" if case["cyclic"] else "open")
        nt = nt and len(set(ph)) > 1
    elif w == "rand_comp":
        psi = qtn.MPS_rand_computational_state(L, dtype=dt, seed=case["seed"] % 2**31)
        psi2 = qtn.MPS_rand_computational_state(L, dtype=dt, seed=case["seed"] % 2**31)
        v = dense_vec(psi, sites, **info)
        if sorted(np.abs(v).round(12).tolist())[-2:] != ([0.0, 1.0] if L >= 1 else [1.0]) or abs(np.sum(v) - 1) > 1e-12:
            raise Violation("not-a-basis-state", **info)
        close(dense_vec(psi2, sites, **info), v, 0.0, 1.0, reason="seed-not-reproducible", **info)
        return {"nt": nt, "cls": cls, "err": 0.0}
    elif w == "rand":
        cyc = case["cyclic"]
        norm = case["normalize"]
        if cyc and norm in ("left", "right"):
            norm = True
        ti = bool(case["trans_invar"]) and cyc
        ph = case["phys"]
        if ph**L > 1024:
            ph = 2
        kw = dict(phys_dim=ph, normalize=norm, cyclic=cyc, dtype=dt, dist=case["dist"], seed=case["seed"] % 2**31, trans_invar=ti)
        raw = vr = magr = None
        if norm:
            # the same draw without normalisation, FIRST: rademacher / translation invariant draws can cancel to an exactly
            # zero state; normalising that is 0/0 (NaN) and outside any contract -> rejected before anything is compared
            raw = qtn.MPS_rand_state(L, case["bond"], **dict(kw, normalize=False))
            vr = dense_vec(raw, list(range(L)), which=w)
            magr = float(np.prod([max(float(np.linalg.norm(np.asarray(t.data).ravel())), 1e-300) for t in raw]))
            if not np.all(np.isfinite(vr)) or float(np.linalg.norm(vr)) <= 1e-6 * magr:
                raise Reject("numerically zero random state")
        psi = qtn.MPS_rand_state(L, case["bond"], **kw)
        psi2 = qtn.MPS_rand_state(L, case["bond"], **kw)
        info.update(normalize=str(norm), cyclic=cyc)
        cls += ["normalize=" + str(norm), "cyclic" if cyc else "open", "dist=" + case["dist"]] + (["trans_invar"] if ti else [])
        v = dense_vec(psi, sites, **info)
        close(dense_vec(psi2, sites, **info), v, 0.0, 1.0, reason="seed-not-reproducible", **info)
        check_dtype(psi, dt, **info)
        for i in range(L):
            if psi.phys_dim(i) != ph:
                raise Violation("phys-dim", **info)
        bsz = [psi.ind_size(b) for i in range(L - 1) for b in bond_inds(psi, i, i + 1)]
        # (canonicalising may shrink a bond to the rank bound, otherwise the requested size is exact)
        if L >= 2 and (any(b > case["bond"] for b in bsz) or (norm in (True, False) and any(b != case["bond"] for b in bsz))):
            raise Violation("bond-dim", **info)
        nv = float(np.linalg.norm(v))
        e = 0.0
        if norm:
            # the same draw without normalisation: must be the same ray; (rademacher / translation invariant draws can
            # cancel to an exactly zero state, which cannot be normalised: rejected)
            itol = INV32 if single(dt) else INV64
            e = abs(nv - 1.0)
            if not e <= itol:
                raise Violation("rand-not-normalized", norm=nv, **info)
            e = max(e, close(v, vr / np.linalg.norm(vr), itol, magr / float(np.linalg.norm(vr)), reason="rand-normalized-ray", **info))
        if norm in ("left", "right") and L >= 2:
            d = canon_defects(psi, L, L - 1 if norm == "left" else 0)
            if not d <= (INV32 if single(dt) else 1e-8):
                raise Violation("rand-not-canonical", defect=d, **info)
            e = max(e, d)
        if ti:
            a0 = np.asarray(psi[psi.site_tag(0)].data)
            if any(not np.array_equal(np.asarray(psi[psi.site_tag(i)].data) / 1.0, a0) for i in range(1, L - 1)):
                raise Violation("rand-not-translation-invariant", **info)
        return {"nt": nt, "cls": cls, "err": e}
    else:
        raise AssertionError(w)
    check_dtype(psi, dt, **info)
    if psi.L != L:
        raise Violation("L", got=int(psi.L), want=L, **info)
    e = close(dense_vec(psi, sites, **info), ref, tol, 1.0, **info)
    return {"nt": nt, "cls": cls, "err": e}


@st.composite
def s_named_mpo(draw, tier):
    which = draw(st.sampled_from(["identity", "identity_sites", "zeros", "identity_like", "zeros_like", "product", "rand", "rand",
                                  "rand_herm", "rand_state_method", "like_sub"]))
    L = draw(st.integers(1, 5))
    ph = draw(st.sampled_from([1, 2, 2, 3]))
    while ph**L > 36:
        ph -= 1
    Ltot = draw(st.integers(L, L + 3))
    return {"which": which, "L": L, "phys": ph, "physl": [draw(st.sampled_from([1, 2, 3])) for _ in range(L)],
            "dtype": draw(st.sampled_from(A.DTYPES)), "cyclic": L >= 3 and draw(st.booleans()), "seed": draw(A.seeds),
            "bond": draw(st.integers(1, 3)), "normalize": draw(st.booleans()), "herm": draw(st.booleans()),
            "Ltot": Ltot, "sites": sorted(draw(st.lists(st.integers(0, Ltot - 1), min_size=L, max_size=L, unique=True))),
            "dist": draw(st.sampled_from(["normal", "uniform", "rademacher"])), "ids": draw(st.booleans())}


def run_named_mpo(case):
    qtn = Q()
    w, L, dt, ph, cyc = case["which"], case["L"], case["dtype"], case["phys"], case["cyclic"]
    tol = tol_exact(dt)
    sites = list(range(L))
    D = ph**L
    info = dict(which=w, cyclic=cyc)
    cls = ["which=" + w, f"L={L}", dt, "cyclic" if cyc else "open", f"phys={ph}"]
    ids = dict(upper_ind_id="u{}", lower_ind_id="l{}", site_tag_id="S{}") if case["ids"] else {}
    e = 0.0
    if w == "identity":
        with rejecting(ValueError, tag="one-site-identity:"):
            X = qtn.MPO_identity(L, phys_dim=ph, dtype=dt, cyclic=cyc, **ids)
        if L == 1:
            raise Violation("one-site-identity-accepted", **info)
        ref = np.eye(D)
    elif w == "identity_sites":
        if L < 2:
            raise Reject("one-site identity is refused (documented ValueError)")
        ss = case["sites"]
        X = qtn.MPO_identity(case["Ltot"], sites=ss, phys_dim=ph, dtype=dt, **ids)
        if int(X.L) != case["Ltot"] or list(X.gen_sites_present()) != list(ss):
            raise Violation("identity-sites", L=int(X.L), present=list(X.gen_sites_present()), **info)
        sites = ss
        ref = np.eye(D)
    elif w == "zeros":
        X = qtn.MPO_zeros(L, phys_dim=ph, dtype=dt, cyclic=cyc, **ids)
        ref = np.zeros((D, D))
    elif w in ("identity_like", "zeros_like"):
        if L < 2:
            raise Reject("one-site identity is refused")
        base = qtn.MPO_rand(L, case["bond"], phys_dim=ph, dtype=dt, cyclic=cyc, seed=case["seed"] % 2**31, **ids)
        if w == "identity_like":
            X = base.identity() if case["herm"] else qtn.MPO_identity_like(base)
        else:
            X = qtn.MPO_zeros_like(base)
        if (X.upper_ind_id, X.lower_ind_id, X.site_tag_id, bool(X.cyclic), int(X.L)) != \
                (base.upper_ind_id, base.lower_ind_id, base.site_tag_id, bool(base.cyclic), int(base.L)):
            raise Violation("like-structure", **info)
        ref = np.eye(D) if w == "identity_like" else np.zeros((D, D))
    elif w == "like_sub":
        # *_like of an operator living on a subset of sites: "same physical index and inds/tags as mpo"
        if L < 2:
            raise Reject("sub-operators need >= 2 sites")
        ss = case["sites"]
        base = qtn.MPO_rand(case["Ltot"], case["bond"], phys_dim=ph, dtype=dt, sites=ss, seed=case["seed"] % 2**31, normalize=False, **ids)
        X = qtn.MPO_identity_like(base) if case["herm"] else qtn.MPO_zeros_like(base)
        info["like"] = "identity" if case["herm"] else "zeros"
        if int(X.L) != int(base.L) or sorted(X.gen_sites_present()) != sorted(base.gen_sites_present()) or \
                set(X.outer_inds()) != set(base.outer_inds()):
            raise Violation("like-sites", L=int(X.L), present=sorted(X.gen_sites_present()), want=sorted(ss), **info)
        sites = ss
        ref = np.eye(D) if case["herm"] else np.zeros((D, D))
        check_dtype(X, dt, **info)
        e = close(dense_op(X, sites, **info), ref, tol, 1.0, **info)
        return {"nt": L >= 3 and len(ss) < case["Ltot"], "cls": cls + ["like=" + info["like"]], "err": e}
    elif w == "rand_state_method":
        # MatrixProductOperator.rand_state: "a random vector matching this MPO" (site-dependent dims allowed)
        phl = list(case["physl"])
        while prod(phl) > 36:
            phl[int(np.argmax(phl))] -= 1
        base = build_chain({"op": True, "L": L, "phys": phl, "bonds": [case["bond"]] * L, "cyclic": cyc, "dtype": dt,
                            "seed": case["seed"], "kind": "gauss"})
        psi = base.rand_state(case["bond"], seed=case["seed"] % 2**31)
        if type(psi).__name__ != "MatrixProductState" or int(psi.L) != L or bool(psi.cyclic) != bool(cyc):
            raise Violation("rand_state-structure", **info)
        if [int(psi.phys_dim(i)) for i in range(L)] != phl:
            raise Violation("rand_state-phys", got=[int(psi.phys_dim(i)) for i in range(L)], want=phl, **info)
        check_dtype(psi, dt, **info)
        v = dense_vec(psi, sites, **info)
        e = abs(float(np.linalg.norm(v)) - 1.0)
        if not e <= (INV32 if single(dt) else INV64):
            raise Violation("rand-not-normalized", norm=float(np.linalg.norm(v)), **info)
        # the operator can act on it
        r = base.apply(psi)
        MA = dense_op(base, sites)
        e = max(e, close(dense_vec(r, sites, **info), MA @ v, tol * 10, float(np.linalg.norm(MA)), **info))
        return {"nt": L >= 3 and len(set(phl)) > 1, "cls": cls + (["sitedep-phys"] if len(set(phl)) > 1 else []), "err": e}
    elif w == "product":
        phl = list(case["physl"])
        while prod(phl) > 36:
            phl[int(np.argmax(phl))] -= 1
        ms = [A.make_array(site_seed(case["seed"], i), "gauss", [d, d], dt) for i, d in enumerate(phl)]
        X = qtn.MPO_product_operator([m.copy() for m in ms], cyclic=cyc, **ids)
        ref = kron_ops(ms)
        if L >= 2 and X.max_bond() != 1:
            raise Violation("bond-dim", **info)
        mag = float(np.prod([np.linalg.norm(m) for m in ms]))
        check_dtype(X, dt, **info)
        e = close(dense_op(X, sites, **info), ref, tol, mag, **info)
        return {"nt": L >= 3 and len(set(phl)) > 1, "cls": cls, "err": e}
    elif w in ("rand", "rand_herm"):
        kw = dict(phys_dim=ph, normalize=case["normalize"], dtype=dt, seed=case["seed"] % 2**31, **ids)
        if w == "rand":
            # (hermitised rademacher entries x + conj(x) can cancel to an all-zero site array, which the generator's
            #  rescaling turns into 0/0: a degenerate random draw, not generated)
            kw.update(cyclic=cyc, herm=case["herm"], dist="normal" if case["herm"] and case["dist"] == "rademacher" else case["dist"])
            herm = case["herm"]
        else:
            herm = True
            if cyc:
                kw.update(cyclic=True)
        Mr = magr = None
        if case["normalize"]:
            # un-normalised draw first: an exactly cancelling (zero) operator cannot be normalised (0/0): rejected
            raw = (qtn.MPO_rand if w == "rand" else qtn.MPO_rand_herm)(L, case["bond"], **dict(kw, normalize=False))
            Mr = dense_op(raw, sites, **info)
            magr = float(np.prod([max(float(np.linalg.norm(np.asarray(t.data).ravel())), 1e-300) for t in raw]))
            if not np.all(np.isfinite(Mr)) or float(np.linalg.norm(Mr)) <= 1e-6 * magr:
                raise Reject("numerically zero random operator")
        X = qtn.MPO_rand(L, case["bond"], **kw) if w == "rand" else qtn.MPO_rand_herm(L, case["bond"], **kw)
        X2 = qtn.MPO_rand(L, case["bond"], **kw) if w == "rand" else qtn.MPO_rand_herm(L, case["bond"], **kw)
        M = dense_op(X, sites, **info)
        close(dense_op(X2, sites, **info), M, 0.0, 1.0, reason="seed-not-reproducible", **info)
        check_dtype(X, dt, **info)
        cls += ["herm" if herm else "nonherm", "normalize" if case["normalize"] else "raw"]
        nf = float(np.linalg.norm(M))
        if case["normalize"]:
            itol = INV32 if single(dt) else INV64
            e = abs(nf - 1.0)
            if not e <= itol:
                raise Violation("rand-not-normalized", norm=nf, **info)
            e = max(e, close(M, Mr / np.linalg.norm(Mr), itol, magr / float(np.linalg.norm(Mr)), reason="rand-normalized-ray", **info))
        if herm:
            e = max(e, close(M, M.conj().T, tol * 10, float(np.linalg.norm(M)), reason="rand-not-hermitian", **info))
        for i in range(L):
            if X.phys_dim(i) != ph:
                raise Violation("phys-dim", **info)
        return {"nt": L >= 3, "cls": cls, "err": e}
    else:
        raise AssertionError(w)
    check_dtype(X, dt, **info)
    if w != "identity_sites" and int(X.L) != L:
        raise Violation("L", got=int(X.L), want=L, **info)
    e = close(dense_op(X, sites, **info), ref, tol, 1.0, **info)
    return {"nt": L >= 3, "cls": cls, "err": e}


def spin_ops(S):
    """standard spin-S matrices in the basis m = S, S-1, ..., -S"""
    d = int(round(2 * S + 1))
    m = np.array([S - k for k in range(d)])
    sz = np.diag(m).astype(complex)
    sp = np.zeros((d, d), dtype=complex)
    for k in range(1, d):
        sp[k - 1, k] = math.sqrt(S * (S + 1) - m[k] * (m[k] + 1))
    sx = (sp + sp.conj().T) / 2
    sy = (sp - sp.conj().T) / 2j
    return sx, sy, sz


def chain_ham(L, d, two_site, one_site, cyclic):
    """sum_i two_site(i,i+1) + sum_i one_site(i), built with explicit krons"""
    D = d**L
    H = np.zeros((D, D), dtype=complex)
    eye = np.eye(d)
    for i in range(L):
        H += kron_ops([one_site if k == i else eye for k in range(L)])
    pairs = [(i, i + 1) for i in range(L - 1)] + ([(L - 1, 0)] if cyclic and L > 2 else [])
    for (i, j) in pairs:
        for (c, a, b) in two_site:
            H += c * kron_ops([a if k == i else b if k == j else eye for k in range(L)])
    return H


@st.composite
def s_named_ham(draw, tier):
    S = draw(st.sampled_from([0.5, 0.5, 1.0]))
    L = draw(st.integers(2, 6 if S == 0.5 else 4))
    f = st.sampled_from([1.0, -1.0, 0.5, 0.0, 2.0, -0.7, 0.3])
    return {"which": draw(st.sampled_from(["ising", "heis", "heis3", "XY", "XY2", "XXZ"])), "L": L, "S": S,
            "cyclic": L >= 3 and draw(st.booleans()), "j": [draw(f), draw(f), draw(f)], "b": draw(f), "delta": draw(f)}


def run_named_ham(case):
    qtn = Q()
    w, L, S, cyc = case["which"], case["L"], case["S"], case["cyclic"]
    sx, sy, sz = spin_ops(S)
    d = sx.shape[0]
    jx, jy, jz = case["j"]
    b = case["b"]
    if w == "ising":
        X = qtn.MPO_ham_ising(L, j=jx, bx=b, S=S, cyclic=cyc)
        ref = chain_ham(L, d, [(jx, sz, sz)], -b * sx, cyc)
    elif w == "heis":
        X = qtn.MPO_ham_heis(L, j=jx, bz=b, S=S, cyclic=cyc)
        ref = chain_ham(L, d, [(jx, sx, sx), (jx, sy, sy), (jx, sz, sz)], -b * sz, cyc)
    elif w == "heis3":
        X = qtn.MPO_ham_heis(L, j=(jx, jy, jz), bz=b, S=S, cyclic=cyc)
        ref = chain_ham(L, d, [(jx, sx, sx), (jy, sy, sy), (jz, sz, sz)], -b * sz, cyc)
    elif w == "XY":
        X = qtn.MPO_ham_XY(L, j=jx, bz=b, S=S, cyclic=cyc)
        ref = chain_ham(L, d, [(jx, sx, sx), (jx, sy, sy)], -b * sz, cyc)
    elif w == "XY2":
        X = qtn.MPO_ham_XY(L, j=(jx, jy), bz=b, S=S, cyclic=cyc)
        ref = chain_ham(L, d, [(jx, sx, sx), (jy, sy, sy)], -b * sz, cyc)
    else:
        from quimb.tensor.tensor_builder import MPO_ham_XXZ  # (not re-exported by quimb.tensor)

        X = MPO_ham_XXZ(L, case["delta"], jxy=jx, S=S, cyclic=cyc)
        ref = chain_ham(L, d, [(jx, sx, sx), (jx, sy, sy), (case["delta"], sz, sz)], 0 * sz, cyc)
    info = dict(which=w, cyclic=cyc, S=S)
    if int(X.L) != L or bool(X.cyclic) != bool(cyc):
        raise Violation("ham-structure", L=int(X.L), **info)
    scale = max(float(np.linalg.norm(ref)), d ** (L / 2))
    e = close(dense_op(X, list(range(L)), **info), ref, EXACT64, scale, **info)
    return {"nt": L >= 3, "cls": ["which=" + w, f"L={L}", f"S={S}", "cyclic" if cyc else "open"], "err": e}


# ---------------------------------------------------------------------------
# 5. sums, differences, scalar multiples
# ---------------------------------------------------------------------------

@st.composite
def s_add(draw, tier):
    op = draw(st.booleans())
    a = draw(chains(op=op, maxD=64 if op else 512, Lmax=5 if op else 7))
    b = draw(partner(a))
    return {"a": a, "b": b, "route": draw(st.sampled_from(["add", "sub", "iadd", "isub", "add_method", "add_method_", "ag_sum_negate",
                                                           "add_compress"])),
            "ea": draw(st.sampled_from([0.0, 0.0, 0.0, 0.0, 1.0, -2.0, 0.5])), "eb": draw(st.sampled_from([0.0, 0.0, 0.0, 0.0, 1.0, -2.0, 0.5]))}


def run_add(case):
    qtn = Q()
    from quimb.tensor.tnag.core import tensor_network_ag_sum

    da, db = case["a"], case["b"]
    op, L = da["op"], da["L"]
    x, ra, ma = chain(da)
    y, rb, mb = chain(db)
    # operands may carry a stored exponent (as left behind by compression with equalize_norms=<float>): part of the value
    ea, eb = float(case.get("ea", 0.0)), float(case.get("eb", 0.0))
    if ea:
        x.exponent = ea
        ra, ma = ra * 10.0**ea, ma * 10.0**ea
    if eb:
        y.exponent = eb
        rb, mb = rb * 10.0**eb, mb * 10.0**eb
    route = case["route"]
    info = dict(route=route, op=op, cyclic=da["cyclic"], exp_differ=bool(ea != eb))
    sites = list(range(L))
    tol = tol_exact(da["dtype"], db["dtype"])
    sign = 1.0
    x0 = x
    fx, fy = fingerprint(x), fingerprint(y)
    if route == "add":
        r = x + y
    elif route == "sub":
        r, sign = x - y, -1.0
    elif route == "iadd":
        x += y
        r = x
    elif route == "isub":
        x -= y
        r, sign = x, -1.0
    elif route == "add_method":
        r = x.add_MPO(y) if op else x.add_MPS(y)
    elif route == "add_method_":
        r = x.add_MPO_(y) if op else x.add_MPS_(y)
        if r is not x0:
            raise Violation("inplace-identity", **info)
    elif route == "ag_sum_negate":
        r, sign = tensor_network_ag_sum(x, y, negate=True), -1.0
    else:  # sum followed by the chain's own (lossless) compression
        if da["cyclic"]:
            raise Reject("canonical compression is for open chains")
        if min(np.linalg.norm(ra + rb), np.linalg.norm(ra), np.linalg.norm(rb)) == 0:
            raise Reject("zero state")
        r = (x.add_MPO(y, compress=True, cutoff=0.0) if op else x.add_MPS(y, compress=True, cutoff=0.0))
        tol = tol * 100
    if type(r) is not type(x0):
        raise Violation("result-type", got=type(r).__name__, **info)
    e = close(dense_any(r, sites, **info), ra + sign * rb, tol, ma + mb, **info)
    if route in ("add", "sub", "add_method", "ag_sum_negate", "add_compress"):
        # plain spellings leave the operands alone
        untouched(x0, fx, **info)
    untouched(y, fy, **info)
    if float(y.exponent) != eb:
        raise Violation("operand-mutated", what="exponent", **info)
    return {"nt": chain_nt(da) or chain_nt(db), "cls": chain_classes(da) + ["route=" + route, "dt2=" + db["dtype"]] +
            (["exp-equal" if ea == eb else "exp-differ"] if (ea or eb) else []), "err": e}


SCALARS = {"2.0": 2.0, "-3.0": -3.0, "0.5": 0.5, "1e-3": 1e-3, "-1": -1, "2": 2, "0.3-1.2j": 0.3 - 1.2j, "1j": 1j, "-2+0j": -2 + 0j,
           "np64:2.5": np.float64(2.5), "np64:-0.25": np.float64(-0.25), "np32:1.5": np.float32(1.5), "npc:1-1j": np.complex128(1 - 1j),
           "0.0": 0.0, "0": 0, "np64:0": np.float64(0.0), "0j": 0j, "-0.0": -0.0, "npi64:2": np.int64(2), "npi32:-3": np.int32(-3)}


@st.composite
def s_scalar(draw, tier):
    op = draw(st.booleans())
    a = draw(chains(op=op, maxD=64 if op else 512, Lmax=5 if op else 7))
    return {"a": a, "x": draw(st.sampled_from(sorted(SCALARS))), "route": draw(st.sampled_from(
        ["mul", "rmul", "imul", "div", "idiv", "multiply", "multiply_", "multiply_spread", "neg", "negate_", "multiply_each"])),
        "spread": draw(st.sampled_from([1, 2, 8, "all"])), "ea": draw(st.sampled_from([0.0, 0.0, 0.0, 0.0, 1.0, -2.0, 0.5]))}


def run_scalar(case):
    da = case["a"]
    op, L = da["op"], da["L"]
    t, ref, mag = chain(da)
    ea = float(case.get("ea", 0.0))
    if ea:
        t.exponent = ea
        ref, mag = ref * 10.0**ea, mag * 10.0**ea
    x = SCALARS[case["x"]]
    route = case["route"]
    zero = complex(x) == 0
    info = dict(route=route, op=op, zero=zero, xtype=type(x).__name__)
    sites = list(range(L))
    tol = tol_exact(da["dtype"], "float32" if isinstance(x, np.float32) else "float64")
    t0 = t
    ft = fingerprint(t)
    fac = x
    if route in ("div", "idiv"):
        if zero:
            raise Reject("division by zero")
        fac = 1 / complex(x) if isinstance(x, complex) else 1.0 / float(x)
    if route in ("div", "idiv") and isinstance(x, np.integer):
        try:
            r = t / x if route == "div" else t.__itruediv__(x)
        except ValueError as exc:
            raise Violation("div-numpy-int", **info) from exc
    elif route == "mul":
        r = t * x
    elif route == "rmul":
        r = x * t
        if not hasattr(r, "tensor_map"):
            raise Reject("numpy scalar took the multiplication (numpy __mul__ first)")
    elif route == "imul":
        t *= x
        r = t
    elif route == "div":
        r = t / x
    elif route == "idiv":
        t /= x
        r = t
    elif route == "multiply":
        r = t.multiply(x)
    elif route == "multiply_":
        r = t.multiply_(x)
        if r is not t0:
            raise Violation("inplace-identity", **info)
    elif route == "multiply_spread":
        r = t.multiply(x, spread_over=case["spread"])
    elif route == "multiply_each":
        r = t.multiply_each(x)
        fac = complex(x) ** L if isinstance(x, complex) else x**L
    elif route == "neg":
        r, fac = -t, -1.0
    else:
        r, fac = t.negate_(), -1.0
    if type(r) is not type(t0):
        raise Violation("result-type", got=type(r).__name__, **info)
    want = ref * fac
    e = close(dense_any(r, sites, **info), want, tol * 10, mag * abs(fac), **info)
    if route in ("mul", "rmul", "div", "multiply", "multiply_spread", "neg", "multiply_each"):
        untouched(t0, ft, **info)
    real_in = "complex" not in da["dtype"]
    if real_in and not isinstance(x, (complex, np.complexfloating)) and route not in ("multiply_each",):
        # documented intent of the sign handling: real stays real
        if any("complex" in str(tt.dtype) for tt in r):
            raise Violation("real-became-complex", **info)
    return {"nt": L >= 3, "cls": chain_classes(da) + ["route=" + route, "x=" + case["x"]], "err": e}


# ---------------------------------------------------------------------------
# 6. operator on state / operator on operator
# ---------------------------------------------------------------------------

@st.composite
def s_apply(draw, tier):
    target_op = draw(st.booleans())
    x = draw(chains(op=target_op, maxD=36 if target_op else 256, Lmax=5 if target_op else 6))
    a = draw(partner(x, op=True, max_bond=3))
    route = draw(st.sampled_from(["apply", "apply", "apply_", "dot", "fn", "lazy", "sandwich"] if target_op else
                                 ["apply", "apply", "apply_", "dot", "fn", "lazy", "gate_with_mpo"]))
    return {"A": a, "x": x, "route": route, "contract": draw(st.booleans()), "compress": draw(st.booleans()),
            "which_A": draw(st.sampled_from(["lower", "upper"])), "which_B": draw(st.sampled_from(["upper", "lower"])),
            "lazy": draw(st.sampled_from(["upper", "lower"])), "transpose": draw(st.booleans()), "dagger": draw(st.booleans()),
            "fuse": draw(st.booleans()), "eA": draw(st.sampled_from([0.0, 0.0, 0.0, 0.0, 1.0, -2.0, 0.5])), "ex": draw(st.sampled_from([0.0, 0.0, 0.0, 0.0, 1.0, -2.0, 0.5]))}


def run_apply(case):
    qtn = Q()
    from quimb.tensor.tnag.core import tensor_network_apply_op_op, tensor_network_apply_op_vec

    dA, dx = case["A"], case["x"]
    L = dx["L"]
    Aop, MA, magA = chain(dA)
    x, rx, magx = chain(dx)
    eA, ex = float(case.get("eA", 0.0)), float(case.get("ex", 0.0))
    if eA:
        Aop.exponent = eA
        MA, magA = MA * 10.0**eA, magA * 10.0**eA
    if ex:
        x.exponent = ex
        rx, magx = rx * 10.0**ex, magx * 10.0**ex
    target_op = dx["op"]
    route = case["route"]
    sites = list(range(L))
    tol = tol_exact(dA["dtype"], dx["dtype"]) * 10
    info = dict(route=route, target_op=target_op, cyclic=dx["cyclic"], exponents=bool(eA or ex))
    cls = chain_classes(dx) + ["route=" + route, "target=" + ("mpo" if target_op else "mps")] + (["exp!=0"] if (eA or ex) else [])
    layers = 2
    compress = case["compress"] and case["contract"] and not dx["cyclic"] and route in ("apply", "apply_", "dot", "fn")
    ckw = dict(compress=True, cutoff=0.0) if compress else {}
    if compress:
        tol *= 100
        if min(np.linalg.norm(MA), np.linalg.norm(rx)) == 0:
            raise Reject("zero input to a normalising compression")
    floor = magA * magx
    fA, fx = fingerprint(Aop), fingerprint(x)
    if route in ("apply", "apply_", "dot"):
        f = {"apply": Aop.apply, "apply_": Aop.apply_, "dot": Aop.dot}[route]
        r = f(x, contract=case["contract"], **ckw)
        want = MA @ rx
        cls.append("contract" if case["contract"] else "lazy")
    elif route == "fn":
        if target_op:
            r = tensor_network_apply_op_op(Aop, x, which_A=case["which_A"], which_B=case["which_B"], contract=case["contract"],
                                           fuse_multibonds=case["fuse"], **ckw)
            a = MA if case["which_A"] == "lower" else MA.T  # the contracted side of A faces B
            want = a @ rx if case["which_B"] == "upper" else rx @ a.T
            cls.append(f"which={case['which_A']},{case['which_B']}")
        else:
            r = tensor_network_apply_op_vec(Aop, x, which_A=case["which_A"], contract=case["contract"], fuse_multibonds=case["fuse"], **ckw)
            want = (MA if case["which_A"] == "lower" else MA.T) @ rx
            cls.append(f"which={case['which_A']}")
    elif route == "lazy":
        tr = case["transpose"]
        if target_op:
            if case["lazy"] == "upper":
                r, want = x.gate_upper_with_op_lazy(Aop, transpose=tr), (MA.T if tr else MA) @ rx
            else:
                r, want = x.gate_lower_with_op_lazy(Aop, transpose=tr), rx @ (MA.T if tr else MA)
            cls.append("lazy=" + case["lazy"])
        else:
            r, want = x.gate_with_op_lazy(Aop, transpose=tr), (MA.T if tr else MA) @ rx
        cls.append("transpose" if tr else "plain")
    elif route == "sandwich":
        r = x.gate_sandwich_with_op_lazy(Aop, dagger=case["dagger"])
        want = (MA.conj().T @ rx @ MA) if case["dagger"] else (MA @ rx @ MA.conj().T)
        floor *= magA
        layers = 3
        cls.append("dagger" if case["dagger"] else "plain")
    elif route == "gate_with_mpo":
        if dx["cyclic"]:
            raise Reject("1D compression is for open chains")
        if min(np.linalg.norm(MA), np.linalg.norm(rx)) == 0:
            raise Reject("zero input")
        r = x.gate_with_mpo(Aop, transpose=case["transpose"], cutoff=0.0, max_bond=None)
        want = (MA.T if case["transpose"] else MA) @ rx
        tol *= 100
        cls.append("transpose" if case["transpose"] else "plain")
    else:
        raise AssertionError(route)
    if type(r) is not type(x):
        raise Violation("result-type", got=type(r).__name__, **info)
    e = close(dense_any(r, sites, **info), want, tol, floor, **info)
    # the acted-on network is never touched (documented for apply; plain spellings otherwise)
    untouched(x, fx, **info)
    if route != "apply_":
        untouched(Aop, fA, "operator-mutated", **info)
    return {"nt": L >= 3 and layers >= 2, "cls": cls, "err": e}


@st.composite
def s_apply_sub(draw, tier):
    x = draw(chains(op=False, Lmin=2, Lmax=6, maxD=256, cyclic=False, dtypes=A.DTYPES64, kinds=KINDS_WELL))
    L = x["L"]
    n = draw(st.integers(2, min(L, 4)))
    sites = sorted(draw(st.lists(st.integers(0, L - 1), min_size=n, max_size=n, unique=True)))
    a = {"op": True, "L": n, "phys": [x["phys"][s] for s in sites], "bonds": [draw(st.integers(1, 3)) for _ in range(n)], "cyclic": False,
         "dtype": draw(st.sampled_from(A.DTYPES64)), "seed": draw(A.seeds), "kind": draw(st.sampled_from(KINDS_WELL))}
    return {"A": a, "x": x, "sites": sites, "route": draw(st.sampled_from(["apply", "lazy", "gate_with_submpo", "gate_with_submpo"])),
            "method": draw(st.sampled_from(M_1D + ["lazy", "direct", "dm"])), "transpose": draw(st.booleans()),
            "where": draw(st.booleans()), "reverse": draw(st.booleans()), "contract": draw(st.booleans()),
            "orthog": draw(st.sampled_from(["calc", "none"]))}


def run_apply_sub(case):
    qtn = Q()
    dA, dx, ss = case["A"], case["x"], case["sites"]
    L = dx["L"]
    arrsA = chain_arrays(dA)
    MA, magA = chain_dense(dA, arrsA)
    Aop = qtn.MatrixProductOperator([a.copy() for a in arrsA], sites=ss, L=L)
    x, rx, magx = chain(dx)
    if min(np.linalg.norm(MA), np.linalg.norm(rx)) == 0:
        raise Reject("zero input")
    route = case["route"]
    tr = case["transpose"]
    full = embed(MA.T if tr else MA, dx["phys"], ss)
    want = full @ rx
    sites = list(range(L))
    info = dict(route=route, transpose=tr)
    cls = ["route=" + route, f"L={L}", f"n={len(ss)}", "contiguous" if ss == list(range(ss[0], ss[-1] + 1)) else "gaps",
           "transpose" if tr else "plain"]
    tol = EXACT64 * 10
    fx = fingerprint(x)
    if route == "apply":
        if tr:
            raise Reject("apply has no transpose option")
        r = Aop.apply(x, contract=case["contract"])
    elif route == "lazy":
        r = x.gate_with_op_lazy(Aop, transpose=tr)
    else:
        m = case["method"]
        info["method"] = m
        cls.append("method=" + m)
        kw = {}
        if m != "lazy":
            # exact rank of the result is at most (state bond) x (operator bond): nothing needs truncating
            kw.update(cutoff=0.0, max_bond=max(dx["bonds"]) * max(dA["bonds"]) * 3 + 2, sweep_reverse=case["reverse"])
            if m in M_RAND or m in ("fit", "fit-oversample"):
                kw["seed"] = 7
            if m not in M_DET:
                tol = INV64
            if m.endswith("-first") or m.endswith("-oversample"):
                kw["max_bond_oversample"] = kw["max_bond"] + 2
        inf = {"cur_orthog": "calc"} if case["orthog"] == "calc" else {}
        try:
            r = x.gate_with_submpo(Aop, where=list(ss) if case["where"] else None, method=m, transpose=tr, info=inf, **kw)
        except KeyError as exc:
            # (a site tag of the *full* chain looked up on the sub-region: classified by the method family whose
            #  inner first-stage compression is not told permute_arrays=False)
            fam = "inner-stage-permutes" if m in ("zipup-first", "zipup-oversample", "fit-zipup", "fit-projector") else "other"
            raise Violation("submpo-keyerror", family=fam, last_site_in_region=bool(ss[-1] == L - 1), **info) from exc
        if m != "lazy":
            # documented: info["cur_orthog"] is updated to the actual range: check the claim by isometry defects
            lo, hi = inf["cur_orthog"]
            d = 0.0
            for i in range(L):
                if lo <= i <= hi:
                    continue
                t = r[r.site_tag_id.format(i)]
                nb = i + 1 if i < lo else i - 1
                bond = [ix for ix in t.inds if ix in r[r.site_tag_id.format(nb)].inds]
                d = max(d, iso_defect(np.asarray(t.data), t.inds, [ix for ix in t.inds if ix not in bond]))
            if not d <= 1e-7:
                raise Violation("submpo-orthog-record", defect=d, lo=int(lo), hi=int(hi), **info)
            if r.max_bond() > kw["max_bond"]:
                raise Violation("bond-cap", got=int(r.max_bond()), cap=kw["max_bond"], **info)
    if type(r) is not type(x):
        raise Violation("result-type", got=type(r).__name__, **info)
    e = close(dense_vec(r, sites, **info), want, tol, magA * magx, **info)
    untouched(x, fx, **info)
    return {"nt": L >= 3 and len(ss) < L, "cls": cls, "err": e}


@st.composite
def s_apply_sub_op(draw, tier):
    x = draw(chains(op=True, Lmin=2, Lmax=5, maxD=36, cyclic=True, dtypes=A.DTYPES64, kinds=KINDS_WELL, max_bond=3))
    L = x["L"]
    n = draw(st.integers(2, min(L, 4)))
    sites = sorted(draw(st.lists(st.integers(0, L - 1), min_size=n, max_size=n, unique=True)))
    a = {"op": True, "L": n, "phys": [x["phys"][s] for s in sites], "bonds": [draw(st.integers(1, 2)) for _ in range(n)], "cyclic": False,
         "dtype": draw(st.sampled_from(A.DTYPES64)), "seed": draw(A.seeds), "kind": draw(st.sampled_from(KINDS_WELL))}
    return {"A": a, "x": x, "sites": sites, "contract": draw(st.booleans()), "transpose": draw(st.booleans()), "dagger": draw(st.booleans()),
            "route": draw(st.sampled_from(["apply", "apply", "dot", "fn_lower_upper", "fn_lower_lower", "fn_upper_upper", "fn_upper_lower",
                                           "lazy_upper", "lazy_lower", "sandwich"]))}


def run_apply_sub_op(case):
    """operator on a SUBSET of sites acting on an operator defined on all sites: (1 x A x 1) B etc."""
    qtn = Q()
    from quimb.tensor.tnag.core import tensor_network_apply_op_op

    dA, dx, ss = case["A"], case["x"], case["sites"]
    L = dx["L"]
    arrsA = chain_arrays(dA)
    MA, magA = chain_dense(dA, arrsA)
    Aop = qtn.MatrixProductOperator([a.copy() for a in arrsA], sites=ss, L=L)
    B, MB, magB = chain(dx)
    E = embed(MA, dx["phys"], ss)
    route = case["route"]
    partial = len(ss) < L
    info = dict(route=route, partial=partial, cyclic=dx["cyclic"])
    fB, fA = fingerprint(B), fingerprint(Aop)
    floor = magA * magB * math.sqrt(float(prod(dx["phys"][i] for i in range(L) if i not in ss)))
    if route in ("apply", "dot"):
        r = (Aop.apply if route == "apply" else Aop.dot)(B, contract=case["contract"])
        want = E @ MB
    elif route.startswith("fn_"):
        wa, wb = route.split("_")[1:]
        r = tensor_network_apply_op_op(Aop, B, which_A=wa, which_B=wb, contract=case["contract"])
        a = E if wa == "lower" else E.T
        want = a @ MB if wb == "upper" else MB @ a.T
    elif route == "lazy_upper":
        r, want = B.gate_upper_with_op_lazy(Aop, transpose=case["transpose"]), (E.T if case["transpose"] else E) @ MB
    elif route == "lazy_lower":
        r, want = B.gate_lower_with_op_lazy(Aop, transpose=case["transpose"]), MB @ (E.T if case["transpose"] else E)
    else:
        r = B.gate_sandwich_with_op_lazy(Aop, dagger=case["dagger"])
        want = (E.conj().T @ MB @ E) if case["dagger"] else (E @ MB @ E.conj().T)
        floor *= magA
    if type(r) is not type(B):
        raise Violation("result-type", got=type(r).__name__, **info)
    e = close(dense_op(r, list(range(L)), **info), want, EXACT64 * 10, floor, **info)
    untouched(B, fB, **info)
    untouched(Aop, fA, "operator-mutated", **info)
    return {"nt": L >= 3 and partial, "cls": ["route=" + route, f"L={L}", f"n={len(ss)}", "partial" if partial else "all-sites",
                                              "cyclic" if dx["cyclic"] else "open"], "err": e}


# ---------------------------------------------------------------------------
# 7. overlaps, norms, expectation values, traces, normalisation
# ---------------------------------------------------------------------------

@st.composite
def s_scalars(draw, tier):
    a = draw(chains(op=False, maxD=128, Lmax=6))
    b = draw(partner(a))
    A1 = draw(partner(a, op=True, max_bond=3))
    A2 = draw(partner(a, op=True, max_bond=2))
    return {"a": a, "b": b, "A": A1, "B": A2,
            "route": draw(st.sampled_from(["H@", "overlap", "norm", "norm_sq", "expec1", "expec2", "expec_method", "trace", "trace_prod",
                                           "normalize", "normalize_bra", "mpo_norm", "schmidt"])),
            "insert": draw(st.sampled_from([None, 0, 1, -1])), "cut": draw(st.integers(1, 6)),
            "exps": [draw(st.sampled_from([0.0, 0.0, 0.0, 0.0, 1.0, -2.0, 0.5])) for _ in range(4)]}


def run_scalars(case):
    qtn = Q()
    da = case["a"]
    L = da["L"]
    route = case["route"]
    exps = [float(e) for e in case.get("exps", [0.0] * 4)]
    if route in ("normalize", "normalize_bra", "schmidt"):
        exps = [0.0] * 4  # (exponent-carrying operands only for the plain scalar routes)

    def chE(desc, k):
        obj, ref, mag = chain(desc)
        if exps[k]:
            obj.exponent = exps[k]
            ref, mag = ref * 10.0 ** exps[k], mag * 10.0 ** exps[k]
        return obj, ref, mag

    a, ra, ma = chE(da, 0)
    tol = tol_exact(da["dtype"], case["b"]["dtype"], case["A"]["dtype"], case["B"]["dtype"]) * 10
    info = dict(route=route, cyclic=da["cyclic"])
    cls = chain_classes(da) + ["route=" + route] + (["exp!=0"] if any(exps) else [])
    sites = list(range(L))

    def sc(got, want, floor, **kw):
        return close(np.asarray(complex(got)), np.asarray(complex(want)), tol, floor, **info, **kw)

    if route in ("H@", "overlap"):
        b, rb, mb = chE(case["b"], 1)
        if route == "H@":
            e = sc(a.H @ b, np.vdot(ra, rb), ma * mb)
        else:
            # documented: the argument is the conjugated one
            e = sc(a.overlap(b), np.vdot(rb, ra), ma * mb)
    elif route == "norm":
        e = sc(a.norm(), np.linalg.norm(ra), ma)
    elif route == "norm_sq":
        e = sc(a.norm(squared=True), np.linalg.norm(ra) ** 2, ma**2)
    elif route in ("expec1", "expec_method"):
        b, rb, mb = chE(case["b"], 1)
        Aop, MA, mA = chE(case["A"], 2)
        if route == "expec1":
            got = qtn.expec_TN_1D(a.H, Aop, b)
        else:
            got = a.H.expec(Aop, b)
        e = sc(got, np.vdot(ra, MA @ rb), ma * mb * mA)
    elif route == "expec2":
        b, rb, mb = chE(case["b"], 1)
        Aop, MA, mA = chE(case["A"], 2)
        Bop, MB, mB = chE(case["B"], 3)
        e = sc(qtn.expec_TN_1D(a.H, Aop, Bop, b), np.vdot(ra, MA @ MB @ rb), ma * mb * mA * mB)
    elif route == "trace":
        Aop, MA, mA = chE(case["A"], 2)
        e = sc(Aop.trace(), np.trace(MA), mA)
    elif route == "trace_prod":
        Aop, MA, mA = chE(case["A"], 2)
        Bop, MB, mB = chE(case["B"], 3)
        e = sc(Aop.apply(Bop).trace(), np.trace(MA @ MB), mA * mB)
    elif route == "mpo_norm":
        Aop, MA, mA = chE(case["A"], 2)
        e = sc(Aop.norm(), np.linalg.norm(MA), mA)
        e = max(e, sc(Aop.H @ Aop, np.linalg.norm(MA) ** 2, mA**2))
    elif route in ("normalize", "normalize_bra"):
        n2 = float(np.linalg.norm(ra) ** 2)
        if n2 <= 1e-200 * ma**2 or da["kind"] in ("sparse", "int") and n2 < 1e-12 * ma**2:
            raise Reject("zero state cannot be normalised")
        if L < 2 and da["cyclic"]:
            raise Reject("domain")
        kw = {}
        if case["insert"] is not None:
            kw["insert"] = case["insert"] % L
        bra = a.H if route == "normalize_bra" else None
        old = a.normalize(bra=bra, **kw)
        # documented return value: the old <psi|psi>
        e = sc(old, n2, ma**2, clause="returned-old-norm")
        got = dense_vec(a, sites, **info)
        itol = (INV32 if single(da["dtype"]) else INV64)
        e = max(e, close(got, ra / math.sqrt(n2), itol, ma / math.sqrt(n2), reason="normalized-state", **info))
        if bra is not None:
            e = max(e, close(dense_vec(bra, sites, **info), np.conj(ra) / math.sqrt(n2), itol, ma / math.sqrt(n2),
                             reason="normalized-bra", **info))
    elif route == "schmidt":
        if da["cyclic"] or L < 2:
            raise Reject("bipartite Schmidt state is for open chains with >= 2 sites")
        n2 = float(np.linalg.norm(ra))
        if n2 <= 1e-6 * ma:
            raise Reject("(nearly) zero state")
        k = 1 + (case["cut"] - 1) % (L - 1)
        dl = prod(da["phys"][:k])
        sv = np.linalg.svd(ra.reshape(dl, -1), compute_uv=False)
        got = np.asarray(a.bipartite_schmidt_state(k, get="ket-dense")).reshape(-1)
        m = int(round(math.sqrt(got.size)))
        gd = np.sort(np.abs(np.diag(got.reshape(m, m))))[::-1]
        off = got.reshape(m, m) - np.diag(np.diag(got.reshape(m, m)))
        if np.linalg.norm(off) > 1e-12 * max(np.linalg.norm(got), 1e-300):
            raise Violation("schmidt-not-diagonal", **info)
        n = max(len(gd), len(sv))
        gd, sv = np.pad(gd, (0, n - len(gd))), np.pad(sv, (0, n - len(sv)))
        e = close(gd, sv, INV32 if single(da["dtype"]) else INV64, ma, **info)
        cls.append(f"cut={k}")
    else:
        raise AssertionError(route)
    return {"nt": chain_nt(da) or L >= 3 and route in ("expec1", "expec2", "trace_prod"), "cls": cls, "err": e}


# ---------------------------------------------------------------------------
# 7b. local queries: reduced density matrices and expectation values on 1-3 sites IN ANY ORDER
# ---------------------------------------------------------------------------

LQ_ROUTES = ["ptr_canonical", "ptr_canonical", "lexp_canonical", "lexp_canonical", "compute_default", "compute_canonical",
             "compute_canonical_fn", "compute_envs", "compute_envs_fn", "ptr_exact", "lexp_exact", "compute_exact"]


@st.composite
def s_local(draw, tier):
    a = draw(chains(op=False, Lmin=2, Lmax=7, maxD=256, cyclic=False, kinds=KINDS_WELL, phys=(2, 2, 2, 3, 1)))
    L = a["L"]
    nt = draw(st.integers(1, 4))
    wheres = []
    for _ in range(nt):
        k = draw(st.integers(1, min(3, L)))
        w = draw(st.lists(st.integers(0, L - 1), min_size=k, max_size=k, unique=True))  # any order
        if draw(st.booleans()) and k >= 2:
            w = sorted(w, reverse=True)  # descending on purpose
        if w not in wheres:
            wheres.append(w)
    return {"a": a, "wheres": wheres, "gseed": draw(A.seeds), "route": draw(st.sampled_from(LQ_ROUTES)),
            "normalized": draw(st.booleans()), "return_all": draw(st.booleans()), "int_where": draw(st.booleans()),
            "inplace": draw(st.booleans()), "info": draw(st.sampled_from(["none", "calc", "site"])),
            "unit": draw(st.booleans()), "exponent": draw(st.sampled_from([0.0, 0.0, 0.0, 0.0, 0.0, 1.5, -1.0])),
            "herm": draw(st.integers(0, 3)) == 0}


def run_local(case):
    da = case["a"]
    L, ph = da["L"], da["phys"]
    route = case["route"]
    arrs = chain_arrays(da)
    v, mag = chain_dense(da, arrs)
    nv = float(np.linalg.norm(v))
    if nv <= 1e-6 * mag:
        raise Reject("(nearly) zero state")
    if case["unit"]:
        arrs[0] = (arrs[0] / nv).astype(arrs[0].dtype)
        v, mag = v / nv, mag / nv
    psi = build_chain(da, arrs)
    expo = float(case["exponent"])
    # a stored exponent is only generated for the canonical routes (documented there as part of bra and ket)
    if expo and not route.endswith("canonical") and route not in ("compute_default", "compute_canonical_fn"):
        expo = 0.0
    if expo:
        psi.exponent = expo
        v, mag = v * 10.0**expo, mag * 10.0**expo
    nrm2 = float(np.vdot(v, v).real)
    normalized = case["normalized"]
    wheres = [list(w) for w in case["wheres"]]
    sing = single(da["dtype"])
    tol = (INV32 if sing else 1e-8)
    info = dict(route=route, normalized=normalized, complex="complex" in da["dtype"])
    cls = chain_classes(da) + ["route=" + route, "normalized" if normalized else "raw"] + (["exp!=0"] if expo else [])

    def rho_ref(w):
        r = ptrace(v, ph, w)  # subsystems in the order requested
        return r / np.trace(r) if normalized else r

    def G_of(w, j):
        d = prod(ph[i] for i in w)
        g = A.make_matrix(site_seed(case["gseed"], j), "hermitian" if case["herm"] else "gauss", d, d, "complex128")
        return g.astype("complex64") if sing else g

    def key_of(w):
        return w[0] if (len(w) == 1 and case["int_where"]) else tuple(w)

    def order_class(w):
        return "1site" if len(w) == 1 else "ascending" if w == sorted(w) else "descending" if w == sorted(w, reverse=True) else "mixed"

    ikw = {}
    if case["info"] == "calc":
        ikw["info"] = {"cur_orthog": "calc"}
    elif case["info"] == "site":
        ikw["info"] = {}
    fp = fingerprint(psi)
    e = 0.0
    scale = 1.0 if normalized else nrm2
    if route in ("ptr_canonical", "ptr_exact"):
        w = wheres[0]
        cls.append("order=" + order_class(w))
        info["order"] = order_class(w)
        if route == "ptr_canonical":
            got = np.asarray(psi.partial_trace_to_dense_canonical(key_of(w), normalized=normalized, **ikw))
        else:
            got = np.asarray(psi.partial_trace_exact(tuple(w), normalized=normalized))
        ref = rho_ref(w)
        if got.shape != ref.shape:
            raise Violation("rho-shape", got=list(got.shape), want=list(ref.shape), **info)
        err = rel_err(got, ref, floor=scale)
        if not err <= tol:
            # classify: is it the reduced state with its subsystems in another order?
            other = [list(p) for p in itertools.permutations(w) if list(p) != w]
            perm = any(rel_err(got, (ptrace(v, ph, p) / (np.trace(ptrace(v, ph, p)) if normalized else 1.0)), floor=scale) <= tol
                       for p in other if prod(ph[i] for i in p) == got.shape[0])
            raise Violation("rho-value", err=err, subsystems_permuted=bool(perm), **info)
        e = err
    else:
        terms = {key_of(w): G_of(w, j) for j, w in enumerate(wheres)}
        refs = {key_of(w): complex(np.trace(terms[key_of(w)].astype(np.complex128) @ rho_ref(w))) for w in wheres}
        floors = {key_of(w): float(np.linalg.norm(terms[key_of(w)])) * scale for w in wheres}
        orders = sorted({order_class(w) for w in wheres})
        cls += ["order=" + o for o in orders] + [f"terms={len(wheres)}"]
        info["orders"] = orders
        if route in ("lexp_canonical", "lexp_exact"):
            w = wheres[0]
            k = key_of(w)
            if route == "lexp_canonical":
                got = {k: psi.local_expectation_canonical(terms[k], k, normalized=normalized, **ikw)}
            else:
                got = {k: psi.local_expectation_exact(terms[k], tuple(w), normalized=normalized)}
            refs, floors = {k: refs[k]}, {k: floors[k]}
            ret_all = True
        else:
            ret_all = case["return_all"]
            kw = dict(normalized=normalized, return_all=ret_all)
            if route == "compute_default":
                res = psi.compute_local_expectation(terms, inplace=case["inplace"], **ikw, **kw)
            elif route == "compute_canonical":
                res = psi.compute_local_expectation(terms, method="canonical", inplace=case["inplace"], **ikw, **kw)
            elif route == "compute_canonical_fn":
                res = psi.compute_local_expectation_canonical(terms, inplace=case["inplace"], **ikw, **kw)
            elif route == "compute_envs":
                res = psi.compute_local_expectation(terms, method="envs", **kw)
            elif route == "compute_envs_fn":
                res = psi.compute_local_expectation_via_envs(terms, **kw)
            else:
                res = psi.compute_local_expectation_exact(terms, **kw)
            got = res if ret_all else {"sum": res}
            if not ret_all:
                refs, floors = {"sum": sum(refs.values())}, {"sum": sum(floors.values())}
        if ret_all and set(got) != set(refs):
            raise Violation("expec-keys", got=[str(k) for k in got], **info)
        for k in refs:
            err = rel_err(np.asarray(complex(got[k])), np.asarray(refs[k]), floor=floors[k])
            if not err <= tol:
                raise Violation("expec-value", err=err, key=str(k), **info)
            e = max(e, err)
    # the state still denotes the same vector (canonical routes move the centre in place), and plain spellings leave
    # the receiver's tensors alone
    moved = route in ("ptr_canonical", "lexp_canonical") or (route in ("compute_default", "compute_canonical", "compute_canonical_fn")
                                                              and case["inplace"])
    if moved:
        e = max(e, close(dense_vec(psi, list(range(L)), **info), v, tol, mag, reason="state-changed", **info))
    else:
        untouched(psi, fp, "receiver-mutated", **info)
    multi_desc = any(len(w) >= 2 and w != sorted(w) for w in wheres)
    return {"nt": L >= 3 and multi_desc, "cls": cls, "err": e}


# ---------------------------------------------------------------------------
# 8. partial trace to an MPO, partial transpose, conjugation
# ---------------------------------------------------------------------------

@st.composite
def s_ptrace(draw, tier):
    a = draw(chains(op=False, Lmin=2, Lmax=6, maxD=128, cyclic=False))
    L = a["L"]
    k = draw(st.integers(1, L))
    keep = sorted(draw(st.lists(st.integers(0, L - 1), min_size=k, max_size=k, unique=True)))
    return {"a": a, "keep": keep, "as_slice": draw(st.booleans()), "rescale": draw(st.booleans()),
            "upper_id": draw(st.sampled_from([None, "b{}", "bra{}"]))}


def run_ptrace(case):
    da, keep = case["a"], list(case["keep"])
    L = da["L"]
    a, ra, ma = chain(da)
    contiguous = keep == list(range(keep[0], keep[-1] + 1))
    kw = {}
    if case["upper_id"] is not None:
        kw["upper_ind_id"] = case["upper_id"]
    if not case["rescale"]:
        kw["rescale_sites"] = False
    karg = slice(keep[0], keep[-1] + 1) if (case["as_slice"] and contiguous) else list(keep)
    fa = fingerprint(a)
    rho = a.partial_trace_to_mpo(karg, **kw)
    cplx = "complex" in da["dtype"]
    info = dict(complex=cplx, rescale=case["rescale"])
    if type(rho).__name__ != "MatrixProductOperator":
        raise Violation("result-type", got=type(rho).__name__, **info)
    sites = list(range(len(keep))) if case["rescale"] else keep
    want_L = len(keep) if case["rescale"] else L
    if int(rho.L) != want_L or list(rho.gen_sites_present()) != sites:
        raise Violation("ptrace-sites", L=int(rho.L), present=list(rho.gen_sites_present()), **info)
    # a matrix product operator: one tensor per kept site, bonds only between consecutive kept sites
    if rho.num_tensors != len(keep):
        raise Violation("ptrace-structure", tensors=int(rho.num_tensors), **info)
    for ix, tids in rho.ind_map.items():
        if len(tids) == 2:
            pos = sorted(k for tid in tids for k, s_ in enumerate(sites) if rho.site_tag_id.format(s_) in rho.tensor_map[tid].tags)
            if len(pos) != 2 or pos[1] - pos[0] != 1:
                raise Violation("ptrace-structure", bond_between=pos, **info)
    ref = ptrace(ra, da["phys"], keep)
    tol = tol_exact(da["dtype"]) * 10
    # rows = upper (ket-like) indices, columns = lower (bra-like) indices: rho = Tr_rest |psi><psi|
    got = dense_op(rho, sites, **info)
    e = rel_err(got, ref, floor=ma**2)
    if not e <= tol:
        eT = rel_err(got, ref.T, floor=ma**2)
        raise Violation("ptrace-value", err=e, transposed=bool(eT <= tol), **info)
    dq = np.asarray(rho.to_dense())
    e = max(e, close(dq, ref, tol, ma**2, reason="ptrace-to_dense", **info))
    untouched(a, fa, **info)
    return {"nt": L >= 3 and len(keep) < L and cplx, "cls": chain_classes(da) + [f"keep={len(keep)}", "contiguous" if contiguous else "gaps",
                                                                          "rescale" if case["rescale"] else "keep-numbers"], "err": e}


@st.composite
def s_transpose(draw, tier):
    op = draw(st.integers(0, 3)) > 0
    a = draw(chains(op=op, maxD=36 if op else 256, Lmax=5 if op else 6))
    L = a["L"]
    k = draw(st.integers(0, L))
    return {"a": a, "sysa": sorted(draw(st.lists(st.integers(0, L - 1), min_size=k, max_size=k, unique=True))),
            "route": draw(st.sampled_from(["partial_transpose", "partial_transpose_", "partial_transpose_single", "H", "conj", "conj_",
                                           "swap_ids", "T_via_all", "reindex_upper"]) if op else
                          st.sampled_from(["H", "conj", "conj_", "reindex_sites"]))}


def ptranspose(M, dims, sysa):
    n = len(dims)
    t = M.reshape(list(dims) + list(dims))
    perm = list(range(2 * n))
    for s in sysa:
        perm[s], perm[n + s] = n + s, s
    return t.transpose(perm).reshape(M.shape)


def run_transpose(case):
    da = case["a"]
    op, L = da["op"], da["L"]
    t, ref, mag = chain(da)
    route = case["route"]
    sites = list(range(L))
    sysa = list(case["sysa"])
    info = dict(route=route, op=op)
    tol = tol_exact(da["dtype"])  # (pure relabelling / conjugation; the reference is computed in double precision)
    if route in ("partial_transpose", "partial_transpose_"):
        r = t.partial_transpose(sysa) if route == "partial_transpose" else t.partial_transpose_(sysa)
        want = ptranspose(ref, da["phys"], sysa)
    elif route == "partial_transpose_single":
        if not sysa:
            raise Reject("no site")
        r = t.partial_transpose(sysa[0])  # documented: a single valid site is auto-wrapped
        want = ptranspose(ref, da["phys"], sysa[:1])
    elif route == "T_via_all":
        r, want = t.partial_transpose(sites), ref.T
    elif route == "H":
        r, want = t.H, ref.conj()  # conjugates only: indices stay in place
    elif route == "conj":
        r, want = t.conj(), ref.conj()
    elif route == "conj_":
        r, want = t.conj_(), ref.conj()
    elif route == "swap_ids":
        # documented way to transpose: exchange the two index ids through a temporary
        r = t.copy()
        r.upper_ind_id = "tmp{}"
        r.lower_ind_id = "k{}"
        r.upper_ind_id = "b{}"
        if set(r.outer_inds()) != set(t.outer_inds()):
            raise Violation("outer-inds", **info)
        # now upper is named b, lower k: as a matrix (rows = upper) it is unchanged ...
        e = close(dense_op(r, sites, **info), ref, tol, mag, **info)
        # ... but seen through the old names it is the transpose
        v = np.asarray(tn_value(r, [f"k{i}" for i in sites] + [f"b{i}" for i in sites])).reshape(ref.shape)
        e = max(e, close(v, ref.T, tol, mag, reason="swap-ids-transpose", **info))
        return {"nt": L >= 3, "cls": chain_classes(da) + ["route=" + route], "err": e}
    elif route == "reindex_upper":
        # documented domain of `where`: None or a slice
        if sysa:
            sysa = list(range(sysa[0], sysa[-1] + 1))
            r = t.reindex_upper_sites("z{}", where=slice(sysa[0], sysa[-1] + 1))
        else:
            sysa = list(sites)
            r = t.reindex_upper_sites("z{}")
        inds = [("z{}" if i in sysa else "k{}").format(i) for i in sites] + [f"b{i}" for i in sites]
        if set(r.outer_inds()) != set(inds):
            raise Violation("outer-inds", **info)
        e = close(np.asarray(tn_value(r, inds)).reshape(ref.shape), ref, tol, mag, **info)
        return {"nt": L >= 3, "cls": chain_classes(da) + ["route=" + route], "err": e}
    elif route == "reindex_sites":
        if sysa:
            sysa = list(range(sysa[0], sysa[-1] + 1))
            r = t.reindex_sites("z{}", where=slice(sysa[0], sysa[-1] + 1))
        else:
            sysa = list(sites)
            r = t.reindex_sites("z{}")
        inds = [("z{}" if i in sysa else "k{}").format(i) for i in sites]
        if set(r.outer_inds()) != set(inds):
            raise Violation("outer-inds", **info)
        e = close(np.asarray(tn_value(r, inds)).reshape(ref.shape), ref, tol, mag, **info)
        return {"nt": L >= 3, "cls": chain_classes(da) + ["route=" + route], "err": e}
    else:
        raise AssertionError(route)
    if type(r) is not type(t):
        raise Violation("result-type", got=type(r).__name__, **info)
    e = close(dense_any(r, sites, **info), want, tol, mag, **info)
    return {"nt": L >= 3 and (route not in ("partial_transpose", "partial_transpose_") or 0 < len(sysa) < L),
            "cls": chain_classes(da) + ["route=" + route, f"nsys={len(sysa)}"], "err": e}


# ---------------------------------------------------------------------------
# 9. 1D compression: every registered method through the dispatcher
# ---------------------------------------------------------------------------

M_DET = ["direct", "dm", "zipup", "zipup-first", "zipup-oversample", "sdc", "sdc-oversample"]
M_RAND = ["src", "src-first", "src-oversample", "srcmps", "srcmps-first", "srcmps-oversample"]
M_FIT = ["fit", "fit-zipup", "fit-projector", "fit-oversample"]
M_AG = ["local-early", "local-late", "projector", "su", "superorthogonal", "l2bp"]
M_1D = M_DET + M_RAND + M_FIT
NEED_CAP = set(M_RAND + M_FIT + ["sdc-oversample"])


def registry_names():
    from quimb.tensor.tn1d.compress import _TN1D_COMPRESS_METHODS
    from quimb.tensor.tnag.compress import _TNAG_COMPRESS_METHODS

    return sorted(_TN1D_COMPRESS_METHODS), sorted(_TNAG_COMPRESS_METHODS)


@st.composite
def s_layers(draw, kinds=("mps", "mpo", "mpo-mps", "mpo-mps", "mpo-mpo", "mpo-mpo-mps"), Lmin=2, Lmax=6, max_bond=3):
    """an open chain plus 0-2 operator layers stacked lazily on top of it (1-3 tensors per site)"""
    kind = draw(st.sampled_from(kinds))
    base_op = kind in ("mpo", "mpo-mpo")
    x = draw(chains(op=base_op, Lmin=Lmin, Lmax=5 if base_op else Lmax, maxD=32 if base_op else 256, cyclic=False, dtypes=A.DTYPES64,
                    kinds=KINDS_WELL, max_bond=max_bond, phys=(2, 2, 2, 3, 1)))
    nl = {"mps": 0, "mpo": 0, "mpo-mps": 1, "mpo-mpo": 1, "mpo-mpo-mps": 2}[kind]
    layers = [draw(partner(x, op=True, kinds=KINDS_WELL, max_bond=2)) for _ in range(nl)]
    return {"kind": kind, "x": x, "layers": layers}


def build_layers(inp):
    """(lazy quimb network, site list, per-bond structural rank bound)"""
    x, _, _ = chain(inp["x"])
    tn = x
    for ld in inp["layers"]:
        Aop, _, _ = chain(ld)
        tn = Aop.apply(tn, contract=False)
    L = inp["x"]["L"]
    ph = inp["x"]["phys"]
    sd = [p * p if inp["x"]["op"] else p for p in ph]  # outer dimension per site
    chi = []
    for k in range(L - 1):
        b = inp["x"]["bonds"][k]
        for ld in inp["layers"]:
            b *= ld["bonds"][k]
        chi.append(min(b, prod(sd[: k + 1]), prod(sd[k + 1:])))
    return tn, list(range(L)), chi, sd


def struct_bonds(inp):
    """per bond: product of the layers' bond dimensions (what a site-wise contraction produces before any reduction)"""
    out = []
    for k in range(inp["x"]["L"] - 1):
        b = inp["x"]["bonds"][k]
        for ld in inp["layers"]:
            b *= ld["bonds"][k]
        out.append(b)
    return out


def site_tensor(M, inp):
    """dense value with one axis per site (operator: upper,lower of a site fused)"""
    ph = inp["x"]["phys"]
    L = len(ph)
    if inp["x"]["op"]:
        t = np.asarray(M).reshape(list(ph) + list(ph))
        perm = [j for i in range(L) for j in (i, L + i)]
        return t.transpose(perm).reshape([p * p for p in ph])
    return np.asarray(M).reshape(list(ph))


def unfold_svals(T):
    sh = T.shape
    return [np.linalg.svd(T.reshape(prod(sh[:k]), -1), compute_uv=False) for k in range(1, len(sh))]


def out_bonds(r, L, **info):
    out = []
    for i in range(L - 1):
        b = bond_inds(r, i, i + 1)
        if len(b) > 1:
            raise Violation("multi-bond-output", site=i, **info)
        out.append(int(r.ind_size(b[0])) if b else 1)
    return out


def check_one_per_site(r, L, **info):
    if r.num_tensors != L:
        raise Violation("not-one-tensor-per-site", got=int(r.num_tensors), want=L, **info)
    for ix, tids in r.ind_map.items():
        if len(tids) == 2:
            ss = sorted(i for tid in tids for i in range(L) if r.site_tag_id.format(i) in r.tensor_map[tid].tags)
            if len(ss) != 2 or ss[1] - ss[0] != 1:
                raise Violation("not-a-chain", sites=ss, **info)


@st.composite
def s_compress(draw, tier):
    inp = draw(s_layers(Lmin=1, Lmax=1)) if draw(st.integers(0, 11)) == 0 else draw(s_layers())
    method = draw(st.sampled_from(M_1D + M_1D + M_AG))
    return {"inp": inp, "method": method, "reverse": draw(st.booleans()), "canonize": draw(st.integers(0, 3)) > 0,
            "cap": draw(st.sampled_from(["exact", "exact", "below", "below", "none"])), "extra": draw(st.integers(0, 2)),
            "below": draw(st.integers(0, 10**6)), "cutoff": draw(st.sampled_from(["0", "0", "0", "default", "1e-3"])),
            "permute": draw(st.booleans()), "inplace": draw(st.booleans()), "normalize": draw(st.integers(0, 4)) == 0,
            "equalize": draw(st.sampled_from([False, False, False, True, 1.0])), "seed": draw(st.integers(0, 2**31 - 1)),
            "iters": draw(st.sampled_from([None, None, 5, 6])), "give_tags": draw(st.booleans()),
            "over": draw(st.sampled_from([None, "struct", "struct", "1.5"])),
            "via": draw(st.sampled_from(["dispatcher", "dispatcher", "gate_with_mpo"])),
            "in_exp": draw(st.sampled_from([0.0, 0.0, 0.0, 0.0, 0.0, 1.0, -2.0]))}


def compress_expectations(method, reverse, iters, L):
    """index of the promised canonical centre (None: no promise)"""
    if method in M_AG:
        return None
    centre_first = True  # 'right canonical', centre at site_tags[0]
    if method == "fit" and iters is not None and iters % 2 == 1:
        centre_first = False  # documented: the centre follows the last sweep ('R' ends at site_tags[-1])
    if reverse:
        centre_first = not centre_first
    return 0 if centre_first else L - 1


def run_compress(case):
    from quimb.tensor.tn1d.compress import tensor_network_1d_compress

    inp, method = case["inp"], case["method"]
    tn, sites, chi, sd = build_layers(inp)
    L = len(sites)
    in_exp = float(case.get("in_exp", 0.0))
    if in_exp:
        tn.exponent = in_exp  # (as left behind by a previous compression with equalize_norms=<float>)
    ref = dense_any(tn, sites)
    nref = float(np.linalg.norm(ref))
    if nref == 0.0:
        raise Reject("zero input")
    need = max(chi) if chi else 1
    if case["cap"] == "exact":
        cap = need + case["extra"]
    elif case["cap"] == "below":
        if need <= 1:
            cap = 1
        else:
            cap = 1 + case["below"] % (need - 1)
    else:
        cap = None
    cutoff = {"0": 0.0, "default": None, "1e-3": 1e-3}[case["cutoff"]]
    kw = dict(method=method, max_bond=cap, sweep_reverse=case["reverse"], canonize=case["canonize"], permute_arrays=case["permute"],
              inplace=case["inplace"], equalize_norms=case["equalize"])
    if cutoff is not None:
        kw["cutoff"] = cutoff
    if method not in M_AG:
        kw["normalize"] = case["normalize"]
    normalize = bool(kw.get("normalize"))
    if method in M_RAND or method in ("fit", "fit-oversample"):
        kw["seed"] = case["seed"]
    iters = case["iters"] if method == "fit" else None
    if iters is not None:
        kw["max_iterations"] = iters
    if case["give_tags"]:
        kw["site_tags"] = [tn.site_tag_id.format(i) for i in sites]
    struct = max(struct_bonds(inp) + [1])
    over_eff = None
    if method.endswith("-first") or method.endswith("-oversample"):
        if case["over"] == "struct":
            over_eff = kw["max_bond_oversample"] = max(struct, cap or 1) + case["extra"]
        elif case["over"] == "1.5" and cap is not None:
            kw["max_bond_oversample"] = 1.5
            over_eff = round(1.5 * cap)
        elif cap is not None:
            over_eff = 2 * cap if method.startswith("zipup") else max(round(1.5 * cap), cap + 10)  # documented defaults
    info = dict(method=method, input=inp["kind"], reverse=case["reverse"], capkind=case["cap"], cutoff=case["cutoff"],
                canonize=case["canonize"], equalize=str(case["equalize"]), normalize=normalize)
    f0 = fingerprint(tn)
    via = case.get("via", "dispatcher")
    if via == "gate_with_mpo" and (inp["kind"] != "mpo-mps" or case["inplace"] or case["give_tags"]):
        via = "dispatcher"
    info["via"] = via
    info["L1"] = bool(L == 1)
    info["in_exp"] = bool(in_exp)
    info["inplace"] = bool(case["inplace"]) or via == "gate_with_mpo"  # (gate_with_mpo compresses its own copy in place)

    def call():
        if via == "dispatcher":
            return tensor_network_1d_compress(tn, **kw)
        x0, _, _ = chain(inp["x"])
        A0, _, _ = chain(inp["layers"][0])
        if in_exp:
            x0.exponent = in_exp
        return x0.gate_with_mpo(A0, **{k: v for k, v in kw.items() if k != "inplace"})

    # contract: methods that need an explicit bond dimension refuse None (ValueError; TypeError for srcmps);
    # 1-site fitting refuses a non-zero cutoff
    if L == 1 and not (cap is None and method in NEED_CAP) and not (cutoff != 0.0 and method in M_FIT):
        # a one-site chain ("for all lengths"): nothing to truncate, some methods serve it - none may crash on it
        try:
            r = call()
        except (TypeError, StopIteration, ValueError, KeyError, IndexError) as exc:
            raise Violation("L1-refused", exc=type(exc).__name__, **info) from exc
    else:
        with rejecting(ValueError, TypeError, tag="refused:"):
            r = call()
    if cap is None and method in NEED_CAP and not (method in M_FIT and cutoff != 0.0 and method == "fit"):
        pass  # (some of these accept None after all, e.g. 2-site fit with a cutoff: fine either way)
    if case["inplace"]:
        if r is not tn:
            # the receiver must at least denote the compressed network
            close(dense_any(tn, sites, **info), dense_any(r, sites, **info), EXACT64, nref, reason="inplace-receiver", **info)
    else:
        untouched(tn, f0, "input-mutated", **info)
    if type(r) is not type(tn):
        raise Violation("result-type", got=type(r).__name__, want=type(tn).__name__, **info)
    check_one_per_site(r, L, **info)
    bonds = out_bonds(r, L, **info)
    # (ii) the cap
    if cap is not None and max(bonds + [1]) > cap:
        raise Violation("bond-cap", got=max(bonds), cap=cap, **info)
    got = dense_any(r, sites, **info)
    if not np.all(np.isfinite(got)):
        raise Violation("non-finite-output", **info)
    want = ref / nref if normalize else ref
    dist = float(np.linalg.norm(got - want))
    scale = 1.0 if normalize else nref
    # "nothing needs truncating" (sound per method):
    #  * methods that truncate in a true canonical gauge (direct, dm, sdc, src*, fit*, AG with canonisation): cap >= rank
    #  * zip-up truncates in the per-layer 'pseudo-canonical' gauge (documented as less accurate): only a cap that covers
    #    the product of the layers' bonds truncates nothing; same for its oversampled first stage
    #  * canonize=False (where it is honoured): truncations happen in the given gauge: cap >= product of the layers' bonds
    honours_canonize = method in ("direct", "zipup", "zipup-first", "zipup-oversample") or method in M_AG or method in M_RAND or \
        method in ("sdc", "sdc-oversample", "fit-zipup", "fit-projector", "fit-oversample")
    #  * the forwarded arbitrary-geometry methods gauge only locally (default distance 3; 'local-early' is documented as a
    #    generalised zip-up): same rule as zip-up
    need_m = need
    if method == "zipup" or method in M_AG or (not case["canonize"] and honours_canonize):
        need_m = max(need, struct)
    exact_expected = cutoff == 0.0 and (cap is None or cap >= need_m)
    if exact_expected and method in ("zipup-first", "zipup-oversample") and over_eff is not None and over_eff < struct:
        exact_expected = False
    if L == 1 and cutoff != 1e-3:
        exact_expected = True  # a single site has no bond: nothing can need truncating
    if method in M_DET:
        tol = 1e-8
    else:
        tol = INV64
    e = 0.0
    truncated = any(b < c for b, c in zip(bonds, chi))
    # (i) nothing needs truncating => reproduces the input
    if exact_expected:
        e = dist / scale
        if not e <= tol:
            raise Violation("not-exact", err=e, tol=tol, **info)
    if normalize:
        n1 = abs(float(np.linalg.norm(got)) - 1.0)
        if not n1 <= 1e-8:
            raise Violation("not-normalized", err=n1, **info)
    # (iii) promised canonical form
    centre = compress_expectations(method, case["reverse"], iters, L)
    if centre is not None and L >= 2:
        if case["equalize"] is not False and not normalize:
            pass  # equalising norms rescales every tensor: isometries only up to a factor (not promised)
        else:
            d = canon_defects(r, L, centre)
            if not d <= 1e-7:
                raise Violation("not-canonical", defect=d, centre=centre, **info)
            e = max(e, d)
    # (iv) direct: a-priori bound from the unfoldings of the dense input and the returned bond sizes
    if method == "direct" and case["canonize"] and not normalize:
        sv = unfold_svals(site_tensor(ref, inp))
        bound = math.sqrt(sum(float(np.sum(s[b:] ** 2)) for s, b in zip(sv, bonds)))
        if not dist <= bound * (1 + 1e-9) + 1e-9 * nref:
            raise Violation("direct-error-bound", dist=dist, bound=bound, norm=nref, **info)
    # permute_arrays=True on an MPS/MPO: default stored order
    if case["permute"] and L >= 2 and len(inp["layers"]) == 0:
        for i in sites:
            t = r[r.site_tag_id.format(i)]
            phys = [ix for ix in t.inds if ix in r.outer_inds()]
            if list(t.inds[-len(phys):]) != phys or (0 < i < L - 1 and t.inds[0] not in bond_inds(r, i, i - 1)):
                raise Violation("permute-arrays-order", site=i, **info)
    cls = ["method=" + method, "input=" + inp["kind"], "cap=" + case["cap"], "cutoff=" + case["cutoff"], f"L={L}", "via=" + via,
           "reverse" if case["reverse"] else "forward", "truncated" if truncated else "untruncated"] + \
          (["exact-checked"] if exact_expected else []) + (["normalize"] if normalize else []) + \
          (["equalize=" + str(case["equalize"])] if case["equalize"] is not False else []) + ([] if case["canonize"] else ["canonize=False"])
    return {"nt": L >= 3 and (truncated or len(inp["layers"]) >= 1 or len(set(inp["x"]["phys"])) > 1), "cls": cls, "err": e}


def enum_registry(tier):
    yield {"check": "registry"}


def run_registry(case):
    """the method lists this module samples from are exactly the registered names (so a newly registered
    method cannot go untested silently)"""
    one, ag = registry_names()
    if sorted(M_1D) != one or sorted(M_AG) != ag:
        raise Violation("registry-drift", missing_1d=sorted(set(one) - set(M_1D)), missing_ag=sorted(set(ag) - set(M_AG)),
                        stale=sorted((set(M_1D) | set(M_AG)) - set(one) - set(ag)))
    return {"nt": True, "cls": ["registry"], "err": 0.0, "n": len(one) + len(ag), "nt_n": len(one) + len(ag)}


@st.composite
def s_fit_sum(draw, tier):
    inp = draw(s_layers(kinds=("mps", "mps", "mpo", "mpo-mps"), Lmin=2, Lmax=5, max_bond=2))
    n = draw(st.integers(2, 3))
    others = []
    for _ in range(n - 1):
        o = {"kind": inp["kind"], "x": draw(partner(inp["x"], kinds=KINDS_WELL, max_bond=2)),
             "layers": [draw(partner(inp["x"], op=True, kinds=KINDS_WELL, max_bond=2)) for _ in inp["layers"]]}
        others.append(o)
    return {"terms": [inp] + others, "extra": draw(st.integers(0, 2)), "reverse": draw(st.booleans()),
            "iters": draw(st.sampled_from([None, 7, 8])), "bsz": draw(st.sampled_from(["auto", 1, 2])),
            "guess": draw(st.sampled_from([None, None, "zipup", "rand"])), "seed": draw(st.integers(0, 2**31 - 1)),
            "cap": draw(st.sampled_from(["exact", "exact", "below"])), "below": draw(st.integers(0, 10**6)),
            "normalize": draw(st.integers(0, 4)) == 0,
            "exps": [draw(st.sampled_from([0.0, 0.0, 0.0, 1.0, -1.0, 2.0])) for _ in range(n)]}


def run_fit_sum(case):
    qtn = Q()
    from quimb.tensor.tn1d.compress import tensor_network_1d_compress

    terms = case["terms"]
    built = [build_layers(t) for t in terms]
    tns = [b[0] for b in built]
    exps = [float(e) for e in case.get("exps", [0.0] * len(tns))]
    for tn, ex in zip(tns, exps):
        if ex:
            tn.exponent = ex  # (part of the value: the dense reference below reads it)
    sites = built[0][1]
    L = len(sites)
    refs = [dense_any(tn, sites) for tn in tns]
    ref = sum(refs)
    nref = float(np.linalg.norm(ref))
    mag = sum(float(np.linalg.norm(r)) for r in refs)
    if nref <= 1e-6 * mag:
        raise Reject("(nearly) cancelling sum")
    sd = built[0][3]
    rb = [min(prod(sd[: k + 1]), prod(sd[k + 1:])) for k in range(L - 1)]
    need = max(min(sum(b[2][k] for b in built), rb[k]) for k in range(L - 1))
    cap = need + case["extra"] if case["cap"] == "exact" else 1 + case["below"] % max(need - 1, 1)
    kw = dict(method="fit", max_bond=cap, cutoff=0.0, sweep_reverse=case["reverse"], seed=case["seed"], bsz=case["bsz"],
              normalize=case["normalize"])
    if case["iters"] is not None:
        kw["max_iterations"] = case["iters"]
    if case["guess"] == "zipup":
        kw["tn_fit"] = "zipup"
    elif case["guess"] == "rand":
        x = terms[0]["x"]
        g = (qtn.MPO_rand if x["op"] else qtn.MPS_rand_state)(L, cap, phys_dim=x["phys"][0], seed=case["seed"] % 2**31, dtype=x["dtype"])
        if len(set(x["phys"])) > 1:
            raise Reject("random guess generators take one physical dimension")
        kw["tn_fit"] = g
    info = dict(nterms=len(tns), guess=str(case["guess"]), bsz=str(case["bsz"]), reverse=case["reverse"], capkind=case["cap"],
                normalize=case["normalize"], exp_avg_zero=bool(any(exps) and sum(exps) == 0.0), exponents=bool(any(exps)))
    fps = [fingerprint(t) for t in tns]
    with rejecting(ValueError, tag="refused:"):
        r = tensor_network_1d_compress(tns, **kw)
    for t, f in zip(tns, fps):
        untouched(t, f, "input-mutated", **info)
    check_one_per_site(r, L, **info)
    bonds = out_bonds(r, L, **info)
    if max(bonds + [1]) > cap:
        raise Violation("bond-cap", got=max(bonds), cap=cap, **info)
    got = dense_any(r, sites, **info)
    want = ref / nref if case["normalize"] else ref
    e = 0.0
    # (2-site sweeps enlarge a bond only through the local split, i.e. by at most the neighbouring physical dimension
    #  per sweep: a site of dimension 1 blocks the growth from a low-bond guess, so exactness is not claimed there)
    blocked = case["bsz"] == 2 and 1 in terms[0]["x"]["phys"]
    # (1-site sweeps never change a bond of the guess (bond expansion is only scheduled while the *nominal* dimension is
    #  below max_bond), and the 'zipup' shorthand derives the guess from the FIRST term alone, whose bonds can be smaller
    #  than the ranks of the sum: a guess that is too small cannot hold the sum whatever the fit does - a property of the
    #  documented 'hands-on' guess, not a fit failure. Exactness is then only claimed when every returned bond reaches
    #  the numerical rank of the dense sum at that cut.)
    one_site = case["bsz"] in ("auto", 1)
    too_small = False
    if one_site and case["guess"] == "zipup" and L >= 2:
        sv = unfold_svals(site_tensor(ref, terms[0]))
        ranks = [int(np.sum(x > 1e-10 * max(float(x[0]), 1e-300))) for x in sv]
        too_small = any(b < r for b, r in zip(bonds, ranks))
    if case["cap"] == "exact" and not blocked and not too_small:
        e = float(np.linalg.norm(got - want)) / (1.0 if case["normalize"] else mag)
        if not e <= INV64:
            raise Violation("not-exact", err=e, **info)
    if case["normalize"] and abs(float(np.linalg.norm(got)) - 1) > 1e-8:
        raise Violation("not-normalized", **info)
    iters = 10 if case["iters"] is None else case["iters"]
    centre_first = (iters % 2 == 0)
    if case["reverse"]:
        centre_first = not centre_first
    if L >= 2:
        d = canon_defects(r, L, 0 if centre_first else L - 1)
        if not d <= 1e-7:
            raise Violation("not-canonical", defect=d, **info)
        e = max(e, d)
    return {"nt": L >= 3, "cls": ["input=" + terms[0]["kind"], f"terms={len(tns)}", "guess=" + str(case["guess"]), "bsz=" + str(case["bsz"]),
                                  "cap=" + case["cap"], f"L={L}"] + (["guess-too-small"] if too_small else []) +
            (["exp-avg-zero" if info["exp_avg_zero"] else "exp!=0"] if any(exps) else []), "err": e}


# ---------------------------------------------------------------------------
# 10. the direct method's error bound, searched on its own
# ---------------------------------------------------------------------------

CUT_MODES = ["abs", "rel", "sum2", "rsum2", "sum1", "rsum1"]


@st.composite
def s_direct(draw, tier):
    inp = draw(s_layers(kinds=("mps", "mps", "mpo", "mpo-mps", "mpo-mpo"), Lmin=3, Lmax=7, max_bond=4))
    return {"inp": inp, "reverse": draw(st.booleans()), "how": draw(st.sampled_from(["cap", "cap", "cutoff", "both"])),
            "below": draw(st.integers(0, 10**6)), "cutoff": draw(st.sampled_from([1e-1, 3e-2, 1e-2, 1e-3, 1e-6])),
            "mode": draw(st.sampled_from(CUT_MODES)), "via": draw(st.sampled_from(["dispatcher", "dispatcher", "function", "gate_with_mpo"])),
            "scale": draw(st.sampled_from([1.0, 1.0, 1e-6, 1e5]))}


def run_direct(case):
    from quimb.tensor.tn1d.compress import tensor_network_1d_compress, tensor_network_1d_compress_direct

    inp = case["inp"]
    tn, sites, chi, sd = build_layers(inp)
    L = len(sites)
    if case["scale"] != 1.0:
        tn = tn.multiply(case["scale"], spread_over=1)
    ref = dense_any(tn, sites)
    nref = float(np.linalg.norm(ref))
    if nref == 0.0:
        raise Reject("zero input")
    need = max(chi)
    kw = {}
    how = case["how"]
    if how in ("cap", "both"):
        kw["max_bond"] = 1 + case["below"] % max(need - 1, 1)
    if how in ("cutoff", "both"):
        kw["cutoff"] = case["cutoff"] * (nref if case["mode"] in ("abs",) else nref**2 if case["mode"] == "sum2" else nref if case["mode"] == "sum1" else 1.0)
        kw["cutoff_mode"] = case["mode"]
    else:
        kw["cutoff"] = 0.0
    kw["sweep_reverse"] = case["reverse"]
    info = dict(how=how, mode=case["mode"] if how != "cap" else "-", reverse=case["reverse"], via=case["via"], input=inp["kind"])
    via = case["via"]
    if via == "gate_with_mpo" and inp["kind"] != "mpo-mps":
        via = "dispatcher"
    if via == "dispatcher":
        r = tensor_network_1d_compress(tn, method="direct", **kw)
    elif via == "function":
        r = tensor_network_1d_compress_direct(tn, **kw)
    else:
        x, _, _ = chain(inp["x"])
        Aop, _, _ = chain(inp["layers"][0])
        if case["scale"] != 1.0:
            x = x.multiply(case["scale"], spread_over=1)
        r = x.gate_with_mpo(Aop, method="direct", **kw)
    check_one_per_site(r, L, **info)
    bonds = out_bonds(r, L, **info)
    if "max_bond" in kw and max(bonds) > kw["max_bond"]:
        raise Violation("bond-cap", got=max(bonds), cap=kw["max_bond"], **info)
    got = dense_any(r, sites, **info)
    dist = float(np.linalg.norm(got - ref))
    sv = unfold_svals(site_tensor(ref, inp))
    bound = math.sqrt(sum(float(np.sum(s[b:] ** 2)) for s, b in zip(sv, bonds)))
    if not dist <= bound * (1 + 1e-9) + 1e-9 * nref:
        raise Violation("direct-error-bound", dist=dist, bound=bound, norm=nref, **info)
    d = canon_defects(r, L, L - 1 if case["reverse"] else 0)
    if not d <= 1e-7:
        raise Violation("not-canonical", defect=d, **info)
    truncated = any(b < c for b, c in zip(bonds, chi))
    # (a harness self-test: no network with these bond sizes can beat the best single-cut approximation)
    lower = max([math.sqrt(float(np.sum(s[b:] ** 2))) for s, b in zip(sv, bonds)] + [0.0])
    if dist < lower * (1 - 1e-6) - 1e-9 * nref:
        raise AssertionError(f"harness: distance {dist} below the Eckart-Young lower bound {lower}")
    return {"nt": truncated, "cls": ["input=" + inp["kind"], "how=" + how, f"L={L}", "via=" + via, "truncated" if truncated else "untruncated",
                                     "mode=" + info["mode"], "tight" if bound > 0 and dist > 0.5 * bound else "slack"],
            "err": max(0.0, dist - bound) / nref}


# ---------------------------------------------------------------------------
# 11. the chain's own compression sweeps
# ---------------------------------------------------------------------------

@st.composite
def s_flat(draw, tier):
    op = draw(st.integers(0, 2)) == 0
    x = draw(chains(op=op, Lmin=2, Lmax=5 if op else 7, maxD=32 if op else 256, cyclic=False, dtypes=A.DTYPES64, kinds=KINDS_WELL, max_bond=5))
    L = x["L"]
    return {"x": x, "route": draw(st.sampled_from(["compress", "compress", "compress", "left_compress", "right_compress", "compress_site",
                                                   "compress_site", "add_compress", "apply_compress"])),
            "form": draw(st.sampled_from([None, "left", "right", "flat", "int"])), "centre": draw(st.integers(0, L - 1)),
            "cap": draw(st.sampled_from(["exact", "exact", "below", "none"])), "below": draw(st.integers(0, 10**6)),
            "cutoff": draw(st.sampled_from(["0", "0", "default", "1e-3"])), "inflate": draw(st.integers(0, 2)) > 0,
            "y": draw(partner(x, kinds=KINDS_WELL)),
            "A": draw(partner(x, op=True, kinds=KINDS_WELL, max_bond=2))}


def inflate_bonds(desc, arrs, seed):
    """the same chain with every bond padded by a random gauge pair G (b x b'), pinv(G) (b' x b), b' = b + 1..3: the
    bond dimensions grow, the value and every bipartition rank stay (open chains)"""
    rng = np.random.default_rng(seed)
    L = desc["L"]
    lay = chain_layout(desc)
    out = [np.array(a, dtype=np.complex128 if "complex" in desc["dtype"] else np.float64) for a in arrs]
    new_bonds = list(desc["bonds"])
    for k in range(L - 1):
        b = desc["bonds"][k]
        b2 = b + int(rng.integers(1, 4))
        G = rng.normal(size=(b, b2))
        Gp = np.linalg.pinv(G)
        ax_r = lay[k][2].index("r")
        ax_l = lay[k + 1][2].index("l")
        out[k] = np.moveaxis(np.tensordot(out[k], G, axes=(ax_r, 0)), -1, ax_r)
        out[k + 1] = np.moveaxis(np.tensordot(Gp, out[k + 1], axes=(1, ax_l)), 0, ax_l)
        new_bonds[k] = b2
    return out, new_bonds


def run_flat(case):
    dx = dict(case["x"])
    op, L = dx["op"], dx["L"]
    route = case["route"]
    sd = [p * p if op else p for p in dx["phys"]]
    rank_bound = [min(prod(sd[: k + 1]), prod(sd[k + 1:])) for k in range(L - 1)]
    arrs = chain_arrays(dx)
    rx, mx = chain_dense(dx, arrs)
    cur_bonds = list(dx["bonds"])
    if case["inflate"]:
        arrs, cur_bonds = inflate_bonds(dx, arrs, dx["seed"])
    x = build_chain(dx, arrs)
    if route == "add_compress":
        y, ry, my = chain(case["y"])
        ref = rx + ry
        chi = [min(a + b, r) for a, b, r in zip(dx["bonds"], case["y"]["bonds"], rank_bound)]
    elif route == "apply_compress":
        Aop, MA, mA = chain(case["A"])
        ref = MA @ rx
        chi = [min(a * b, r) for a, b, r in zip(dx["bonds"], case["A"]["bonds"], rank_bound)]
    else:
        ref = rx
        chi = [min(a, r) for a, r in zip(dx["bonds"], rank_bound)]
    nref = float(np.linalg.norm(ref))
    if nref <= 1e-9 * mx or float(np.linalg.norm(rx)) == 0:
        raise Reject("(nearly) zero state")
    need = max(chi)
    if case["cap"] == "exact":
        cap = need
    elif case["cap"] == "below":
        cap = 1 + case["below"] % max(need - 1, 1)
    else:
        cap = None
    cutoff = {"0": 0.0, "default": None, "1e-3": 1e-3}[case["cutoff"]]
    kw = {}
    if cap is not None:
        kw["max_bond"] = cap
    if cutoff is not None:
        kw["cutoff"] = cutoff
    form = case["form"]
    fval = case["centre"] if form == "int" else form
    info = dict(route=route, op=op, form=str(form), capkind=case["cap"], cutoff=case["cutoff"])
    sites = list(range(L))
    centre = None
    if route == "compress":
        res = x.compress(fval, **kw) if fval is not None else x.compress(**kw)
        if res is not None:
            raise Violation("compress-returned", **info)
        r = x
        centre = {None: 0, "right": 0, "left": L - 1, "flat": None, "int": case["centre"]}[form]
    elif route == "left_compress":
        x.left_compress(**kw)
        r, centre = x, L - 1
    elif route == "right_compress":
        x.right_compress(**kw)
        r, centre = x, 0
    elif route == "compress_site":
        i = case["centre"]
        x.compress_site(i, **kw)
        r, centre = x, i
    elif route == "add_compress":
        r = (x.add_MPO if op else x.add_MPS)(y, compress=True, **({"form": fval} if fval is not None else {}), **kw)
        centre = {None: 0, "right": 0, "left": L - 1, "flat": None, "int": case["centre"]}[form]
    else:
        r = Aop.apply(x, compress=True, **({"form": fval} if fval is not None else {}), **kw)
        centre = {None: 0, "right": 0, "left": L - 1, "flat": None, "int": case["centre"]}[form]
    check_one_per_site(r, L, **info)
    bonds = out_bonds(r, L, **info)
    if route == "compress_site":
        i = case["centre"]
        adj = [bonds[k] for k in (i - 1, i) if 0 <= k < L - 1]
        if cap is not None and adj and max(adj) > cap:
            raise Violation("bond-cap", got=max(adj), cap=cap, **info)
    elif cap is not None and max(bonds) > cap:
        raise Violation("bond-cap", got=max(bonds), cap=cap, **info)
    got = dense_any(r, sites, **info)
    dist = float(np.linalg.norm(got - ref))
    e = 0.0
    # "nothing needs truncating": sweeps that canonicalise first are exact as soon as the cap reaches the rank; the bare
    # one-directional sweeps (and form='flat') SVD one tensor at a time (documented: optimal only next to isometries),
    # so for them only "cap >= every current bond dimension" means that nothing is truncated
    canonicalising = route in ("add_compress", "apply_compress", "compress_site") or (route == "compress" and form != "flat")
    if route in ("add_compress", "apply_compress") and form == "flat":
        canonicalising = False
    need_here = need if canonicalising else max(cur_bonds[: L - 1]) * (max(case["A"]["bonds"]) if route == "apply_compress" else 1) + \
        (max(case["y"]["bonds"]) if route == "add_compress" else 0)
    exact_expected = cutoff == 0.0 and (cap is None or cap >= need_here)
    info["inflated"] = bool(case["inflate"])
    if exact_expected:
        e = dist / nref
        if not e <= 1e-8:
            raise Violation("not-exact", err=e, **info)
    # promised form. (left/right_compress alone only promise isometries; a sweep over an un-canonicalised chain
    # truncates sub-optimally, which the property does not exclude)
    if centre is not None:
        d = canon_defects(r, L, centre)
        if not d <= 1e-7:
            raise Violation("not-canonical", defect=d, centre=centre, **info)
        e = max(e, d)
    truncated = any(b < c for b, c in zip(bonds, chi))
    return {"nt": L >= 3 and (truncated or len(set(dx["phys"])) > 1 or route in ("add_compress", "apply_compress")),
            "cls": ["mpo" if op else "mps", "route=" + route, "form=" + str(form), "cap=" + case["cap"], "cutoff=" + case["cutoff"], f"L={L}",
                    "truncated" if truncated else "untruncated"] + (["exact-checked"] if exact_expected else []) +
                   (["inflated"] if case["inflate"] else []), "err": e}


SUBCHECKS = [
    SubCheck("ctor", run_ctor, s_ctor, examples=(150, 3000), shards=(1, 4),
             rule="MatrixProductState/Operator(arrays, shape=any permutation) and from_fill_fn: einsum denotation, to_dense shape+value, "
                  "permute_arrays stored order; nt: L>=3 and (site-dependent dims or cyclic or permuted layout)"),
    SubCheck("ctor_sites_mps", run_ctor_sites, lambda tier: s_ctor_sites(tier, False), examples=(80, 1500), shards=(1, 2),
             rule="MPS constructors with sites=subset, L=total: L, sites present, value; nt: >=2 arrays on a strict subset"),
    SubCheck("ctor_sites_mpo", run_ctor_sites, lambda tier: s_ctor_sites(tier, True), examples=(80, 1500), shards=(1, 2),
             rule="MPO constructors with sites=subset, L=total: L, sites present, value; nt: >=2 arrays on a strict subset"),
    SubCheck("from_dense_mps", run_from_dense_mps, s_from_dense_mps, examples=(150, 3000), shards=(1, 4),
             rule="MatrixProductState.from_dense(psi, dims int|list) round trip, bond sizes <= rank bound; nt: L>=3 and (site-dependent dims or structured source)"),
    SubCheck("from_dense_mpo", run_from_dense_mpo, s_from_dense_mpo, examples=(200, 4000), shards=(1, 4),
             rule="MatrixProductOperator.from_dense(A, dims, sites in any order, L) round trip; fill_empty_sites(full|minimal|list, phys_dim, fill_array) "
                  "== kron embedding, nearest-neighbour bonds; nt: >=2 sites and (subset or site-dependent dims or sites added)"),
    SubCheck("named_mps", run_named_mps, s_named_mps, examples=(200, 4000), shards=(1, 4),
             rule="MPS_computational/neel/ghz/w/zero/product/rand/rand_computational/COPY vs explicit vectors; rand: dtype, dims, norm, canonical form, seed reproducible; nt: L>=3"),
    SubCheck("named_mpo", run_named_mpo, s_named_mpo, examples=(200, 4000), shards=(1, 4),
             rule="MPO_identity(sites)/zeros/identity_like/zeros_like/product_operator/rand/rand_herm vs explicit matrices; nt: L>=3"),
    SubCheck("named_ham", run_named_ham, s_named_ham, examples=(100, 2000), shards=(1, 2), needs_deps=False,
             rule="MPO_ham_ising/heis/XY/XXZ (S=1/2, 1; scalar and per-axis couplings; open/periodic) == the docstring formula built with explicit krons of spin matrices; nt: L>=3"),
    SubCheck("add_sub", run_add, s_add, examples=(200, 4000), shards=(1, 4),
             rule="a+b, a-b, +=, -=, add_MPS/add_MPO(inplace, compress), tensor_network_ag_sum(negate) == dense sum; operands untouched; nt: L>=3 and site-dependent dims/bonds or cyclic"),
    SubCheck("scalar_mul", run_scalar, s_scalar, examples=(250, 5000), shards=(1, 4),
             rule="x*a, a*x, a/x, *=, /=, multiply(spread_over), multiply_each, negate for 18 python/numpy real/complex scalars incl. zero == dense; nt: L>=3"),
    SubCheck("apply", run_apply, s_apply, examples=(250, 5000), shards=(2, 6),
             rule="MPO.apply/apply_/dot on MPS and MPO (contract, compress), tensor_network_apply_op_vec/op_op (all which_A/which_B), gate_*_with_op_lazy, sandwich, gate_with_mpo == dense products; nt: L>=3"),
    SubCheck("apply_submpo", run_apply_sub, s_apply_sub, examples=(300, 5000), shards=(1, 4),
             rule="sub-MPO on a subset of sites applied to an MPS (apply, lazy, gate_with_submpo x all 17 1D methods + lazy x transpose x sweep_reverse) == kron-embedded operator; recorded orthogonality range true; nt: L>=3 and strict subset"),
    SubCheck("apply_submpo_op", run_apply_sub_op, s_apply_sub_op, examples=(150, 3000), shards=(1, 4),
             rule="sub-MPO on a site subset acting on a full MPO (open/cyclic): apply/dot (contract or lazy), tensor_network_apply_op_op in all 4 wirings, gate_upper/lower_with_op_lazy(transpose), sandwich(dagger) == products with the kron-embedded operator; operands untouched; nt: L>=3 and strict subset"),
    SubCheck("scalars", run_scalars, s_scalars, examples=(250, 5000), shards=(1, 4),
             rule="a.H@b, overlap, norm, expec_TN_1D with 1-2 operators, trace, trace of product, normalize(bra, insert), bipartite Schmidt values == dense; nt: L>=3 and site-dependent dims or cyclic or >=2 layers"),
    SubCheck("local_queries", run_local, s_local, examples=(400, 8000), shards=(2, 6),
             rule="open MPS (4 dtypes, normalised or not, site-dependent dims) x 1-4 site tuples of 1-3 distinct sites in ANY order x partial_trace_to_dense_canonical, local_expectation_canonical, compute_local_expectation (default/canonical/envs, dict of several tuples, normalized, return_all, inplace, info), compute_local_expectation_canonical/_via_envs, partial_trace_exact, local_expectation_exact, compute_local_expectation_exact with random complex non-symmetric operators (kron order = tuple order) == ptrace / tr(G rho) of the dense state in the requested subsystem order; nt: L>=3 and a multi-site tuple not in ascending order"),
    SubCheck("partial_trace_to_mpo", run_ptrace, s_ptrace, examples=(150, 3000), shards=(1, 4),
             rule="MatrixProductState.partial_trace_to_mpo(keep list|slice, rescale_sites, upper_ind_id) == Tr_rest|psi><psi| (rows=upper); nt: complex, L>=3, strict subset"),
    SubCheck("transpose_conj", run_transpose, s_transpose, examples=(150, 3000), shards=(1, 4),
             rule="partial_transpose (subset/single/all), H, conj, index-id swap, reindex_*_sites == dense transposes/conjugates (bitwise); nt: L>=3"),
    SubCheck("compress_registry", run_registry, enum=enum_registry, exhaustive=True,
             rule="the sampled method names equal the registered 1D + arbitrary-geometry dispatcher tables"),
    SubCheck("compress_1d", run_compress, s_compress, examples=(300, 6000), shards=(3, 8),
             rule="tensor_network_1d_compress x 17 1D methods + 6 forwarded AG names x input (MPS, MPO, MPO.MPS, MPO.MPO, MPO.MPO.MPS lazy) x sweep_reverse x canonize x cap (>=rank|below|None) x cutoff x normalize x equalize_norms x inplace: (i) exact when untruncated, (ii) cap, (iii) canonical centre by iso_defect, (iv) direct error bound; nt: L>=3 and (truncated or >=2 layers or site-dependent dims)"),
    SubCheck("compress_fit_sum", run_fit_sum, s_fit_sum, examples=(120, 2500), shards=(1, 4),
             rule="method='fit' on a sequence of 2-3 networks (documented: compressed as their sum) x guess (random, 'zipup', explicit) x bsz x sweep direction: equals the dense sum when the cap covers the summed ranks, cap, canonical centre by last sweep, inputs untouched; nt: L>=3"),
    SubCheck("direct_bound", run_direct, s_direct, examples=(250, 5000), shards=(2, 6),
             rule="method='direct' (dispatcher, function, gate_with_mpo) with caps below the rank and/or cutoffs in all 6 cutoff modes, both sweep directions, input scales 1e-6..1e5: distance <= sqrt(sum of discarded squared singular values of the input's unfoldings at the returned bond sizes)*(1+1e-9), cap, canonical form; nt: truncation happened"),
    SubCheck("compress_flat", run_flat, s_flat, examples=(250, 5000), shards=(2, 6),
             rule="MPS/MPO.compress(form None|left|right|flat|int), left_compress, right_compress, compress_site, add_*(compress=True), apply(compress=True) x cap x cutoff: exact when untruncated, cap, canonical centre; nt: L>=3 and (truncated or site-dependent dims or 2 layers)"),
]
