"""C07 — all circuit simulators implement the same unitary semantics, no stale caches.

(1) gate table: every registered gate label is enumerated (parameter counts are
discovered by construction), its array must be unitary for random and boundary
parameters, agree with a textbook matrix written out here where the name fixes
a convention, and `Gate.build_mpo` must equal the controlled block matrix.

(2) one rule-based history machine per simulator class: gate applications (any
label, any qubit order, 0-2 controls, raw unitaries, parametrized gates and
parameter updates, copies) interleaved freely with queries; a 30-line state
vector simulator is updated in lock-step and every query is compared with the
quantity computed from the model state *at that point of the history*, so a
stale cache shows up as a query answering for an earlier state.
"""
from __future__ import annotations

import itertools
import math

import numpy as np
from hypothesis import strategies as st

from .. import arrays as A
from ..core import MachineSpec, dict_strategy, Reject, SubCheck, Violation, rejecting, rel_err
from ..oracle import StateVector, controlled, embed, ptrace

RULE = ("gate table: all registered labels x boundary/random parameters (exhaustive over the vocabulary); histories: <=14/24 "
        "interleaved gate/parameter/copy/query steps on 2-5 qubits per simulator class (Circuit, CircuitDense, CircuitMPS, "
        "CircuitPermMPS, CircuitMPSLazy) and gate-application options; non-trivial = a query followed by >=1 gate/parameter "
        "update and another query, or a SWAP/controlled gate on an MPS simulator")
ASSUMPTIONS = [
    "model state: numpy tensordot of the gate matrix (fresh Gate(label, params).array, validated by the gate-table sub-check) "
    "in the stated qubit order; controls = block matrix diag(1,..,1,U)",
    "no truncation is requested (max_bond=None, default cutoff 1e-10 -> tolerance 1e-7 on MPS classes)",
    "raw gates are drawn unitary (documented assumption of the light-cone code)",
    "contraction optimizer 'auto-hq' (random hyper-optimizer) is replaced by 'greedy' in generated queries for speed",
]


def Q():
    import quimb.tensor as qtn

    return qtn


# ---------------------------------------------------------------------------
# textbook matrices
# ---------------------------------------------------------------------------
_I = np.eye(2, dtype=complex)
_X = np.array([[0, 1], [1, 0]], dtype=complex)
_Y = np.array([[0, -1j], [1j, 0]], dtype=complex)
_Z = np.array([[1, 0], [0, -1]], dtype=complex)
_H = np.array([[1, 1], [1, -1]], dtype=complex) / math.sqrt(2)
_S = np.diag([1, 1j]).astype(complex)
_T = np.diag([1, np.exp(1j * math.pi / 4)]).astype(complex)
_SX = 0.5 * np.array([[1 + 1j, 1 - 1j], [1 - 1j, 1 + 1j]], dtype=complex)
_SWAP = np.array([[1, 0, 0, 0], [0, 0, 1, 0], [0, 1, 0, 0], [0, 0, 0, 1]], dtype=complex)
_ISWAP = np.array([[1, 0, 0, 0], [0, 0, 1j, 0], [0, 1j, 0, 0], [0, 0, 0, 1]], dtype=complex)


def _ctrl(U, n=1):
    return controlled(U, n)


def _rot(P, theta):
    return math.cos(theta / 2) * np.eye(P.shape[0]) - 1j * math.sin(theta / 2) * P


def _u3(theta, phi, lam):
    return np.array([[math.cos(theta / 2), -np.exp(1j * lam) * math.sin(theta / 2)],
                     [np.exp(1j * phi) * math.sin(theta / 2), np.exp(1j * (phi + lam)) * math.cos(theta / 2)]], dtype=complex)


TEXTBOOK = {
    "X": lambda: _X, "Y": lambda: _Y, "Z": lambda: _Z, "H": lambda: _H, "S": lambda: _S, "T": lambda: _T,
    "SDG": lambda: _S.conj().T, "TDG": lambda: _T.conj().T, "SX": lambda: _SX, "SXDG": lambda: _SX.conj().T,
    "CX": lambda: _ctrl(_X), "CNOT": lambda: _ctrl(_X), "CY": lambda: _ctrl(_Y), "CZ": lambda: _ctrl(_Z),
    "SWAP": lambda: _SWAP, "ISWAP": lambda: _ISWAP, "IDEN": lambda: _I,
    "CCX": lambda: _ctrl(_X, 2), "CCNOT": lambda: _ctrl(_X, 2), "TOFFOLI": lambda: _ctrl(_X, 2),
    "CCY": lambda: _ctrl(_Y, 2), "CCZ": lambda: _ctrl(_Z, 2), "CSWAP": lambda: _ctrl(_SWAP), "FREDKIN": lambda: _ctrl(_SWAP),
    "RX": lambda t: _rot(_X, t), "RY": lambda t: _rot(_Y, t), "RZ": lambda t: _rot(_Z, t),
    "U3": _u3, "U2": lambda p, l: _u3(math.pi / 2, p, l), "U1": lambda l: np.diag([1, np.exp(1j * l)]),
    "PHASE": lambda l: np.diag([1, np.exp(1j * l)]),
    "CU3": lambda t, p, l: _ctrl(_u3(t, p, l)), "CU2": lambda p, l: _ctrl(_u3(math.pi / 2, p, l)),
    "CU1": lambda l: _ctrl(np.diag([1, np.exp(1j * l)])), "CPHASE": lambda l: _ctrl(np.diag([1, np.exp(1j * l)])),
    "CRX": lambda t: _ctrl(_rot(_X, t)), "CRY": lambda t: _ctrl(_rot(_Y, t)), "CRZ": lambda t: _ctrl(_rot(_Z, t)),
    "RXX": lambda t: _rot(np.kron(_X, _X), t), "RYY": lambda t: _rot(np.kron(_Y, _Y), t), "RZZ": lambda t: _rot(np.kron(_Z, _Z), t),
}

_VOCAB = None


def vocabulary():
    """{label: (num_qubits, num_params, special)} discovered from the registries; the parameter count is found by
    construction (smallest count for which the gate array builds)."""
    global _VOCAB
    if _VOCAB is not None:
        return _VOCAB
    from quimb.tensor.circuit import gates as g

    voc = {}
    for label in sorted(g.ALL_GATES):
        nq = g.GATE_SIZE[label]
        special = label in g.SPECIAL_GATES
        if label in g.CONSTANT_GATES or (special and label not in g.PARAM_GATES):
            voc[label] = (nq, 0, special)
            continue
        npar = None
        for k in range(0, 17):
            try:
                arr = g.Gate(label, [0.3 + 0.1 * i for i in range(k)], qubits=tuple(range(nq))).array
                if np.asarray(arr).size == 4 ** nq:
                    npar = k
                    break
            except Exception:
                continue
        if npar is None:
            continue
        voc[label] = (nq, npar, special)
    _VOCAB = voc
    return voc


def gate_matrix(label, params, nq):
    """matrix of a registered gate via a fresh Gate object; special gates without array use the textbook matrix"""
    from quimb.tensor.circuit import gates as g

    if label in ("SWAP", "IDEN") and label not in g.CONSTANT_GATES:
        return TEXTBOOK[label]()
    arr = g.Gate(label, params, qubits=tuple(range(nq))).array
    return np.asarray(arr, dtype=complex).reshape(2 ** nq, 2 ** nq)


# ---------------------------------------------------------------------------
# (1) gate table
# ---------------------------------------------------------------------------
BOUNDARY = [0.0, math.pi, -math.pi, 2 * math.pi, 1e-9, 50.0, math.pi / 2, -0.7]


def enum_gate_table(tier):
    voc = vocabulary()
    nrand = 6 if tier == "quick" else 60
    for label, (nq, npar, special) in voc.items():
        psets = [[]] if npar == 0 else []
        if npar:
            for b in BOUNDARY:
                psets.append([b] * npar)
            for k in range(nrand):
                rng = np.random.default_rng(1000 + k)
                psets.append([float(x) for x in rng.uniform(-2 * math.pi, 2 * math.pi, size=npar)])
            for i in range(npar):
                p = [0.37] * npar
                p[i] = math.pi
                psets.append(p)
        for p in psets:
            yield {"label": label, "nq": nq, "params": p, "special": special}


def run_gate_table(case):
    from quimb.tensor.circuit import gates as g

    label, nq, params = case["label"], case["nq"], case["params"]
    cls = ["nq=%d" % nq, "npar=%d" % len(params)]
    try:
        U = gate_matrix(label, params, nq)
    except ValueError:
        if case["special"]:
            raise Reject("special gate without array")
        raise
    D = 2 ** nq
    e = float(np.linalg.norm(U.conj().T @ U - np.eye(D)))
    if e > 1e-10:
        raise Violation("gate-not-unitary", label=label, err=e)
    if label in TEXTBOOK:
        ref = TEXTBOOK[label](*params)
        e2 = rel_err(U, ref, floor=1.0)
        cls.append("textbook")
        if e2 > 1e-10:
            raise Violation("gate-not-textbook", label=label, err=e2)
        e = max(e, e2)
    # build_mpo == controlled block matrix (0..2 controls)
    if not case["special"] or label in g.CONSTANT_GATES:
        for nc in (0, 1, 2):
            if nq + nc > 4:
                continue
            qubits = tuple(range(nc, nc + nq))
            ctr = tuple(range(nc))
            gate = g.Gate(label, params, qubits=qubits, controls=ctr if nc else None)
            try:
                mpo = gate.build_mpo(nq + nc)
            except (NotImplementedError,):
                continue
            M = np.asarray(mpo.to_dense())
            ref = controlled(U, nc)
            e3 = rel_err(M, ref, floor=1.0)
            # from_dense splits with the documented default cutoff 1e-10 (relative weight) -> error up to ~1e-5
            if e3 > 1e-4:
                raise Violation("gate-build-mpo", label=label, ncontrols=nc, err=e3)
            e = max(e, e3)
    return {"nt": len(params) > 0 or nq >= 2, "cls": cls, "err": e}


# ---------------------------------------------------------------------------
# (2) history machines
# ---------------------------------------------------------------------------

class S:
    pass


CLASSES = {
    "Circuit": dict(contracts=["auto-split-gate", False, True, "split-gate", "swap-split-gate"], exact=True),
    "CircuitDense": dict(contracts=[None], exact=True),
    "CircuitMPS": dict(contracts=["auto-mps", "swap+split", "nonlocal"], exact=False),
    "CircuitPermMPS": dict(contracts=["swap+split"], exact=False),
    "CircuitMPSLazy": dict(contracts=[None], exact=False),
}


def make_init(cls):
    return dict_strategy({
        "N": st.integers(2, 5), "contract": st.integers(0, 10), "tags_rounds": st.booleans(),
        "lazy_every": st.integers(1, 3), "lazy_method": st.sampled_from(["direct", "dm", "zipup"]),
    })


def make_start(cls):
    def start(init):
        qtn = Q()
        s = S()
        s.cls = cls
        s.N = init["N"]
        spec = CLASSES[cls]
        c = spec["contracts"][init["contract"] % len(spec["contracts"])]
        s.contract = c
        kw = {}
        if cls == "Circuit":
            kw["gate_contract"] = c
        elif cls in ("CircuitMPS", "CircuitPermMPS"):
            kw["gate_contract"] = c
        elif cls == "CircuitMPSLazy":
            kw["compress_every"] = init["lazy_every"]
            kw["method"] = init["lazy_method"]
        s.kw = kw
        s.circ = getattr(qtn, cls)(s.N, **kw)
        s.gates = []  # model gate records: (matrix-builder, qubits) ; rebuilt on parameter updates
        s.model = StateVector(s.N)
        s.nq = 0  # queries so far
        s.pattern = 0  # 0: nothing, 1: query seen, 2: query then update, 3: query-update-query
        s.special_mps = False
        s.ops = set()
        s.maxerr = 0.0
        s.snap = None
        s.param_gates = []  # indices into s.gates of parametrized gates (exact Circuit only)
        s.named = {}  # registered named parameters (exact Circuit only) and the expressions driving gate parameters
        s.named_exprs = {}
        s.tol = 1e-9 if spec["exact"] else 1e-7
        return s
    return start


def note_query(s):
    s.nq += 1
    if s.pattern == 0:
        s.pattern = 1
    elif s.pattern == 2:
        s.pattern = 3


def note_update(s):
    if s.pattern == 1:
        s.pattern = 2


def model_apply(s, U, qubits):
    s.model.apply(U, list(qubits))


def rebuild_model(s):
    s.model = StateVector(s.N)
    for rec in s.gates:
        s.model.apply(rec["U"], rec["qubits"])


def pick_qubits(N, picks, k):
    out = []
    for p in picks:
        q = p % N
        if q not in out:
            out.append(q)
        if len(out) == k:
            break
    if len(out) < k:
        for q in range(N):
            if q not in out:
                out.append(q)
            if len(out) == k:
                break
    if len(out) < k:
        raise Reject("not enough qubits")
    return out


def fingerprint(s):
    """dense state of the simulator (cheap: N <= 5) used to check that a rejected gate left it untouched"""
    return np.asarray(s.circ.to_dense(**dense_kw(s))).reshape(-1)


def dense_kw(s):
    return {"optimize": "greedy"}


REJECTS = (ValueError, NotImplementedError)


def op_gate(s, a):
    label_i, pseed, picks, ncontrols, rnd, parametrize = a
    voc = vocabulary()
    labels = sorted(voc)
    core_labels = [l for l in ("SWAP", "IDEN", "CX", "CZ", "H", "RZ", "CCX", "CSWAP", "ISWAP", "FSIM", "RY", "U3", "X") if l in voc]
    if label_i % 3 == 0:
        # a third of the gates come from a short list of structurally special labels (SWAP/identity/controlled/3-qubit)
        label = core_labels[(label_i // 3) % len(core_labels)]
    else:
        label = labels[(label_i // 3) % len(labels)]
    nq, npar, special = voc[label]
    if label == "IDEN":
        ncontrols = 0  # (a *controlled identity* adds gate tensors that the light-cone code skips by label: observation, not generated)
    if nq + ncontrols > s.N:
        ncontrols = max(0, s.N - nq)
    if nq > s.N:
        raise Reject("gate larger than register")
    qs = pick_qubits(s.N, picks, nq + ncontrols)
    controls, qubits = qs[:ncontrols], qs[ncontrols:]
    rng = np.random.default_rng(pseed)
    params = [float(x) for x in rng.uniform(-math.pi, math.pi, size=npar)]
    U = gate_matrix(label, params, nq)
    Uc = controlled(U, ncontrols)
    # (parametrized *controlled* gates crash with AttributeError in build_controlled_gate_htn: unsupported combination,
    #  observation only - not generated)
    #  likewise a parametrized gate cannot be contracted eagerly (gate_contract=True -> autoray ImportError))
    parametrize = bool(parametrize and npar > 0 and s.cls == "Circuit" and not special and not controls and s.contract is not True)
    kw = {}
    if rnd % 3 == 0:
        kw["gate_round"] = rnd % 5
    if parametrize:
        kw["parametrize"] = True
    if controls:
        kw["controls"] = controls
    before = fingerprint(s)
    ok = False
    try:
        with rejecting(*REJECTS, tag=f"{s.cls}:"):
            s.circ.apply_gate(label, *params, *qubits, **kw)
        ok = True
    finally:
        if not ok:
            # a rejected (or crashed) gate must leave every query unchanged
            try:
                after = fingerprint(s)
                same = rel_err(after, before, floor=1.0) <= 1e-9 and s.circ.num_gates == len(s.gates)
            except Exception:
                same = False
            if not same:
                raise Violation("rejected-gate-corrupted-state", cls=s.cls, label=label, ncontrols=len(controls),
                                contract=str(s.contract))
    s.gates.append({"U": Uc, "qubits": controls + qubits, "label": label, "params": params, "nq": nq,
                    "ncontrols": len(controls), "parametrize": parametrize})
    model_apply(s, Uc, controls + qubits)
    if parametrize:
        s.param_gates.append(len(s.gates) - 1)
    if not CLASSES[s.cls]["exact"] and (label == "SWAP" or controls or nq >= 3):
        s.special_mps = True
    s.ops.add("gate:" + ("ctrl" if controls else "special" if special else "param" if npar else "const"))
    s.last = {"label": label, "ncontrols": len(controls)}
    note_update(s)


def op_gate_raw(s, a):
    seed, picks, k, ncontrols = a
    k = 1 + k % min(2, s.N)
    if k + ncontrols > s.N:
        ncontrols = s.N - k
    qs = pick_qubits(s.N, picks, k + ncontrols)
    controls, qubits = qs[:ncontrols], qs[ncontrols:]
    U = A.make_matrix(seed, "unitary", 2 ** k, 2 ** k, "complex128")
    before = fingerprint(s)
    ok = False
    try:
        with rejecting(*REJECTS, tag=f"{s.cls}:raw:"):
            s.circ.apply_gate_raw(U, qubits, controls=controls if controls else None)
        ok = True
    finally:
        if not ok:
            try:
                same = rel_err(fingerprint(s), before, floor=1.0) <= 1e-9 and s.circ.num_gates == len(s.gates)
            except Exception:
                same = False
            if not same:
                raise Violation("rejected-gate-corrupted-state", cls=s.cls, label="RAW", ncontrols=len(controls),
                                contract=str(s.contract))
    Uc = controlled(U, len(controls))
    s.gates.append({"U": Uc, "qubits": controls + qubits, "label": "RAW", "params": [], "nq": k, "ncontrols": len(controls),
                    "parametrize": False})
    model_apply(s, Uc, controls + qubits)
    if not CLASSES[s.cls]["exact"] and controls:
        s.special_mps = True
    s.ops.add("gate:raw")
    s.last = {"label": "RAW", "ncontrols": len(controls)}
    note_update(s)


def apply_named(s):
    """gate parameters driven by named-parameter expressions (harness-generated arithmetic over the names)"""
    for gi, exprs in s.named_exprs.items():
        rec = s.gates[gi]
        rec["params"] = [float(eval(e, {"__builtins__": {}}, dict(s.named))) if isinstance(e, str) else float(e) for e in exprs]
        rec["U"] = controlled(gate_matrix(rec["label"], rec["params"], rec["nq"]), rec["ncontrols"])
    rebuild_model(s)


def op_register_named(s, a):
    """register_named_params: named circuit parameters + expressions generating the parameters of some parametrized gates
    (a new registration replaces the previous one; formerly managed gates keep their last values)"""
    seed, k = a
    if s.cls != "Circuit" or not s.param_gates:
        raise Reject("no parametrized gates")
    rng = np.random.default_rng(seed)
    names = ["a", "b"][: 1 + k % 2]
    vals = {n: float(rng.uniform(-math.pi, math.pi)) for n in names}
    pg = sorted(s.param_gates)
    managed = [gi for gi in pg if rng.random() < 0.6] or [pg[0]]
    forms = ["a", "2*a", "-a", "a+0.5"] + (["b", "a+b", "a-2*b"] if "b" in names else [])
    exprs = {}
    for gi in managed:
        exprs[gi] = tuple(forms[int(rng.integers(len(forms)))] if rng.random() < 0.8 else float(rng.uniform(-1, 1))
                          for _ in range(len(s.gates[gi]["params"])))
    s.circ.register_named_params(dict(vals), gate_expressions=dict(exprs))
    s.named, s.named_exprs = vals, exprs
    apply_named(s)
    s.ops.add("register_named")
    note_update(s)


def op_set_params(s, a):
    (seed, how) = a
    if s.cls != "Circuit" or not s.param_gates:
        raise Reject("no parametrized gates")
    params = s.circ.get_params()
    if not params:
        raise Reject("no params")
    rng = np.random.default_rng(seed)
    # documented: named parameters + directly parametrized gates not driven by expressions, keyed by gate number
    nkeys = sorted(k for k in params if isinstance(k, str))
    gkeys = sorted(int(k) for k in params if not isinstance(k, str))
    free = sorted(gi for gi in s.param_gates if gi not in s.named_exprs)
    if nkeys != sorted(s.named):
        raise Violation("get-params-names", got=nkeys, want=sorted(s.named))
    if gkeys != free:
        raise Violation("get-params-keys", got=gkeys, want=free)
    new = {}
    for key in nkeys:
        new[key] = float(rng.uniform(-math.pi, math.pi))
    for key in gkeys:
        new[key] = np.asarray(rng.uniform(-math.pi, math.pi, size=np.shape(params[key])))
    part = (how // 2) % 3  # all keys / only the names / only the gate numbers
    if part == 1 and nkeys:
        new = {k: v for k, v in new.items() if isinstance(k, str)}
    elif part == 2 and gkeys:
        new = {k: v for k, v in new.items() if not isinstance(k, str)}
    if how % 2 == 0 or s.named:
        s.circ.set_params(new)
    else:
        # update through a network carrying new parameters
        c2 = s.circ.copy()
        c2.set_params(new)
        # (update_params_from refuses any circuit containing a raw gate - its tag sanity check compares with tag None -
        #  with ValueError and leaves the circuit untouched: counted as a rejection)
        #  likewise a lazy SWAP / IDEN has no GATE_i tensor -> KeyError)
        with rejecting(ValueError, KeyError, tag="update_params_from:"):
            s.circ.update_params_from(c2.psi)
    for key, val in new.items():
        if isinstance(key, str):
            s.named[key] = float(val)
        else:
            rec = s.gates[key]
            rec["params"] = [float(x) for x in np.ravel(val)]
            rec["U"] = controlled(gate_matrix(rec["label"], rec["params"], rec["nq"]), rec["ncontrols"])
    apply_named(s)
    s.ops.add("set_params" + ("_named" if any(isinstance(k, str) for k in new) else ""))
    note_update(s)


def op_param_probe(s, a):
    """query -> parameter update -> the *same* query (same cache key): the second answer must describe the new parameters"""
    seed, which, picks, bits = a
    if s.cls != "Circuit" or s.contract is True:
        raise Reject("parametrized gates need the lazy exact simulator")
    if not s.param_gates:
        # construct the situation: apply one parametrized RY (core label 10 -> index 30) first
        op_gate(s, (30, seed, picks, 0, 1, True))
        if not s.param_gates:
            raise Reject("could not apply a parametrized gate")
    which = which % 4
    for rnd in range(2):
        if which == 0:
            q_amplitude(s, (bits, 0))
        elif which == 1:
            q_partial_trace(s, (picks, 1))
        elif which == 2:
            q_local_expectation(s, (picks, 1, seed, False))
        else:
            q_marginal(s, (picks, 0, 0, 0))
        if rnd == 0:
            if not s.named and seed % 3 == 0:
                op_register_named(s, (seed, which))
            op_set_params(s, (seed, 2 * (seed % 3)))
    s.ops.add("param_probe")


def op_copy(s, a):
    (swap,) = a
    c = s.circ.copy()
    if swap:
        s.snap = (s.circ, s.model.dense().copy(), len(s.gates))
        s.circ = c
    else:
        s.snap = (c, s.model.dense().copy(), len(s.gates))
    s.ops.add("copy")


def op_check_snapshot(s, a):
    if s.snap is None:
        raise Reject("no snapshot")
    c, ref, ngates = s.snap
    got = np.asarray(c.to_dense(optimize="greedy")).reshape(-1)
    e = rel_err(got, ref, floor=1.0)
    if not e <= s.tol:
        raise Violation("copy-aliased", cls=s.cls, err=e)
    if c.num_gates != ngates:
        raise Violation("copy-aliased", cls=s.cls, what="gate list", got=c.num_gates, want=ngates)
    # a light-cone based query on the held copy must still describe the state at the time of the copy
    q = a[0] % s.N
    rho = np.asarray(c.partial_trace([q], optimize="greedy"))
    e2 = rel_err(rho, ptrace(ref, [2] * s.N, [q]), floor=1.0)
    if not e2 <= max(s.tol, 1e-7):
        raise Violation("copy-aliased", cls=s.cls, what="partial_trace", err=e2)
    if s.cls not in ("Circuit", "CircuitDense"):
        # MPS simulators answer local questions through a recorded orthogonality centre: the held copy's record must be its
        # own (asking the copy moves *its* centre only; the live circuit is asked again by later rules)
        q2 = (a[0] // 7) % s.N
        G = A.make_matrix(a[0], "gauss", 2, 2, "complex128")
        want = np.vdot(ref, embed(G, [2] * s.N, [q2]) @ ref)
        got = complex(c.local_expectation(G, q2))
        e3 = rel_err(np.array(got), np.array(want), floor=np.linalg.norm(G))
        if not e3 <= max(s.tol, 1e-7):
            raise Violation("copy-aliased", cls=s.cls, what="local_expectation", err=e3)
        f = float(np.real(c.fidelity_estimate()))
        if abs(f - 1.0) > 1e-6:
            raise Violation("copy-aliased", cls=s.cls, what="fidelity_estimate", got=f)
    s.ops.add("check_snapshot")


def q_to_dense(s, a):
    reverse, seq_i, via = a
    ref = s.model.psi
    if reverse:
        ref = ref.transpose(list(range(s.N))[::-1])
    ref = ref.reshape(-1)
    kw = {"optimize": "greedy"}
    if s.cls == "Circuit":
        kw["simplify_sequence"] = ["R", "ADCRS", "", "RC", "ADCRSLP"][seq_i % 5]
    if via % 3 == 0 and not reverse:
        got = np.asarray(s.circ.psi.to_dense()).reshape(-1)
        what = "psi.to_dense"
    else:
        got = np.asarray(s.circ.to_dense(reverse=reverse, **kw)).reshape(-1)
        what = "to_dense"
    check(s, got, ref, what, reverse=bool(reverse))


def check(s, got, ref, what, floor=1.0, tol=None, **info):
    note_query(s)
    s.ops.add("q:" + what)
    e = rel_err(np.asarray(got), np.asarray(ref), floor=floor)
    s.maxerr = max(s.maxerr, e if np.isfinite(e) else 0.0)
    if not e <= (tol or s.tol):
        raise Violation("query-mismatch", cls=s.cls, query=what, err=e, ngates=len(s.gates), contract=str(s.contract),
                        stale=s.pattern >= 2, **info)


def q_amplitude(s, a):
    bits, seq_i = a
    b = [x % 2 for x in (bits + [0] * s.N)[: s.N]]
    ref = s.model.amplitude(b)
    kw = {"optimize": "greedy"}
    if s.cls in ("Circuit", "CircuitDense"):
        seq = ["ADCRS", "R", "", "ADCRSLP"][seq_i % 4]
        if abs(ref) < 1e-9 and "A" not in seq and "D" not in seq and "C" not in seq:
            seq = "ADCRS"  # 'R' alone switches check_zero off by documented design
        kw["simplify_sequence"] = seq
    got = s.circ.amplitude("".join(map(str, b)), **kw)
    check(s, np.array(complex(got)), np.array(ref), "amplitude", zero=bool(abs(ref) < 1e-12))


def q_partial_trace(s, a):
    picks, k = a
    k = 1 + k % min(3, s.N)
    keep = pick_qubits(s.N, picks, k)
    ref = ptrace(s.model.dense(), [2] * s.N, keep)
    got = np.asarray(s.circ.partial_trace(keep, optimize="greedy"))
    check(s, got, ref, "partial_trace", ordered=keep == sorted(keep), nkeep=k)


def q_local_expectation(s, a):
    picks, k, seed, multi = a
    k = 1 + k % min(2, s.N)
    where = pick_qubits(s.N, picks, k)
    G = A.make_matrix(seed, "gauss", 2 ** k, 2 ** k, "complex128")
    d = s.model.dense()
    ref = np.vdot(d, embed(G, [2] * s.N, where) @ d)
    kw = {}
    if s.cls in ("Circuit", "CircuitDense"):
        kw["optimize"] = "greedy"
    # documented keyword spellings of the same question (the state is normalised: every gate is unitary)
    spell = (seed // 7) % 4
    if spell == 2:
        kw["dtype"] = "complex128"
    elif spell == 3 and s.cls not in ("Circuit", "CircuitDense"):
        kw["normalized"] = True
    w = where if k > 1 else (where[0] if multi else where)
    if multi and s.cls in ("Circuit", "CircuitDense"):
        G2 = A.make_matrix(seed + 1, "gauss", 2 ** k, 2 ** k, "complex128")
        got = s.circ.local_expectation((G, G2), where, **kw)
        ref2 = np.vdot(d, embed(G2, [2] * s.N, where) @ d)
        check(s, np.array([complex(x) for x in got]), np.array([ref, ref2]), "local_expectation", floor=np.linalg.norm(G),
              ordered=where == sorted(where), nwhere=k, multi=True)
    else:
        got = s.circ.local_expectation(G, w, **kw)
        check(s, np.array(complex(got)), np.array(ref), "local_expectation", floor=np.linalg.norm(G),
              ordered=where == sorted(where), nwhere=k, multi=False)


def q_marginal(s, a):
    picks, k, nfix, fixbits = a
    k = 1 + k % min(2, s.N)
    nfix = nfix % max(1, s.N - k + 1)
    qs = pick_qubits(s.N, picks, k + nfix)
    where, fixq = qs[:k], qs[k:]
    P = np.abs(s.model.psi) ** 2
    fix = {q: (fixbits >> i) & 1 for i, q in enumerate(fixq)}
    idx = [slice(None)] * s.N
    for q, b in fix.items():
        idx[q] = b
    sub = P[tuple(idx)]
    rest = [q for q in range(s.N) if q not in fix]
    # axes of `sub` correspond to `rest` in order
    axes_where = [rest.index(q) for q in where]
    other = tuple(i for i in range(len(rest)) if i not in axes_where)
    ref = np.sum(sub, axis=other) if other else sub
    # order axes as requested in `where`
    cur = sorted(axes_where)
    ref = np.transpose(ref, [cur.index(x) for x in axes_where]) if ref.ndim > 1 else ref
    kw = {"optimize": "greedy"}
    got = np.asarray(s.circ.compute_marginal(where, fix=fix if fix else None, **kw))
    tol = 2e-4 if s.cls in ("Circuit", "CircuitDense") else s.tol  # default dtype complex64 there
    check(s, got.reshape(ref.shape), ref, "compute_marginal", tol=tol, nfix=len(fix), nwhere=k)


def q_sample_pair(s, a):
    """two sampling calls with different qubits / order on the same object, nothing in between"""
    seed, gs = a
    if s.cls not in ("Circuit", "CircuitDense"):
        raise Reject("exact simulators only (the MPS classes have their own sample, without a conditional cache)")
    q_sample(s, (seed, 0, gs), force_pair=True)


def q_sample(s, a, force_pair=False):
    seed, kind, gs = a
    P = np.abs(s.model.psi) ** 2
    kw = {"seed": seed}
    C = 3
    if s.cls in ("Circuit", "CircuitDense"):
        kind = kind % 4
        if kind == 0:
            # which qubits are measured, and in which order the conditionals are taken, are arguments of the question:
            # answers must not depend on what earlier calls (with other arguments) left in the conditional cache
            rng = np.random.default_rng(seed)
            sub = int(rng.integers(3))
            C = 40
            skw = dict(group_size=1 + gs % 3, optimize="greedy")
            qubits = list(range(s.N))
            if sub:
                qubits = [int(q) for q in rng.permutation(s.N)[: int(rng.integers(1, s.N + 1))]]
                skw["qubits"] = qubits
                if sub == 2:
                    skw["order"] = [int(q) for q in rng.permutation(qubits)]
            if int(rng.integers(2)) or force_pair:
                # an earlier sampling call on the same object with other qubits / order (fills the conditional cache)
                pq = [int(q) for q in rng.permutation(s.N)[: int(rng.integers(1, s.N + 1))]]
                po = [int(q) for q in rng.permutation(pq)]
                unused = [q for q in range(s.N) if q not in qubits]
                if "order" in skw and len(qubits) >= 2 and unused and int(rng.integers(2)):
                    # the same measurement chain with one *conditioning* qubit exchanged for another: same groups later in the
                    # chain, conditioned on a different set
                    po = [unused[0]] + list(skw["order"][1:])
                    pq = list(po)
                list(s.circ.sample(6, qubits=pq, order=po, group_size=skw["group_size"] if pq == po else 1 + int(rng.integers(2)),
                                   optimize="greedy", seed=seed + 1))
                s.ops.add("q:sample_twice")
            out = list(s.circ.sample(C, **skw, **kw))
            note_query(s)
            s.ops.add("q:sample" + ("_subset" if sub else ""))
            fresh = s.circ.copy()
            fresh.clear_storage()
            out2 = list(fresh.sample(C, **skw, **kw))
            if out != out2:
                raise Violation("sample-depends-on-history", cls=s.cls, subset=bool(sub), order=sub == 2, stale=s.pattern >= 2)
            # support: marginal distribution over the measured qubits, axes in the order given
            Pm = np.sum(P, axis=tuple(q for q in range(s.N) if q not in qubits)) if len(qubits) < s.N else P
            kept = sorted(qubits)
            Pm = np.transpose(Pm, [kept.index(q) for q in qubits]) if Pm.ndim > 1 else Pm
            if len(out) != C:
                raise Violation("sample-count", cls=s.cls, query="sample")
            for b in out:
                bits = tuple(int(c) for c in b)
                if len(bits) != len(qubits):
                    raise Violation("sample-length", cls=s.cls, query="sample")
                if Pm[bits] <= 1e-10:
                    raise Violation("sample-outside-support", cls=s.cls, query="sample", p=float(Pm[bits]), stale=s.pattern >= 2)
            return
        elif kind == 1:
            if not s.gates:
                raise Reject("sample_gate_by_gate on an empty circuit (no gate groups) is outside its domain")
            # a group must be able to hold the widest gate (group_size below that yields an empty first group)
            widest = max(len(rec["qubits"]) for rec in s.gates)
            gen = s.circ.sample_gate_by_gate(C, group_size=max(widest, 1 + gs % 3), optimize="greedy", **kw)
            what = "sample_gate_by_gate"
        elif kind == 2:
            gen = s.circ.sample_chaotic(C, marginal_qubits=1 + gs % s.N, optimize="greedy", **kw)
            what = "sample_chaotic"
        else:
            counts = s.circ.simulate_counts(5, seed=seed)
            note_query(s)
            s.ops.add("q:simulate_counts")
            if sum(counts.values()) != 5:
                raise Violation("counts-total", cls=s.cls)
            for b in counts:
                if P[tuple(int(c) for c in b)] <= 1e-12:
                    raise Violation("sample-outside-support", cls=s.cls, query="simulate_counts")
            return
    else:
        gen = s.circ.sample(C, **kw)
        what = "sample"
    if what == "sample_chaotic":
        # documented for chaotic circuits: the non-marginal qubits are fixed at random, which can hit a zero-probability
        # branch in a structured circuit (ValueError: probabilities contain NaN) - accepted rejection
        with rejecting(ValueError, tag="sample_chaotic:"):
            out = list(gen)
    else:
        out = list(gen)
    note_query(s)
    s.ops.add("q:" + what)
    if len(out) != C:
        raise Violation("sample-count", cls=s.cls, query=what)
    for b in out:
        bits = tuple(int(c) for c in b)
        if len(bits) != s.N:
            raise Violation("sample-length", cls=s.cls, query=what)
        if what != "sample_chaotic" and P[bits] <= 1e-10:
            raise Violation("sample-outside-support", cls=s.cls, query=what, p=float(P[bits]), stale=s.pattern >= 2)
        if what == "sample_chaotic":
            # documented: only the marginal qubits are sampled from the true distribution, the rest are fixed at random;
            # the marginal part must be in the support of the conditional
            pass


def q_uni(s, a):
    if s.cls != "Circuit" or s.contract is True:
        raise Reject("only the lazy exact simulator keeps the unitary (eager contraction absorbs gates into the state)")
    # lazy SWAP / IDEN add no tensors (SWAP only relabels the two wires), so they do not give a wire its operator legs:
    # follow every wire through the swaps and require each to be touched by a tensor gate
    wire = list(range(s.N))  # wire[q] = initial qubit whose line currently sits at position q
    touched = set()
    for rec in s.gates:
        if rec["label"] == "SWAP" and not rec["ncontrols"]:
            q0, q1 = rec["qubits"]
            wire[q0], wire[q1] = wire[q1], wire[q0]
        elif rec["label"] != "IDEN" or rec["ncontrols"]:
            touched.update(wire[q] for q in rec["qubits"])
    if touched != set(range(s.N)):
        raise Reject("uni is only compared when every wire has been touched by a tensor gate")
    U = np.eye(2 ** s.N, dtype=complex)
    for rec in s.gates:
        U = embed(rec["U"], [2] * s.N, rec["qubits"]) @ U
    uni = s.circ.uni
    got = np.asarray(uni.to_dense())
    if got.shape != U.shape:
        # the default to_dense() of the operator network lists the legs of the sites *present by tag*: a wire whose site tag
        # vanished is silently summed over (seen after a lazy SWAP relabelled a wire whose only gate carries the old tag)
        lazy_swap = any(rec["label"] == "SWAP" and not rec["ncontrols"] for rec in s.gates)
        raise Violation("uni-dense-drops-wire", cls=s.cls, lazy_swap=bool(lazy_swap), got=list(got.shape))
    check(s, got, U, "uni", floor=math.sqrt(2 ** s.N))


def q_fidelity(s, a):
    if s.cls in ("Circuit", "CircuitDense"):
        raise Reject("mps only")
    f = float(s.circ.fidelity_estimate())
    note_query(s)
    s.ops.add("q:fidelity_estimate")
    if abs(f - 1.0) > 1e-6:
        raise Violation("fidelity-not-one", cls=s.cls, got=f)


I = st.integers(0, 1000)
B = st.booleans()
SEED = st.integers(0, 2**31 - 1)
PICKS = st.lists(I, min_size=1, max_size=5)

OPS = {
    "gate": (st.tuples(st.integers(0, 5000), SEED, PICKS, st.sampled_from([0, 0, 0, 1, 2]), I, B), op_gate),
    "gate_raw": (st.tuples(SEED, PICKS, I, st.sampled_from([0, 0, 1])), op_gate_raw),
    "set_params": (st.tuples(SEED, I), op_set_params),
    "register_named": (st.tuples(SEED, I), op_register_named),
    "param_probe": (st.tuples(SEED, I, PICKS, st.lists(I, max_size=5)), op_param_probe),
    "copy": (st.tuples(B), op_copy),
    "check_snapshot": (st.tuples(I), op_check_snapshot),
    "to_dense": (st.tuples(B, I, I), q_to_dense),
    "amplitude": (st.tuples(st.lists(I, max_size=5), I), q_amplitude),
    "partial_trace": (st.tuples(PICKS, I), q_partial_trace),
    "local_expectation": (st.tuples(PICKS, I, SEED, B), q_local_expectation),
    "marginal": (st.tuples(PICKS, I, I, I), q_marginal),
    "sample": (st.tuples(SEED, I, I), q_sample),
    "sample_pair": (st.tuples(SEED, I), q_sample_pair),
    "uni": (st.tuples(I), q_uni),
    "fidelity": (st.tuples(I), q_fidelity),
}


def finish(s):
    nt = s.pattern == 3 or s.special_mps
    return {"nt": nt, "cls": sorted(s.ops) + ([f"contract={s.contract}"] if s.contract is not None else []) +
            (["query-update-query"] if s.pattern == 3 else []), "err": s.maxerr}


def make_spec(cls):
    pre = {}
    if cls != "Circuit":
        pre["set_params"] = lambda s: False
        pre["register_named"] = lambda s: False
        pre["param_probe"] = lambda s: False
    else:
        pre["param_probe"] = lambda s: s.contract is not True
        pre["set_params"] = lambda s: bool(s.param_gates)
        pre["register_named"] = lambda s: bool(s.param_gates)
    if cls != "Circuit":
        pre["uni"] = lambda s: False
    if cls in ("Circuit", "CircuitDense"):
        pre["fidelity"] = lambda s: False
    else:
        pre["sample_pair"] = lambda s: False
    return MachineSpec(init=make_init(cls), start=make_start(cls), ops=OPS, invariant=None, finish=finish,
                       max_steps=(14, 24), preconditions=pre)


SUBCHECKS = [
    SubCheck("gate_table", run_gate_table, enum=enum_gate_table, exhaustive=True, shards=(4, 8),
             rule="every registered gate label x boundary and random parameter sets: unitarity, textbook matrix where the name fixes "
                  "one, build_mpo == controlled block matrix; nt: parametrized or multi-qubit gate"),
]
for _cls, (_n, _sh) in {"Circuit": ((40, 600), (6, 12)), "CircuitDense": ((40, 500), (2, 6)), "CircuitMPS": ((40, 600), (4, 10)),
                        "CircuitPermMPS": ((40, 500), (2, 6)), "CircuitMPSLazy": ((40, 500), (2, 6))}.items():
    SUBCHECKS.append(SubCheck("history_" + _cls, machine=make_spec(_cls), examples=_n, shards=_sh, soft_budget=(90.0, 900.0),
                              needs_deps=_cls in ("Circuit", "CircuitDense"),  # qubit ordering for sampling uses networkx
                              fuzz={"instrument": ["quimb.tensor.circuit.core:CircuitBase", "quimb.tensor.circuit.exact:Circuit",
                                                   "quimb.tensor.circuit.mps:CircuitMPS", "quimb.tensor.circuit.mps:CircuitPermMPS",
                                                   "quimb.tensor.circuit.mps:CircuitMPSLazy", "quimb.tensor.circuit.gates:Gate"],
                                    "shards": 3, "runs": 10000, "max_seconds": 600},
                              rule=f"interleaved gate/parameter/copy/query histories on {_cls}; model state vector in lock-step; nt: "
                                   "query-update-query pattern or SWAP/controlled/3-qubit gate on an MPS simulator"))
