"""C06 — applying a gate equals multiplying by the operator, in every application mode.

Oracle (numpy only): the dense form of a network is its einsum denotation over
its outer labels (``vf.oracle.einsum_value`` over ``.data``/``.inds`` – never
quimb's own contraction), and

    dense(after) == embed(op', dims, where) @ dense(before)

with ``vf.oracle.embed`` (operator order == given site order) and
``op'`` = G, G^T or G^dagger as the docstrings state.  Operator-like networks are
treated as vectors over (upper..., lower..., rest...): ``G X G^dag`` acts with
``G`` on the upper and ``conj(G)`` on the lower labels, ``G X`` with ``G`` on
the upper, ``X G^T`` with ``G`` on the lower labels (docstring of
``tensor_network_ag_gate``).  Every sub-check is one entry point / family of
modes so that one defect does not hide the rest.
"""
from __future__ import annotations

import warnings

import numpy as np
from hypothesis import strategies as st

from .. import arrays as A
from .. import gen as G
from ..core import EXACT64, INV64, Reject, SubCheck, Violation, rejecting, rel_err
from ..core import HarnessError
from ..oracle import embed, tn_tensors

RULE = ("receivers: generic labelled networks (tree/loopy, labels drawn from a pool of ordinary names a,b,c,l0,r0,...), "
        "MPS open/cyclic with mixed physical dimensions, MPO, arbitrary-graph vectors/operators, PEPS/PEPO up to 3x3, "
        "PEPS3D 2x2x2; gates on 1-3 sites in random order (adjacent or distant), matrix or tensor form, kinds gauss / "
        "unitary / rank-1 / identity / product / controlled (low operator-Schmidt rank) / swap-like, real or complex; "
        "every contract mode documented for the class, transpose/dagger, which, propagate_tags, tags; cutoff=0, no "
        "max_bond. Oracle: numpy einsum denotation before/after and embed(op', dims, where). non-trivial = >=2-site "
        "gate, or transpose/dagger, or (sub-check specific) a mode that restructures the network")
ASSUMPTIONS = [
    "numpy.einsum over .data/.inds is the trusted dense form of a network (to_dense itself is C01's business)",
    "vf.oracle.embed (np.kron + axis permutation) is the trusted embedding; operator order == given site order",
    "truncation is never requested: cutoff=0.0 and max_bond=None wherever a split happens",
    "rejections accepted from the documented domain only: split/reduce-split need exactly 2 targets on two tensors "
    "sharing exactly one bond; *-split-gate <= 2 sites; swap+split exactly 2 sites",
]

TOL = EXACT64


def qtn():
    import quimb.tensor as qtn

    return qtn


# ---------------------------------------------------------------------------
# dense forms and the oracle
# ---------------------------------------------------------------------------

def c128(a):
    return np.asarray(a).astype(np.complex128)


class SizeMismatch(Exception):
    """One label carries two different sizes inside a network (a property of the network, not of the harness)."""


def _einsum(ops, out):
    """numpy.einsum in integer-sublist form with labels renumbered *per call* (numpy allows only 52 distinct subscripts
    per call; a lazily gated network as a whole may own more)."""
    loc = {}
    args = []
    for a, labs in ops:
        args += [a, [loc.setdefault(l, len(loc)) for l in labs]]
    if len(loc) > 52:
        raise HarnessError(f"{len(loc)} labels in one einsum call")
    return np.einsum(*args, [loc[l] for l in out])


def einsum_value(tensors, output):
    """Denotation of [(array, labels)] over `output` (labels on >= 3 tensors allowed): pairwise numpy.einsum reduction in an
    order chosen by an own greedy size heuristic (same scheme as vf.oracle.einsum_value, which is not used here because it
    numbers the labels globally and therefore hits numpy's 52-subscript limit on large lazily gated networks)."""
    ops = [(np.asarray(a), tuple(labs)) for a, labs in tensors]
    output = tuple(output)
    if not ops:
        return np.array(1.0)
    size = {}
    for a, labs in ops:
        if a.ndim != len(labs):
            raise HarnessError("rank / label mismatch")
        for d, l in zip(a.shape, labs):
            if size.setdefault(l, d) != d:
                raise SizeMismatch(f"label {l!r} has sizes {size[l]} and {d}")
    missing = [l for l in output if l not in size]
    if missing:
        raise HarnessError(f"output labels {missing[:3]} not in the network")
    while len(ops) > 1:
        n = len(ops)
        sets = [set(l) for _, l in ops]
        best = None
        for i in range(n):
            for j in range(i + 1, n):
                shared = sets[i] & sets[j]
                if not shared and best is not None and best[0][0] == 0:
                    continue
                others = set(output)
                for k in range(n):
                    if k != i and k != j:
                        others |= sets[k]
                keep = [x for x in (sets[i] | sets[j]) if x in others]
                sz = 1
                for x in keep:
                    sz *= size[x]
                key = (0 if shared else 1, sz)
                if best is None or key < best[0]:
                    best = (key, i, j, keep)
        _, i, j, keep = best
        keep = tuple(sorted(keep))
        c = _einsum([ops[i], ops[j]], keep)
        ops = [o for k, o in enumerate(ops) if k not in (i, j)] + [(c, keep)]
    return _einsum(ops, output)


def dense(tn, order):
    """Denotation of a quimb network / tensor over the labels `order` (flat vector)."""
    v = einsum_value([(c128(a), i) for a, i in tn_tensors(tn)], tuple(order))
    e = getattr(tn, "exponent", 0.0)
    if e:
        v = v * 10.0 ** float(e)
    return np.asarray(v).reshape(-1)


def magnitude(tn):
    m = 1.0
    for a, _ in tn_tensors(tn):
        m *= max(float(np.linalg.norm(c128(a).ravel())), 1e-300)
    e = getattr(tn, "exponent", 0.0)
    if e:
        m *= 10.0 ** float(e)
    return m


def apply_ops(vec, dims, actions):
    """actions: list of (operator matrix, positions); applied one after the other."""
    v = np.asarray(vec, dtype=np.complex128).reshape(-1)
    for op, pos in actions:
        v = embed(op, dims, list(pos)) @ v
    return v


def opnorm(actions):
    m = 1.0
    for op, _ in actions:
        m *= max(float(np.linalg.norm(op)), 1e-300)
    return m


def effective(Gm, transpose=False, dagger=False):
    """The operator the docstrings say is applied."""
    if dagger:
        return Gm.conj().T
    if transpose:
        return Gm.T
    return Gm


def verify(before_vec, floor, after, order, dims, actions, tol=TOL, keep_tags=(), **info):
    """after must be a network over exactly the labels `order` whose dense form is
    (prod of embedded operators) @ before; every tag of keep_tags still present."""
    got_outer = set(after.outer_inds()) if hasattr(after, "outer_inds") else set(after.inds)
    if got_outer != set(order):
        raise Violation("outer-labels", lost=sorted(set(order) - got_outer)[:4], gained=len(got_outer - set(order)), **info)
    have = set(after.tags)
    missing = [t for t in keep_tags if t not in have]
    if missing:
        raise Violation("tags-lost", missing=missing[:4], **info)
    for a, inds in tn_tensors(after):
        if len(set(inds)) != len(inds):
            raise Violation("repeated-label", **info)
    try:
        got = dense(after, order)
    except SizeMismatch as e:  # one label with two sizes: the returned network itself is inconsistent
        raise Violation("inconsistent-network", msg=str(e)[:60], **info)
    ref = apply_ops(before_vec, dims, actions)
    if got.shape != ref.shape:
        raise Violation("dense-shape", got=list(got.shape), want=list(ref.shape), **info)
    e = rel_err(got, ref, floor=floor * opnorm(actions))
    if not (e <= tol):
        raise Violation("value", err=e, **info)
    return e


class OpWatch:
    """Snapshot of an operator OBJECT handed to a gating call (Tensor / TensorNetwork / MPO ...).  Unless the call's documented
    in-place flag for the operator is set, the object must be bit- and label-identical afterwards, must not share tensor objects
    with the returned network, and must stay so under later in-place edits of the returned network."""

    ID_ATTRS = ("upper_ind_id", "lower_ind_id", "site_ind_id", "site_tag_id")

    def __init__(self, op):
        self.op = op
        self.snap = self.take(op)

    @classmethod
    def take(cls, op):
        ts = list(op.tensor_map.items()) if hasattr(op, "tensor_map") else [(None, op)]
        return ([(tid, tuple(t.inds), tuple(t.tags), np.array(t.data, copy=True)) for tid, t in ts],
                {a: getattr(op, a) for a in cls.ID_ATTRS if isinstance(getattr(op, a, None), str)},
                float(getattr(op, "exponent", 0.0) or 0.0))

    def check(self, when, **info):
        old, new = self.snap, self.take(self.op)
        if old[1] != new[1]:
            raise Violation("operator-mutated", what="ind/tag ids", when=when, **info)
        if len(old[0]) != len(new[0]) or old[2] != new[2]:
            raise Violation("operator-mutated", what="tensor set", when=when, **info)
        for (tid0, i0, t0, d0), (tid1, i1, t1, d1) in zip(old[0], new[0]):
            if tid0 != tid1 or i0 != i1:
                raise Violation("operator-mutated", what="labels", when=when, **info)
            if t0 != t1:
                raise Violation("operator-mutated", what="tags", when=when, **info)
            if d0.shape != d1.shape or d0.dtype != d1.dtype or not np.array_equal(d0, np.asarray(d1)):
                raise Violation("operator-mutated", what="data", when=when, **info)

    def check_unshared(self, res, when, **info):
        mine = {id(t) for t in (self.op.tensor_map.values() if hasattr(self.op, "tensor_map") else [self.op])}
        theirs = res.tensor_map.values() if hasattr(res, "tensor_map") else [res]
        if any(id(t) in mine for t in theirs):
            raise Violation("operator-aliased", when=when, **info)

    def scribble(self, results, **info):
        """In-place edits of the returned networks (relabel every index, retag, rescale the data) must not reach the operator."""
        for n, res in enumerate(results):
            ts = list(res.tensor_map.values()) if hasattr(res, "tensor_map") else [res]
            for t in ts:
                t.modify(data=np.asarray(t.data) * 3.0, inds=tuple(f"__scr{n}_{ix}" for ix in t.inds), tags=["__SCR"])
        self.check("after in-place edits of the results", **info)


class ArrayWatch:
    """A gate given as a raw array must come back bit-identical."""

    def __init__(self, arr):
        self.arr, self.copy = arr, np.array(arr, copy=True)

    def check(self, **info):
        if self.arr.shape != self.copy.shape or not np.array_equal(self.arr, self.copy):
            raise Violation("gate-array-mutated", **info)


def shifted(desc_or_cd, shift=1):
    """Same structure, different numbers: a second receiver for re-using one operator object."""
    import copy

    d = copy.deepcopy(desc_or_cd)
    if "tensors" in d:
        for t in d["tensors"]:
            t["seed"] = (int(t["seed"]) + shift) % (2**31 - 1)
    else:
        d["seed"] = (int(d["seed"]) + shift) % (2**31 - 1)
    return d


# ---------------------------------------------------------------------------
# gates
# ---------------------------------------------------------------------------

GATE_KINDS = ("gauss", "gauss", "unitary", "rank1", "identity", "product", "controlled", "swaplike", "hermitian")


def make_gate(seed, kind, dims, dtype):
    """Square matrix on prod(dims), rows/cols ordered like `dims` (first = most significant)."""
    dims = [int(d) for d in dims]
    D = int(np.prod(dims))
    rng = np.random.default_rng(int(seed))
    cplx = "complex" in str(dtype)

    def g(*s):
        x = rng.normal(size=s)
        if cplx:
            x = x + 1j * rng.normal(size=s)
        return x

    if kind in ("gauss", "unitary", "identity", "hermitian"):
        M = A.make_matrix(seed, kind, D, D, dtype)
    elif kind == "rank1":
        M = A.make_matrix(seed, "rank_k", D, D, dtype, rank=1)
    elif kind == "product" or len(dims) == 1:
        M = np.array([[1.0]])
        for d in dims:
            M = np.kron(M, g(d, d))
    elif kind == "controlled":
        # P0 (x) A + (1-P0) (x) B on first | rest : operator-Schmidt rank 2 (CNOT-like)
        d0, dr = dims[0], D // dims[0]
        P = np.zeros((d0, d0))
        P[0, 0] = 1.0
        M = np.kron(P, g(dr, dr)) + np.kron(np.eye(d0) - P, g(dr, dr))
    elif kind == "illcond":
        # product operator plus a 1e-7 perturbation: operator-Schmidt values of relative size ~1e-7 (squared weight 1e-14)
        M = np.array([[1.0]])
        for d in dims:
            M = np.kron(M, g(d, d))
        M = M + 1e-7 * g(D, D)
    elif kind == "swaplike":
        # (A (x) B ...) followed by a cyclic shift of the sites (a SWAP for two equal sites)
        M = np.array([[1.0]])
        for d in dims:
            M = np.kron(M, g(d, d))
        if len(set(dims)) == 1:
            n = len(dims)
            T = M.reshape(dims + dims)
            T = np.transpose(T, list(range(1, n)) + [0] + list(range(n, 2 * n)))
            M = T.reshape(D, D)
    else:
        raise ValueError(kind)
    return np.array(M, dtype=np.dtype(dtype))


@st.composite
def s_gate(draw, kinds=GATE_KINDS):
    return {"gseed": draw(A.seeds), "gkind": draw(st.sampled_from(kinds)), "gform": draw(st.sampled_from(["matrix", "tensor"])),
            "gdtype": draw(st.sampled_from(A.DTYPES64))}


def build_gate(gd, dims):
    """(matrix used by the oracle, object handed to quimb)."""
    M = make_gate(gd["gseed"], gd["gkind"], dims, gd["gdtype"])
    arg = M.copy()
    if gd["gform"] == "tensor":
        arg = arg.reshape([int(d) for d in dims] * 2)
    return M, arg


# The lazy gate-splitting modes only ever split the *gate*; with cutoff=0.0 every (also an exactly zero) singular
# value is kept, so 'auto-split-gate' can never find a rank reduction.  1e-12 (relative) only discards singular
# values that are zero to rounding for the constructed low-rank kinds; for a generic gate the chance of a
# singular value below 1e-12 is negligible and its removal would change the result by <= 1e-12 << TOL.
LAZY_CUTOFFS = (0.0, 1e-12)


def gate_classes(gd, k):
    return ["gate=" + gd["gkind"], "form=" + gd["gform"], f"sites={k}"]


# ---------------------------------------------------------------------------
# generic labelled networks (labels from a pool of ordinary names)
# ---------------------------------------------------------------------------

POOL = ["a", "b", "c", "d", "l0", "l1", "r0", "r1", "x", "y", "k0", "b0", "i", "j"]
GTAGS = ["X", "Y", "Z", "G"]
NKINDS = ("gauss", "gauss", "gauss", "uniform_pos", "int", "sparse")


@st.composite
def s_generic(draw, min_outer=1, max_tensors=5, pair=None, connected=False, kinds=NKINDS, max_outer=6, npairs=0):
    """Description (gen.py format) of a network without hyper / repeated labels.

    pair=None: any geometry.  pair='bond': tensors 0 and 1 share exactly one bond and
    each carries at least one dangling label (domain of 'split' / 'reduce-split')."""
    n = draw(st.integers(2 if pair else 1, max_tensors))
    edges = [tuple(e) for e in draw(G.graph_edges(n, extra=2))] if n > 1 else []
    if pair == "bond" and (0, 1) not in edges:
        edges.append((0, 1))
    if not connected and not pair and len(edges) >= 1 and draw(st.integers(0, 5)) == 0:
        edges.pop(draw(st.integers(0, len(edges) - 1)))
    names = list(draw(st.permutations(POOL)))
    it = iter(names)
    sizes = {}
    tinds = [[] for _ in range(n)]
    for (u, v) in edges:
        l = next(it)
        sizes[l] = draw(st.sampled_from([1, 2, 2, 3]))
        tinds[u].append(l)
        tinds[v].append(l)
    nout = 0
    pairs = []
    for q in range(npairs):
        # an (upper, lower) pair of equal size; when pair='bond' pair q lives on tensor q
        u, l = next(it), next(it)
        sizes[u] = sizes[l] = draw(st.sampled_from([2, 2, 3]))
        hu = q if pair else draw(st.integers(0, n - 1))
        hl = hu if (pair or draw(st.integers(0, 2))) else draw(st.integers(0, n - 1))
        tinds[hu].append(u)
        tinds[hl].append(l)
        pairs.append([u, l])
        nout += 2
    for i in range(n):
        k = draw(st.integers(0, 2))
        if pair and i in (0, 1) and not npairs:
            k = max(k, 1)
        for _ in range(k):
            if nout >= max_outer:
                break
            l = next(it)
            sizes[l] = draw(st.sampled_from([2, 2, 2, 3, 3, 1]))
            tinds[i].append(l)
            nout += 1
    while nout < min_outer:
        i = draw(st.integers(0, n - 1))
        l = next(it)
        sizes[l] = draw(st.sampled_from([2, 2, 3]))
        tinds[i].append(l)
        nout += 1
    dt0 = draw(st.sampled_from(A.DTYPES64))
    tensors = []
    for i in range(n):
        inds = list(draw(st.permutations(tinds[i]))) if tinds[i] else []
        tags = [f"T{i}"] + draw(st.lists(st.sampled_from(GTAGS), max_size=2, unique=True))
        tensors.append({"inds": inds, "tags": tags, "seed": draw(A.seeds), "kind": draw(st.sampled_from(kinds)),
                        "dtype": dt0 if draw(st.integers(0, 3)) else draw(st.sampled_from(A.DTYPES64))})
    d = {"tensors": tensors, "sizes": sizes, "exponent": 0.0}
    if npairs:
        d["pairs"] = pairs
    return d


def generic_setup(desc):
    tn = G.build_network(desc)
    order = sorted(G.net_outer(desc))
    dims = [desc["sizes"][l] for l in order]
    return tn, order, dims


def owns(desc, names=("b", "l0", "l1", "r0", "r1")):
    return sorted(set(desc["sizes"]) & set(names))


# ---------------------------------------------------------------------------
# 1. Tensor.gate
# ---------------------------------------------------------------------------

@st.composite
def s_tensor_gate(draw, tier):
    desc = draw(s_generic(min_outer=1, max_tensors=1))
    out = G.net_outer(desc)
    return {"net": desc, "ind": draw(st.sampled_from(sorted(out))), "gate": draw(s_gate()), "transpose": draw(st.booleans()),
            "preserve_inds": draw(st.booleans()), "inplace": draw(st.booleans()), "alias": draw(st.integers(0, 5)) == 0}


def run_tensor_gate(case):
    desc = case["net"]
    tn, order, dims = generic_setup(desc)
    (t,) = list(tn)
    ix = case["ind"]
    Gm, Garg = build_gate(case["gate"], [desc["sizes"][ix]])
    before = dense(t, order)
    floor = magnitude(t)
    old_inds = tuple(t.inds)
    gwatch = ArrayWatch(Garg)
    kw = {"preserve_inds": case["preserve_inds"]}
    with warnings.catch_warnings():
        warnings.simplefilter("ignore", FutureWarning)
        if case["alias"]:
            kw["transposed"] = case["transpose"]  # documented deprecated alias
        else:
            kw["transpose"] = case["transpose"]
        res = t.gate_(Garg, ix, **kw) if case["inplace"] else t.gate(Garg, ix, **kw)
    if case["inplace"] and res is not t:
        raise Violation("inplace-identity", entry="Tensor.gate")
    info = dict(entry="Tensor.gate", transpose=case["transpose"], preserve_inds=case["preserve_inds"])
    gwatch.check(**info)
    if case["preserve_inds"] and tuple(res.inds) != old_inds:
        raise Violation("index-order", got=list(res.inds), want=list(old_inds), **info)
    e = verify(before, floor, res, order, dims, [(effective(Gm, case["transpose"]), [order.index(ix)])],
               keep_tags=desc["tensors"][0]["tags"], **info)
    return {"nt": case["transpose"] or not case["preserve_inds"], "err": e,
            "cls": gate_classes(case["gate"], 1) + [f"T={case['transpose']}", f"preserve={case['preserve_inds']}"]}


# ---------------------------------------------------------------------------
# 2-4. TensorNetwork.gate_inds on generic networks
# ---------------------------------------------------------------------------

K123 = st.sampled_from([1, 2, 2, 2, 3, 3])


@st.composite
def s_targets(draw, desc, k):
    """k distinct outer labels in random order (constructed: the caller asked s_generic for >= k of them)."""
    out = sorted(G.net_outer(desc))
    return list(draw(st.permutations(out)))[:k]


@st.composite
def s_inds_basic(draw, tier):
    k = draw(K123)
    desc = draw(s_generic(min_outer=k, kinds=NKINDS + ("zeros",)))
    return {"net": desc, "inds": draw(s_targets(desc, k)), "gate": draw(s_gate()), "contract": draw(st.booleans()),
            "transpose": draw(st.booleans()), "dagger": draw(st.booleans()), "inplace": draw(st.booleans()),
            "tags": draw(st.sampled_from([None, "GATE", ["GATE", "X"]])), "str_ind": draw(st.booleans()),
            "cutoff": draw(st.booleans())}


def call_gate_inds(tn, Garg, inds, case, **kw):
    if case.get("inplace"):
        res = tn.gate_inds_(Garg, inds, **kw)
        if res is not tn:
            raise Violation("inplace-identity", entry="gate_inds")
        return res
    return tn.gate_inds(Garg, inds, **kw)


def given_tags(tags):
    if tags is None:
        return []
    return [tags] if isinstance(tags, str) else list(tags)


def run_inds_basic(case):
    desc = case["net"]
    tn, order, dims = generic_setup(desc)
    inds = list(case["inds"])
    Gm, Garg = build_gate(case["gate"], [desc["sizes"][l] for l in inds])
    before, floor = dense(tn, order), magnitude(tn)
    alltags = sorted(tn.tags)
    ntens = tn.num_tensors
    ntouched = len({i for i, t in enumerate(desc["tensors"]) if set(t["inds"]) & set(inds)})
    kw = dict(contract=case["contract"], transpose=case["transpose"], dagger=case["dagger"], tags=case["tags"])
    if case["cutoff"]:
        kw["cutoff"] = 0.0  # documented: ignored by modes that do not split
    gwatch = ArrayWatch(Garg)
    res = call_gate_inds(tn, Garg, tuple(inds) if case["str_ind"] else list(inds), case, **kw)  # tuple / list spelling
    info = dict(entry="gate_inds", contract=case["contract"], transpose=case["transpose"], dagger=case["dagger"], k=len(inds))
    gwatch.check(**info)
    op = effective(Gm, case["transpose"], case["dagger"])
    e = verify(before, floor, res, order, dims, [(op, [order.index(l) for l in inds])],
               keep_tags=alltags + given_tags(case["tags"]), **info)
    want_n = ntens + 1 if not case["contract"] else ntens - ntouched + 1
    if res.num_tensors != want_n:
        raise Violation("tensor-count", got=res.num_tensors, want=want_n, **info)
    return {"nt": len(inds) >= 2 or case["transpose"] or case["dagger"], "err": e,
            "cls": gate_classes(case["gate"], len(inds)) + [f"contract={case['contract']}", f"T={case['transpose']}", f"dag={case['dagger']}"]
            + ["owns:" + l for l in owns(desc)]}


@st.composite
def s_inds_split(draw, tier):
    conforming = draw(st.integers(0, 7)) != 0
    desc = draw(s_generic(min_outer=3, pair="bond" if conforming else None, kinds=NKINDS))
    if conforming:
        a = draw(st.sampled_from([l for l in desc["tensors"][0]["inds"] if l in G.net_outer(desc)]))
        b = draw(st.sampled_from([l for l in desc["tensors"][1]["inds"] if l in G.net_outer(desc)]))
        inds = [a, b] if draw(st.booleans()) else [b, a]
    else:
        inds = draw(s_targets(desc, draw(st.integers(1, 3))))
    return {"net": desc, "inds": inds, "gate": draw(s_gate()), "contract": draw(st.sampled_from(["split", "reduce-split"])),
            "transpose": draw(st.booleans()), "dagger": draw(st.booleans()), "inplace": draw(st.booleans()),
            "tags": draw(st.sampled_from([None, "GATE"])), "absorb": draw(st.sampled_from(["default", "both", "left", "right"])),
            "method": draw(st.sampled_from(["default", "svd", "qr"]))}


def split_domain(desc, inds):
    """'ok' when the targets are on two tensors sharing exactly one bond, 'one' when
    on a single tensor / single target (documented: contracted like True), else why not."""
    holders = []
    for l in inds:
        holders.append([i for i, t in enumerate(desc["tensors"]) if l in t["inds"]][0])
    if len(set(holders)) == 1:
        return "one"
    if len(inds) != 2:
        return "sites!=2"
    ta, tb = (set(desc["tensors"][h]["inds"]) for h in holders)
    shared = ta & tb
    return "ok" if len(shared) == 1 else f"bonds={len(shared)}"


def run_inds_split(case):
    desc = case["net"]
    tn, order, dims = generic_setup(desc)
    inds = list(case["inds"])
    Gm, Garg = build_gate(case["gate"], [desc["sizes"][l] for l in inds])
    before, floor = dense(tn, order), magnitude(tn)
    alltags = sorted(tn.tags)
    ntens = tn.num_tensors
    dom = split_domain(desc, inds)
    kw = dict(contract=case["contract"], transpose=case["transpose"], dagger=case["dagger"], tags=case["tags"], cutoff=0.0)
    if case["absorb"] != "default":
        kw["absorb"] = case["absorb"]
    if case["method"] != "default":
        kw["method"] = case["method"]
        if case["method"] == "qr":
            kw.pop("cutoff")
            kw["absorb"] = "right"
    info = dict(entry="gate_inds", contract=case["contract"], transpose=case["transpose"], dagger=case["dagger"], domain=dom)
    if dom in ("ok", "one"):
        res = call_gate_inds(tn, Garg, inds, case, **kw)
    else:
        with rejecting(ValueError, tag="split-domain:"):
            res = call_gate_inds(tn, Garg, inds, case, **kw)
    op = effective(Gm, case["transpose"], case["dagger"])
    e = verify(before, floor, res, order, dims, [(op, [order.index(l) for l in inds])],
               keep_tags=alltags + given_tags(case["tags"]), **info)
    if dom == "ok":
        if res.num_tensors != ntens:
            raise Violation("tensor-count", got=res.num_tensors, want=ntens, **info)
        # "tensor network structure is maintained": every tensor keeps its labels
        want = sorted(tuple(sorted(t["inds"])) for t in desc["tensors"])
        got = sorted(tuple(sorted(t.inds)) for t in res)
        if want != got:
            raise Violation("structure-changed", **info)
    return {"nt": dom == "ok", "err": e,
            "cls": gate_classes(case["gate"], len(inds)) + ["contract=" + case["contract"], "domain=" + dom, "absorb=" + case["absorb"],
                                                          "method=" + case["method"], f"T={case['transpose']}", f"dag={case['dagger']}"]}


@st.composite
def s_inds_splitgate(draw, tier):
    k = draw(st.sampled_from([1, 2, 2, 2, 2, 2, 3]))
    desc = draw(s_generic(min_outer=k))
    return {"net": desc, "inds": draw(s_targets(desc, k)), "gate": draw(s_gate()),
            "contract": draw(st.sampled_from(["split-gate", "swap-split-gate", "auto-split-gate"])),
            "transpose": draw(st.booleans()), "dagger": draw(st.booleans()), "inplace": draw(st.booleans()),
            "tags": draw(st.sampled_from([None, "GATE"])), "cutoff": draw(st.sampled_from(LAZY_CUTOFFS))}


def run_inds_splitgate(case):
    desc = case["net"]
    tn, order, dims = generic_setup(desc)
    inds = list(case["inds"])
    k = len(inds)
    Gm, Garg = build_gate(case["gate"], [desc["sizes"][l] for l in inds])
    before, floor = dense(tn, order), magnitude(tn)
    alltags = sorted(tn.tags)
    ntens = tn.num_tensors
    mode = case["contract"]
    kw = dict(contract=mode, transpose=case["transpose"], dagger=case["dagger"], tags=case["tags"], cutoff=case.get("cutoff", 0.0))
    outer_b = "b" in order
    info = dict(entry="gate_inds", contract=mode, k=k, owns_outer_b=bool(outer_b and k == 2))
    if k > 2 and mode != "auto-split-gate":
        with rejecting(ValueError, tag="splitgate>2:"):
            call_gate_inds(tn, Garg, inds, case, **kw)
        raise Violation("accepted-outside-domain", **info)
    res = call_gate_inds(tn, Garg, inds, case, **kw)
    op = effective(Gm, case["transpose"], case["dagger"])
    e = verify(before, floor, res, order, dims, [(op, [order.index(l) for l in inds])],
               keep_tags=alltags + given_tags(case["tags"]), **info)
    added = res.num_tensors - ntens
    if k == 2 and mode != "auto-split-gate" and added != 2:
        raise Violation("tensor-count", got=added, want=2, **info)
    if k != 2 and added != 1:
        raise Violation("tensor-count", got=added, want=1, **info)
    return {"nt": k == 2, "err": e,
            "cls": gate_classes(case["gate"], k) + ["contract=" + mode, f"added={added}", f"T={case['transpose']}", f"dag={case['dagger']}"]
            + ["owns:" + l for l in owns(desc)] + (["outer-b"] if outer_b else [])}


# ---------------------------------------------------------------------------
# 5. a single label given as a bare string ("inds : str or sequence of str")
# ---------------------------------------------------------------------------

@st.composite
def s_inds_str(draw, tier):
    desc = draw(s_generic(min_outer=2, npairs=draw(st.integers(0, 1))))
    entry = "gate_sandwich_inds" if desc.get("pairs") else draw(st.sampled_from(["gate_inds", "gate_inds_with_tn"]))
    out = sorted(G.net_outer(desc))
    multi = [l for l in out if len(l) > 1]
    return {"net": desc, "entry": entry, "ind": draw(st.sampled_from(multi if multi and draw(st.integers(0, 3)) else out)),
            "gate": draw(s_gate()), "contract": draw(st.booleans())}


def run_inds_str(case):
    Q = qtn()
    desc = case["net"]
    tn, order, dims = generic_setup(desc)
    entry = case["entry"]
    before, floor = dense(tn, order), magnitude(tn)
    if entry == "gate_sandwich_inds":
        u, l = desc["pairs"][0]
        Gm, Garg = build_gate(case["gate"], [desc["sizes"][u]])
        actions = [(Gm, [order.index(u)]), (Gm.conj(), [order.index(l)])]
        long = len(u) > 1 or len(l) > 1
    else:
        ix = case["ind"]
        Gm, Garg = build_gate(case["gate"], [desc["sizes"][ix]])
        actions = [(Gm, [order.index(ix)])]
        long = len(ix) > 1
    info = dict(entry=entry, multichar=long)
    try:
        if entry == "gate_sandwich_inds":
            res = tn.gate_sandwich_inds(Garg, u, l, contract=case["contract"])
        elif entry == "gate_inds":
            res = tn.gate_inds(Garg, ix, contract=case["contract"])
        else:
            tg = Q.Tensor(Gm.copy(), inds=("gout", "gin"), tags="GATE")
            res = tn.gate_inds_with_tn(ix, tg, "gin", "gout")
    except (KeyError, ValueError, TypeError, IndexError) as e:
        # the docstrings list `str` as accepted: not a legitimate rejection
        raise Violation("bare-string-label", exc=type(e).__name__, **info)
    e = verify(before, floor, res, order, dims, actions, keep_tags=sorted(tn.tags), **info)
    return {"nt": long, "err": e, "cls": ["entry=" + entry, f"multichar={long}", f"contract={case['contract']}"]}


# ---------------------------------------------------------------------------
# 6. gate given as a tensor network: gate_inds_with_tn
# ---------------------------------------------------------------------------

@st.composite
def s_inds_with_tn(draw, tier):
    k = draw(K123)
    desc = draw(s_generic(min_outer=k))
    inds = draw(s_targets(desc, k))
    missing = []
    if draw(st.integers(0, 4)) == 0:
        # documented: targets that the network does not own are simply kept on the gate
        missing = sorted(draw(st.lists(st.integers(0, len(inds) - 1), min_size=1, max_size=len(inds), unique=True)))
    return {"net": desc, "inds": inds, "missing": missing, "form": draw(st.sampled_from(["tensor", "two-layer", "chain", "tensor-obj"])),
            "gseed": draw(A.seeds), "gdtype": draw(st.sampled_from(A.DTYPES64)), "bond": draw(st.integers(1, 3)),
            "same_outer": draw(st.booleans()), "inplace": draw(st.booleans()),
            "mdims": [draw(st.sampled_from([2, 3])) for _ in inds]}


def build_gate_network(case, tdims):
    """Gate as [(array, labels)] with outer labels go{i}, inner gi{i} (+ private bonds)."""
    k = len(tdims)
    rng = np.random.default_rng(case["gseed"])
    cplx = "complex" in case["gdtype"]

    def g(*s):
        x = rng.normal(size=s)
        return x + 1j * rng.normal(size=s) if cplx else x

    go = [f"go{i}" for i in range(k)]
    gi = [f"gi{i}" for i in range(k)]
    form = case["form"]
    if form in ("tensor", "tensor-obj") or (k == 1 and form == "chain"):
        return [(g(*tdims, *tdims), tuple(go + gi))], go, gi
    if form == "two-layer":
        gm = [f"gm{i}" for i in range(k)]
        return [(g(*tdims, *tdims), tuple(go + gm)), (g(*tdims, *tdims), tuple(gm + gi))], go, gi
    ts = []
    for i in range(k):
        labs, shp = [], []
        if i > 0:
            labs.append(f"gb{i - 1}")
            shp.append(case["bond"])
        if i < k - 1:
            labs.append(f"gb{i}")
            shp.append(case["bond"])
        ts.append((g(*shp, tdims[i], tdims[i]), tuple(labs + [go[i], gi[i]])))
    return ts, go, gi


def run_inds_with_tn(case):
    Q = qtn()
    desc = case["net"]
    tn, order, dims = generic_setup(desc)
    inds = list(case["inds"])
    k = len(inds)
    miss = [i for i in case["missing"] if i < k]
    tdims = [desc["sizes"][l] for l in inds]
    tgt = list(inds)
    for j, i in enumerate(miss):
        tgt[i] = f"zz{j}"  # a label the network does not own
        tdims[i] = case["mdims"][i]
    gts, go, gi = build_gate_network(case, tdims)
    if case["same_outer"] and not miss:
        ren = dict(zip(go, tgt))  # the natural use: the gate's outer labels already carry the target names
        gts = [(a, tuple(ren.get(l, l) for l in labs)) for a, labs in gts]
        go = tgt
    gate = Q.TensorNetwork([Q.Tensor(a.copy(), inds=labs, tags=["GATE", f"G{j}"]) for j, (a, labs) in enumerate(gts)])
    if case["form"] == "tensor-obj":
        (gate,) = list(gate)
    before, floor = dense(tn, order), magnitude(tn)
    alltags = sorted(tn.tags)
    info = dict(entry="gate_inds_with_tn", form=case["form"], k=k, missing=len(miss))
    watch = OpWatch(gate)

    def apply(x):
        if case["inplace"]:
            r = x.gate_inds_with_tn_(tgt, gate, gi, go)
            if r is not x:
                raise Violation("inplace-identity", **info)
            return r
        return x.gate_inds_with_tn(tgt, gate, gi, go)

    res = apply(tn)
    watch.check("after the call", **info)
    watch.check_unshared(res, "after the call", **info)
    gfloor = float(np.prod([max(np.linalg.norm(a), 1e-300) for a, _ in gts]))
    if not miss:
        Gm = einsum_value([(c128(a), l) for a, l in gts], tuple(go) + tuple(gi)).reshape(int(np.prod(tdims)), -1)
        act = [(Gm, [order.index(l) for l in inds])]
        sc = gfloor / max(np.linalg.norm(Gm), 1e-300)
        e = verify(before, floor * sc, res, order, dims, act, keep_tags=alltags + ["GATE"], **info)
        # the same gate object again: on a second receiver, and a second time on the first result
        tn_b = G.build_network(shifted(desc))
        before_b, floor_b = dense(tn_b, order), magnitude(tn_b)
        res_b = apply(tn_b)
        e = max(e, verify(before_b, floor_b * sc, res_b, order, dims, act, keep_tags=alltags + ["GATE"], reuse="second receiver", **info))
        e = max(e, verify(before, floor * sc, res, order, dims, act, keep_tags=alltags + ["GATE"], reuse="first result afterwards", **info))
        mid, mfloor = dense(res, order), magnitude(res)
        res2 = apply(res)
        e = max(e, verify(mid, mfloor * sc, res2, order, dims, act, keep_tags=alltags + ["GATE"], reuse="twice", **info))
        watch.check("after re-use", **info)
        watch.scribble({id(r): r for r in (res, res_b, res2)}.values(), **info)
    else:
        # independent rewiring: present targets are joined to the gate's inner label, the gate's outer label takes the
        # target's name; for absent targets the gate keeps both its labels
        ren_t, ren_g = {}, {}
        for j, (t, o, i) in enumerate(zip(tgt, go, gi)):
            if j not in miss:
                ren_t[t] = ren_g[i] = f"__join{j}"
                ren_g[o] = t
        arrs = [(c128(a), tuple(ren_t.get(l, l) for l in labs)) for a, labs in G.build_arrays(desc)]
        arrs += [(c128(a), tuple(ren_g.get(l, l) for l in labs)) for a, labs in gts]
        want_outer = sorted(set(order) | {go[j] for j in miss} | {gi[j] for j in miss})
        if set(res.outer_inds()) != set(want_outer):
            raise Violation("outer-labels", lost=sorted(set(want_outer) - set(res.outer_inds()))[:4],
                            gained=len(set(res.outer_inds()) - set(want_outer)), **info)
        ref = np.asarray(einsum_value(arrs, tuple(want_outer))).reshape(-1)
        got = dense(res, want_outer)
        e = rel_err(got, ref, floor=floor * gfloor)
        if not e <= TOL:
            raise Violation("value", err=e, **info)
    return {"nt": k >= 2 or len(gts) >= 2, "err": e,
            "cls": ["form=" + case["form"], f"sites={k}", f"missing={len(miss)}", f"same_outer={bool(case['same_outer'] and not miss)}"]
            + ["owns:" + l for l in owns(desc)]}


# ---------------------------------------------------------------------------
# 7. gate_sandwich_inds on generic operator-like networks
# ---------------------------------------------------------------------------

ALL_INDS_MODES = [False, True, "split", "reduce-split", "split-gate", "swap-split-gate", "auto-split-gate"]


def mode_name(c):
    return str(c)


@st.composite
def s_sandwich_inds(draw, tier):
    mode = draw(st.sampled_from(ALL_INDS_MODES))
    if mode in ("split", "reduce-split"):
        conform = draw(st.integers(0, 7)) != 0
        k = 2 if conform else draw(st.integers(1, 3))
        desc = draw(s_generic(min_outer=0, pair="bond" if conform else None, npairs=k, max_outer=4))
    else:
        k = draw(st.integers(1, 3 if mode in (False, True, "auto-split-gate") else 2))
        desc = draw(s_generic(min_outer=0, npairs=k, max_outer=4))
    return {"net": desc, "perm": draw(st.permutations(list(range(k)))), "gate": draw(s_gate()), "contract": mode,
            "transpose": draw(st.booleans()), "dagger": draw(st.booleans()), "inplace": draw(st.booleans()),
            "tags": draw(st.sampled_from([None, "GATE"])), "tags_upper": draw(st.sampled_from([None, "UP"])),
            "tags_lower": draw(st.sampled_from([None, "LOW"])), "cutoff": draw(st.sampled_from(LAZY_CUTOFFS))}


def sandwich_domain(desc, ups, lows):
    hold = lambda l: [i for i, t in enumerate(desc["tensors"]) if l in t["inds"]][0]
    if len(ups) != 2:
        return "sites!=2"
    hs = [(hold(u), hold(l)) for u, l in zip(ups, lows)]
    if any(a != b for a, b in hs) or hs[0][0] == hs[1][0]:
        return "not-two-tensors"
    shared = set(desc["tensors"][hs[0][0]]["inds"]) & set(desc["tensors"][hs[1][0]]["inds"])
    return "ok" if len(shared) == 1 else f"bonds={len(shared)}"


def run_sandwich_inds(case):
    desc = case["net"]
    tn, order, dims = generic_setup(desc)
    pairs = [desc["pairs"][i] for i in case["perm"]]
    ups, lows = [p[0] for p in pairs], [p[1] for p in pairs]
    k = len(pairs)
    mode = case["contract"]
    Gm, Garg = build_gate(case["gate"], [desc["sizes"][u] for u in ups])
    before, floor = dense(tn, order), magnitude(tn)
    alltags = sorted(tn.tags)
    ntens = tn.num_tensors
    kw = dict(contract=mode, transpose=case["transpose"], dagger=case["dagger"], tags=case["tags"],
              tags_upper=case["tags_upper"], tags_lower=case["tags_lower"])
    splitting = mode in ("split", "reduce-split")
    if splitting:
        kw["cutoff"] = 0.0
    elif mode not in (False, True):
        kw["cutoff"] = case["cutoff"]
    dom = sandwich_domain(desc, ups, lows) if (splitting and k >= 2) else "n/a"
    outer_b = "b" in order and k == 2 and mode in ("split-gate", "swap-split-gate", "auto-split-gate")
    info = dict(entry="gate_sandwich_inds", contract=mode_name(mode), k=k, transpose=case["transpose"], dagger=case["dagger"],
                owns_outer_b=bool(outer_b), domain=dom)

    def call():
        if case["inplace"]:
            r = tn.gate_sandwich_inds_(Garg, ups, lows, **kw)
            if r is not tn:
                raise Violation("inplace-identity", **info)
            return r
        return tn.gate_sandwich_inds(Garg, ups, lows, **kw)

    if (mode in ("split-gate", "swap-split-gate") and k > 2) or (splitting and dom not in ("ok", "n/a")):
        with rejecting(ValueError, tag="sandwich-domain:"):
            res = call()
        if mode in ("split-gate", "swap-split-gate"):
            raise Violation("accepted-outside-domain", **info)
    else:
        res = call()
    Aop = effective(Gm, case["transpose"], case["dagger"])
    actions = [(Aop, [order.index(u) for u in ups]), (Aop.conj(), [order.index(l) for l in lows])]
    keep = alltags + given_tags(case["tags"])
    if not (splitting and k == 2 and dom == "ok") and not (mode is True and k == 1) and not (k == 1 and splitting):
        pass
    if mode is False:
        keep = keep + given_tags(case["tags_upper"]) + given_tags(case["tags_lower"])
    e = verify(before, floor, res, order, dims, actions, keep_tags=keep, **info)
    if splitting and k == 2 and dom == "ok" and res.num_tensors != ntens:
        raise Violation("tensor-count", got=res.num_tensors, want=ntens, **info)
    return {"nt": True, "err": e,
            "cls": gate_classes(case["gate"], k) + ["contract=" + mode_name(mode), "domain=" + dom, f"T={case['transpose']}", f"dag={case['dagger']}"]
            + (["outer-b"] if "b" in order else [])}


# ---------------------------------------------------------------------------
# 1D receivers built from seeded arrays (mixed physical dimensions, open / periodic)
# ---------------------------------------------------------------------------

@st.composite
def s_chain(draw, Lmin=2, Lmax=6, cyclic=None, op=False):
    L = draw(st.integers(Lmin, Lmax))
    dims = [draw(st.sampled_from([2, 2, 3])) for _ in range(L)]
    if op:
        while int(np.prod(dims)) ** 2 > 1300:  # operator dense form <= ~2^10
            dims.pop()
        L = len(dims)
    cyc = (L >= 3 and draw(st.integers(0, 2)) == 0) if cyclic is None else (cyclic and L >= 3)
    bonds = [draw(st.sampled_from([1, 2, 2, 3])) for _ in range(L if cyc else L - 1)]
    d = {"L": L, "dims": dims, "cyclic": cyc, "bonds": bonds, "seed": draw(A.seeds), "dtype": draw(st.sampled_from(A.DTYPES64)),
         "site_tag_id": draw(st.sampled_from(["I{}", "I{}", "I{}", "I{}", "S{}"])), "gtag": draw(st.sampled_from([None, "PSI"]))}
    if op:
        d["upper_ind_id"], d["lower_ind_id"] = draw(st.sampled_from([["k{}", "b{}"], ["k{}", "b{}"], ["u{}", "d{}"]]))
    else:
        d["site_ind_id"] = draw(st.sampled_from(["k{}", "k{}", "q{}", "b{}"]))
    return d


def chain_arrays(cd, op=False, seed_shift=0, sites=None, bonds=None):
    """Seeded arrays in 'lrp' / 'lrud' layout for the (sub-)chain `sites` of cd."""
    L = cd["L"]
    sites = list(range(L)) if sites is None else list(sites)
    n = len(sites)
    cyc = cd["cyclic"] and n == L
    bonds = cd["bonds"] if bonds is None else bonds
    rng = np.random.default_rng(int(cd["seed"]) + seed_shift)
    cplx = "complex" in cd["dtype"]
    arrs = []
    for j, site in enumerate(sites):
        shp = []
        if cyc or j > 0:
            shp.append(bonds[(j - 1) % len(bonds)])
        if cyc or j < n - 1:
            shp.append(bonds[j % len(bonds)])
        shp += [cd["dims"][site]] * (2 if op else 1)
        x = rng.normal(size=shp)
        if cplx:
            x = x + 1j * rng.normal(size=shp)
        arrs.append(x / max(1.0, np.sqrt(x.size) / 2))
    return arrs


def build_mps(cd):
    Q = qtn()
    return Q.MatrixProductState(chain_arrays(cd), shape="lrp", site_ind_id=cd["site_ind_id"], site_tag_id=cd["site_tag_id"],
                                tags=cd["gtag"])


def build_mpo(cd, seed_shift=0, sites=None, bonds=None, upper=None, lower=None, tags=None):
    Q = qtn()
    kw = {}
    if sites is not None:
        kw = dict(sites=list(sites), L=cd["L"])
    return Q.MatrixProductOperator(chain_arrays(cd, op=True, seed_shift=seed_shift, sites=sites, bonds=bonds), shape="lrud",
                                   upper_ind_id=upper or cd.get("upper_ind_id", "k{}"), lower_ind_id=lower or cd.get("lower_ind_id", "b{}"),
                                   site_tag_id=cd["site_tag_id"], tags=cd["gtag"] if tags is None else tags, **kw)


def site_tags_of(cd):
    return [cd["site_tag_id"].format(i) for i in range(cd["L"])]


def adjacent(cd, i, j):
    L = cd["L"]
    if L == 2 and cd["cyclic"]:
        return False
    return abs(i - j) == 1 or (cd["cyclic"] and {i, j} == {0, L - 1})


@st.composite
def s_where(draw, cd, k, adj=False):
    L = cd["L"]
    k = min(k, L)
    if adj and k == 2:
        i = draw(st.integers(0, L - 1 if cd["cyclic"] else L - 2))
        w = [i, (i + 1) % L]
        return w if draw(st.booleans()) else w[::-1]
    return list(draw(st.permutations(list(range(L)))))[:k]


def where_classes(cd, where):
    c = []
    if len(where) >= 2:
        c.append("sorted" if list(where) == sorted(where) else "unsorted")
        c.append("adjacent" if all(adjacent(cd, a, b) for a, b in zip(where, where[1:])) else "distant")
    if len(set(cd["dims"][w] for w in where)) > 1:
        c.append("mixed-dims")
    if cd["cyclic"]:
        c.append("cyclic")
    return c


def permuted(vec, dims, perm):
    """State whose site p carries what site perm[p] carried."""
    n = len(dims)
    v = np.asarray(vec).reshape(dims)
    return np.transpose(v, perm).reshape(-1), [dims[p] for p in perm]


def check_class(before_cls, after, **info):
    if type(after) is not before_cls:
        raise Violation("class-changed", got=type(after).__name__, want=before_cls.__name__, **info)


# MPS-form modes (swap+split / nonlocal) always split: besides cutoff=0.0 they are run with a cutoff that is positive (so that
# the truncating code path is taken) but only discards a relative weight below 1e-24, i.e. changes the state by <= 1e-12
MPSFORM_CUTOFFS = (0.0, 1e-24)


def schmidt_tail(Gm, wd, where, weight=1e-9):
    """Input class of finding C06-f: along the sorted-site chain some cut of the gate has non-zero operator-Schmidt values
    whose relative squared weight is below `weight` (10x the hidden default cutoff 1e-10 of the gate -> MPO factorisation)."""
    k = len(where)
    if k < 2:
        return False
    T = np.asarray(Gm).reshape(list(wd) * 2)
    srt = sorted(range(k), key=lambda j: where[j])
    for c in range(1, k):
        left, right = srt[:c], srt[c:]
        perm = left + [k + j for j in left] + right + [k + j for j in right]
        m = np.transpose(T, perm).reshape(int(np.prod([wd[j] for j in left])) ** 2, -1)
        sv = np.linalg.svd(m, compute_uv=False)
        if sv[0] == 0:
            continue
        tail = np.cumsum((sv ** 2)[::-1])[::-1] / np.sum(sv ** 2)
        if np.any((sv > 1e-13 * sv[0]) & (tail < weight)):
            return True
    return False


def flag_leak(e, flags, **info):
    """TypeError('... unexpected keyword argument 'dagger'') from a compression routine: the flag was not consumed."""
    msg = str(e)
    for f in flags:
        if "unexpected keyword argument" in msg and f"'{f}'" in msg:
            return Violation("flag-leak", flag=f, **info)
    return None


MPS_MODES = [False, True, "split", "reduce-split", "split-gate", "swap-split-gate", "auto-split-gate", "swap+split", "nonlocal", "auto-mps"]
LAZY = (False, "split-gate", "swap-split-gate", "auto-split-gate")


# ---------------------------------------------------------------------------
# 8. MatrixProductState.gate  (gate_TN_1D): every documented contract mode
# ---------------------------------------------------------------------------

@st.composite
def s_mps_gate(draw, tier):
    cd = draw(s_chain())
    mode = draw(st.sampled_from(MPS_MODES))
    conform = draw(st.integers(0, 9)) != 0
    if mode in ("split", "reduce-split"):
        k, adj = (2, True) if conform else (draw(st.integers(1, 3)), False)
    elif mode in ("split-gate", "swap-split-gate", "swap+split"):
        k, adj = (draw(st.sampled_from([1, 2, 2, 2])) if conform else 3), False
    else:
        k, adj = draw(K123), False
    where = draw(s_where(cd, k, adj))
    pre = None
    if mode in LAZY + (True,) and draw(st.integers(0, 3)) == 0:
        # receiver that already carries a lazily attached gate (built with numpy, see run)
        pre = {"where": draw(s_where(cd, draw(st.sampled_from([1, 2])))), "gseed": draw(A.seeds)}
    return {"chain": cd, "where": where, "gate": draw(s_gate()), "contract": mode, "tags": draw(st.sampled_from([None, "GATE", ["GATE", "G2"]])),
            "propagate_tags": draw(st.sampled_from(["default", "sites", "register", False, True])), "inplace": draw(st.booleans()),
            "int_where": draw(st.booleans()), "pre": pre, "cutoff": draw(st.sampled_from(LAZY_CUTOFFS)),
            "transpose": draw(st.sampled_from([False, False, True])), "dagger": draw(st.sampled_from([False, False, True])),
            "scut": draw(st.sampled_from(MPSFORM_CUTOFFS))}


def attach_lazy(tn, inds, M, tags):
    """Attach an operator lazily with plain Tensor algebra (no quimb gating code): used to build receivers."""
    Q = qtn()
    dims = [tn.ind_size(ix) for ix in inds]
    tmp = [f"__pre{j}" for j in range(len(inds))]
    tn.reindex_(dict(zip(inds, tmp)))
    tn |= Q.Tensor(M.reshape(dims + dims), inds=list(inds) + tmp, tags=tags)
    return tn


def mps_gate_domain(cd, mode, where):
    k = len(where)
    if mode in ("split", "reduce-split"):
        if k == 1:
            return "ok"
        return "ok" if (k == 2 and adjacent(cd, *where)) else "reject"
    if mode in ("split-gate", "swap-split-gate"):
        return "ok" if k <= 2 else "must-reject"
    if mode == "swap+split":
        return "ok" if k <= 2 else "reject"
    return "ok"


def run_mps_gate(case):
    cd = case["chain"]
    psi = build_mps(cd)
    L, dims = cd["L"], cd["dims"]
    where = list(case["where"])
    k = len(where)
    mode = case["contract"]
    order = [cd["site_ind_id"].format(i) for i in range(L)]
    pre = case["pre"]
    if pre:
        pw = list(pre["where"])
        pm = make_gate(pre["gseed"], "gauss", [dims[w] for w in pw], "complex128")
        attach_lazy(psi, [order[w] for w in pw], pm, ["PRE"] + [cd["site_tag_id"].format(w) for w in pw])
    Gm, Garg = build_gate(case["gate"], [dims[w] for w in where])
    before, floor = dense(psi, order), magnitude(psi)
    alltags = sorted(psi.tags)
    old_tids = set(psi.tensor_map)
    holder_tags = set()
    for w in where:
        for tid in psi.ind_map[order[w]]:
            holder_tags |= set(psi.tensor_map[tid].tags)
    ntens = psi.num_tensors
    cls0 = type(psi)
    kw = dict(contract=mode, tags=case["tags"])
    if case["propagate_tags"] != "default":
        kw["propagate_tags"] = case["propagate_tags"]
    if mode in ("split", "reduce-split"):
        kw["cutoff"] = 0.0
    elif mode in ("swap+split", "nonlocal", "auto-mps"):
        kw["cutoff"] = case.get("scut", 0.0)
    elif mode in LAZY and mode is not False:
        kw["cutoff"] = case["cutoff"]
    # transposed / adjoint application: forwarded by gate_TN_1D to whichever routine serves the mode (the generic gate
    # documents both flags)
    tr, dg = bool(case.get("transpose")), bool(case.get("dagger"))
    if tr:
        kw["transpose"] = True
    if dg:
        kw["dagger"] = True
    dom = mps_gate_domain(cd, mode, where)
    if pre and mode in ("split", "reduce-split"):
        dom = "reject" if dom == "reject" else "pre"
    warg = where[0] if (k == 1 and case["int_where"]) else tuple(where)
    # input class of finding C06-e: the flag has to be consumed by gate_with_auto_swap (distant pair) / gate_nonlocal (dagger)
    via_nonlocal = (mode == "nonlocal" and k >= 2) or (mode == "auto-mps" and k >= 3)
    via_swap = k == 2 and mode in ("swap+split", "auto-mps") and abs(where[0] - where[1]) != 1  # (the periodic bond counts as distant)
    info = dict(entry="MPS.gate", contract=mode_name(mode), k=k, cyclic=cd["cyclic"], pre=bool(pre), default_site_tag=cd["site_tag_id"] == "I{}",
                transpose=tr, dagger=dg, unconsumed_flag=bool((via_nonlocal and dg) or (via_swap and (tr or dg))),
                hidden_gate_truncation=bool(via_nonlocal and schmidt_tail(Gm, [dims[w] for w in where], where)))

    def call():
        try:
            r = psi.gate_(Garg, warg, **kw) if case["inplace"] else psi.gate(Garg, warg, **kw)
        except TypeError as e:
            v = flag_leak(e, [f for f, on in (("dagger", dg), ("transpose", tr)) if on], **info)
            if v is None:
                raise
            raise v from e
        if case["inplace"] and r is not psi:
            raise Violation("inplace-identity", **info)
        return r

    if dom == "ok":
        res = call()
    else:
        with rejecting(ValueError, tag=f"{mode_name(mode)}-domain:"):
            res = call()
        if dom == "must-reject":
            raise Violation("accepted-outside-domain", **info)
    # `tags` is documented as "tag the new gate tensor": the MPS-form modes (swap+split / nonlocal) create no gate tensor and
    # silently ignore it -> only the network's own tags are required there
    gt = [] if (k >= 2 and mode in ("swap+split", "nonlocal", "auto-mps")) else given_tags(case["tags"])
    e = verify(before, floor, res, order, dims, [(effective(Gm, tr, dg), where)], keep_tags=alltags + gt, **info)
    check_class(cls0, res, **info)
    eff_mode = mode
    if k == 1 and mode in ("split", "reduce-split", "swap+split", "nonlocal", "auto-mps"):
        eff_mode = True
    if eff_mode in ("split", "reduce-split", "swap+split", "nonlocal", "auto-mps") or (eff_mode is True and k == 1):
        if res.num_tensors != ntens:
            raise Violation("tensor-count", got=res.num_tensors, want=ntens, **info)
    if mode is False or (mode in LAZY and k == 1):
        # the documented tag set of the new (single) gate tensor
        new = [t for tid, t in res.tensor_map.items() if tid not in old_tids]
        if len(new) != 1:
            raise Violation("tensor-count", got=len(new), want=1, **info)
        pt = case["propagate_tags"]
        pt = "sites" if pt == "default" else pt
        st_all = set(site_tags_of(cd))
        want = set(given_tags(case["tags"]))
        if pt is True:
            want |= holder_tags
        elif pt == "sites":
            want |= holder_tags & st_all
        elif pt == "register":
            want |= {cd["site_tag_id"].format(w) for w in where}
        if set(new[0].tags) != want:
            raise Violation("gate-tags", got=sorted(new[0].tags), want=sorted(want), propagate=str(pt), **info)
    return {"nt": k >= 2 or mode not in (False, True) or tr or dg, "err": e,
            "cls": gate_classes(case["gate"], k) + where_classes(cd, where) + ["contract=" + mode_name(mode), "domain=" + dom,
                                                                                f"ptags={case['propagate_tags']}", f"T={tr}", f"dag={dg}"]
            + (["pre-gated"] if pre else []) + ([f"{mode_name(mode)}:flagged"] if (tr or dg) else [])
            + (["scut>0"] if kw.get("cutoff") == MPSFORM_CUTOFFS[1] else [])}


# ---------------------------------------------------------------------------
# 9. MatrixProductState.gate_split
# ---------------------------------------------------------------------------

@st.composite
def s_mps_gate_split(draw, tier):
    cd = draw(s_chain())
    return {"chain": cd, "where": draw(s_where(cd, 2, adj=True)), "gate": draw(s_gate()), "inplace": draw(st.booleans()),
            "absorb": draw(st.sampled_from(["default", "both", "left", "right"])),
            "method": draw(st.sampled_from(["default", "svd", "eig", "qr"])), "max_bond": draw(st.sampled_from(["default", None])),
            "cutoff_mode": draw(st.sampled_from(["default", "abs", "rel", "rsum2"]))}


def run_mps_gate_split(case):
    cd = case["chain"]
    psi = build_mps(cd)
    L, dims = cd["L"], cd["dims"]
    where = list(case["where"])
    if not adjacent(cd, *where):
        raise Reject("L=2: no adjacent pair")
    order = [cd["site_ind_id"].format(i) for i in range(L)]
    Gm, Garg = build_gate(case["gate"], [dims[w] for w in where])
    before, floor = dense(psi, order), magnitude(psi)
    alltags, ntens, cls0 = sorted(psi.tags), psi.num_tensors, type(psi)
    kw = {"cutoff": 0.0}
    if case["absorb"] != "default":
        kw["absorb"] = case["absorb"]
    if case["method"] != "default":
        kw["method"] = case["method"]
        if case["method"] == "qr":
            kw = {"method": "qr", "absorb": "right"}
    if case["max_bond"] is None and "cutoff" in kw:
        kw["max_bond"] = None
    if case["cutoff_mode"] != "default" and "cutoff" in kw:
        kw["cutoff_mode"] = case["cutoff_mode"]
    info = dict(entry="MPS.gate_split", cyclic=cd["cyclic"], absorb=str(case["absorb"]), method=case["method"])
    tol = INV64 if case["method"] == "eig" else TOL
    if kw.get("absorb", 0) is None:
        # absorb=None returns the singular values separately: gate_inds hands them to `info`, the bond is then *not*
        # part of the state (simple-update convention) -> outside this property
        raise Reject("absorb=None leaves the singular values out of the network")
    res = psi.gate_split_(Garg, tuple(where), **kw) if case["inplace"] else psi.gate_split(Garg, tuple(where), **kw)
    e = verify(before, floor, res, order, dims, [(Gm, where)], keep_tags=alltags, tol=tol, **info)
    check_class(cls0, res, **info)
    if res.num_tensors != ntens:
        raise Violation("tensor-count", got=res.num_tensors, want=ntens, **info)
    return {"nt": True, "err": e, "cls": gate_classes(case["gate"], 2) + where_classes(cd, where) + [f"absorb={case['absorb']}", "method=" + case["method"]]}


# ---------------------------------------------------------------------------
# 10. MatrixProductState.gate_with_auto_swap  (swap, gate, swap back or not)
# ---------------------------------------------------------------------------

@st.composite
def s_mps_auto_swap(draw, tier):
    cd = draw(s_chain(Lmin=2, Lmax=6))
    return {"chain": cd, "where": draw(s_where(cd, 2)), "gate": draw(s_gate()), "inplace": draw(st.booleans()),
            "swap_back": draw(st.sampled_from([True, True, False])), "orthog": draw(st.sampled_from(["none", "calc", "info", "pre-canon"])),
            "csite": draw(st.integers(0, 5)), "max_bond": draw(st.sampled_from(["default", None])),
            "scut": draw(st.sampled_from(MPSFORM_CUTOFFS))}


def swap_perm(L, i, j):
    """documented for swap_back=False: for i<j, site j ends at i+1, the sites in between move one place up."""
    i, j = min(i, j), max(i, j)
    return list(range(0, i + 1)) + [j] + list(range(i + 1, j)) + list(range(j + 1, L))


def run_mps_auto_swap(case):
    cd = case["chain"]
    psi = build_mps(cd)
    L, dims = cd["L"], cd["dims"]
    where = list(case["where"])
    order = [cd["site_ind_id"].format(i) for i in range(L)]
    Gm, Garg = build_gate(case["gate"], [dims[w] for w in where])
    kw = {"cutoff": case.get("scut", 0.0), "swap_back": case["swap_back"]}
    if case["max_bond"] is None:
        kw["max_bond"] = None
    if case["orthog"] == "calc":
        kw["cur_orthog"] = "calc"
    elif case["orthog"] == "info":
        kw["info"] = {}
    elif case["orthog"] == "pre-canon":
        c = case["csite"] % L
        psi.canonicalize_(c)
        kw["info"] = {"cur_orthog": (c, c)}
    before, floor = dense(psi, order), magnitude(psi)
    alltags, ntens, cls0 = sorted(psi.tags), psi.num_tensors, type(psi)
    info = dict(entry="MPS.gate_with_auto_swap", cyclic=cd["cyclic"], swap_back=case["swap_back"], orthog=case["orthog"])
    res = psi.gate_with_auto_swap_(Garg, tuple(where), **kw) if case["inplace"] else psi.gate_with_auto_swap(Garg, tuple(where), **kw)
    ref = apply_ops(before, dims, [(Gm, where)])
    odims = dims
    if not case["swap_back"]:
        ref, odims = permuted(ref, dims, swap_perm(L, *where))
    e = verify(ref, floor * max(np.linalg.norm(Gm), 1e-300), res, order, odims, [], keep_tags=alltags, **info)
    check_class(cls0, res, **info)
    if res.num_tensors != ntens:
        raise Violation("tensor-count", got=res.num_tensors, want=ntens, **info)
    return {"nt": True, "err": e,
            "cls": gate_classes(case["gate"], 2) + where_classes(cd, where) + [f"swap_back={case['swap_back']}", "orthog=" + case["orthog"]]}


# ---------------------------------------------------------------------------
# 11. MatrixProductState.gate_nonlocal  (gate -> sub-MPO -> compressed in)
# ---------------------------------------------------------------------------

# 'zipup-first' crashes on sub-regions (finding C09-h), 'src*' / 'fit' require max_bond: not drawn here
NONLOCAL_METHODS = ["direct", "direct", "lazy", "dm", "zipup"]


@st.composite
def s_mps_nonlocal(draw, tier):
    cd = draw(s_chain(cyclic=False))
    k = draw(st.sampled_from([1, 2, 2, 3, 3, 4]))
    return {"chain": cd, "where": draw(s_where(cd, k)), "gate": draw(s_gate(kinds=GATE_KINDS + ("illcond",))), "inplace": draw(st.booleans()),
            "method": draw(st.sampled_from(NONLOCAL_METHODS)), "transpose": draw(st.booleans()),
            "dims": draw(st.sampled_from(["none", "explicit", "int"])), "orthog": draw(st.sampled_from(["none", "info"])),
            "sweep_reverse": draw(st.booleans()), "scut": draw(st.sampled_from(MPSFORM_CUTOFFS))}


def run_mps_nonlocal(case):
    cd = case["chain"]
    psi = build_mps(cd)
    L, dims = cd["L"], cd["dims"]
    where = list(case["where"])
    k = len(where)
    order = [cd["site_ind_id"].format(i) for i in range(L)]
    wd = [dims[w] for w in where]
    Gm, Garg = build_gate(case["gate"], wd)
    method = case["method"]
    kw = {"method": method, "transpose": case["transpose"]}
    if method != "lazy":
        kw["cutoff"] = case.get("scut", 0.0) if method == "direct" else 0.0
        kw["max_bond"] = None
        if case["sweep_reverse"]:
            kw["sweep_reverse"] = True
    else:
        kw["cutoff"] = 0.0  # nothing is compressed, but the gate itself is factorised into an MPO: no truncation there either
    if case["dims"] == "explicit":
        kw["dims"] = tuple(wd)
    elif case["dims"] == "int" and len(set(wd)) == 1:
        kw["dims"] = wd[0]
    info_d = {} if case["orthog"] == "info" else None
    if info_d is not None:
        kw["info"] = info_d
    before, floor = dense(psi, order), magnitude(psi)
    alltags, ntens, cls0 = sorted(psi.tags), psi.num_tensors, type(psi)
    info = dict(entry="MPS.gate_nonlocal", method=method, k=k, transpose=case["transpose"], default_site_tag=cd["site_tag_id"] == "I{}",
                hidden_gate_truncation=schmidt_tail(Gm, wd, where))
    try:
        res = psi.gate_nonlocal_(Garg, tuple(where), **kw) if case["inplace"] else psi.gate_nonlocal(Garg, tuple(where), **kw)
    except AttributeError as e:
        if k == 1 and method in ("dm", "zipup"):
            # `where` is documented as a sequence of sites, 'direct' serves one site: not a legitimate rejection
            raise Violation("one-site-region", entry="MPS.gate_nonlocal", method=method, exc="AttributeError") from e
        raise
    tol = TOL if method in ("direct", "lazy") else INV64
    e = verify(before, floor, res, order, dims, [(effective(Gm, case["transpose"]), where)], keep_tags=alltags, tol=tol, **info)
    check_class(cls0, res, **info)
    if method != "lazy" and res.num_tensors != ntens:
        raise Violation("tensor-count", got=res.num_tensors, want=ntens, **info)
    return {"nt": k >= 2 or case["transpose"], "err": e,
            "cls": gate_classes(case["gate"], k) + where_classes(cd, where) + ["method=" + method, f"T={case['transpose']}", "dims=" + case["dims"]]
            + (["schmidt-tail"] if info["hidden_gate_truncation"] else [])}


# ---------------------------------------------------------------------------
# 12. MatrixProductState.gate_with_submpo / gate_with_mpo  (operator given as (sub-)MPO)
# ---------------------------------------------------------------------------

@st.composite
def s_mps_submpo(draw, tier):
    cd = draw(s_chain(cyclic=False))
    L = cd["L"]
    full = draw(st.integers(0, 3)) == 0
    k = L if full else draw(st.integers(2, min(L, 4)))  # (a one-site MPO cannot be built from arrays)
    sites = sorted(list(draw(st.permutations(list(range(L)))))[:k])
    return {"chain": cd, "sites": sites, "obonds": [draw(st.sampled_from([1, 2, 3])) for _ in range(max(k - 1, 1))],
            "entry": "gate_with_mpo" if (full and draw(st.booleans())) else "gate_with_submpo",
            "method": draw(st.sampled_from(NONLOCAL_METHODS)), "transpose": draw(st.booleans()), "inplace": draw(st.booleans()),
            "where": draw(st.sampled_from(["none", "sites", "range"])), "inplace_mpo": draw(st.sampled_from([False, False, True])),
            "op_ids": draw(st.sampled_from([["k{}", "b{}"], ["k{}", "b{}"], ["x{}", "y{}"], ["b{}", "k{}"]])),
            "reuse": draw(st.sampled_from([True, True, True, False]))}


def run_mps_submpo(case):
    cd = dict(case["chain"])
    psi = build_mps(cd)
    L, dims = cd["L"], cd["dims"]
    sites = list(case["sites"])
    k = len(sites)
    order = [cd["site_ind_id"].format(i) for i in range(L)]
    up, low = case["op_ids"]
    entry, method = case["entry"], case["method"]
    if entry == "gate_with_mpo" and method == "lazy":
        method = "direct"
    ocd = dict(cd, cyclic=False)
    mpo = build_mpo(ocd, seed_shift=7, sites=sites if entry == "gate_with_submpo" or k < L else None, bonds=case["obonds"],
                    upper=up, lower=low, tags="OP")
    uo = [up.format(i) for i in sites]
    lo = [low.format(i) for i in sites]
    Om = dense(mpo, uo + lo).reshape(int(np.prod([dims[i] for i in sites])), -1)
    ofloor = magnitude(mpo)
    kw = {"method": method, "transpose": case["transpose"], "inplace_mpo": case["inplace_mpo"]}
    if method != "lazy":
        kw["cutoff"] = 0.0
        kw["max_bond"] = None
    if entry == "gate_with_submpo":
        if case["where"] == "sites":
            kw["where"] = tuple(sites)
        elif case["where"] == "range":
            kw["where"] = (sites[0], sites[-1])  # "the range of sites the MPO acts on"
    before, floor = dense(psi, order), magnitude(psi)
    alltags, ntens, cls0 = sorted(psi.tags), psi.num_tensors, type(psi)
    info = dict(entry="MPS." + entry, method=method, k=k, transpose=case["transpose"], spelling="_" if case["inplace"] else "plain")
    watch = OpWatch(mpo)

    def apply(x):
        r = getattr(x, entry + ("_" if case["inplace"] else ""))(mpo, **kw)
        if case["inplace"] and r is not x:
            raise Violation("inplace-identity", **info)
        return r

    res = apply(psi)
    tol = TOL if method in ("direct", "lazy") else INV64
    e = verify(before, floor * ofloor / max(np.linalg.norm(Om), 1e-300), res, order, dims,
               [(effective(Om, case["transpose"]), sites)], keep_tags=alltags, tol=tol, **info)
    check_class(cls0, res, **info)
    if method != "lazy" and res.num_tensors != ntens:
        raise Violation("tensor-count", got=res.num_tensors, want=ntens, **info)
    reused = False
    if not case["inplace_mpo"]:
        # inplace_mpo=False ("whether to reindex the operator inplace"): the caller's operator object is left alone and shares
        # nothing with the result ...
        watch.check("after the call", **info)
        watch.check_unshared(res, "after the call", **info)
        if case.get("reuse", True):
            # ... so the very same object can be applied again: to a second state, and a second time to the first result
            reused = True
            sc = ofloor / max(np.linalg.norm(Om), 1e-300)
            act = [(effective(Om, case["transpose"]), sites)]
            psi_b = build_mps(shifted(cd))
            before_b, floor_b = dense(psi_b, order), magnitude(psi_b)
            res_b = apply(psi_b)
            e = max(e, verify(before_b, floor_b * sc, res_b, order, dims, act, keep_tags=alltags, tol=tol, reuse="second state", **info))
            e = max(e, verify(before, floor * sc, res, order, dims, act, keep_tags=alltags, tol=tol, reuse="first result afterwards", **info))
            mid, mfloor = dense(res, order), magnitude(res)
            res2 = apply(res)
            e = max(e, verify(mid, mfloor * sc, res2, order, dims, act, keep_tags=alltags, tol=tol, reuse="twice", **info))
            watch.check("after re-use", **info)
            watch.scribble({id(r): r for r in (res, res_b, res2)}.values(), **info)
    return {"nt": True, "err": e,
            "cls": ["entry=" + entry, "method=" + method, f"T={case['transpose']}", f"sites={k}", "where=" + case["where"],
                    "contiguous" if sites == list(range(sites[0], sites[-1] + 1)) else "gaps", "ids=" + up + low,
                    f"inplace_mpo={case['inplace_mpo']}"] + (["reused"] if reused else [])}


# ---------------------------------------------------------------------------
# 13. MatrixProductOperator.gate (tensor_network_ag_gate on an operator): which x mode x dagger/transpose
# ---------------------------------------------------------------------------

def operator_actions(Gm, which, transpose, dagger, up_pos, low_pos):
    """docstring of tensor_network_ag_gate: sandwich G X G^dag, upper G X, lower X G^T, with G replaced by G^dag
    (dagger) or G^T (transpose).  As actions on the vector (upper..., lower...)."""
    Aop = effective(Gm, transpose, dagger)
    if which in (None, "sandwich", "both"):
        return [(Aop, up_pos), (Aop.conj(), low_pos)]
    if which == "upper":
        return [(Aop, up_pos)]
    return [(Aop, low_pos)]


@st.composite
def s_mpo_gate(draw, tier):
    cd = draw(s_chain(Lmin=2, Lmax=5, op=True))
    mode = draw(st.sampled_from(ALL_INDS_MODES))
    conform = draw(st.integers(0, 9)) != 0
    if mode in ("split", "reduce-split"):
        k, adj = (2, True) if conform else (draw(st.integers(1, 3)), False)
    elif mode in ("split-gate", "swap-split-gate"):
        k, adj = (draw(st.sampled_from([1, 2, 2, 2])) if conform else 3), False
    else:
        k, adj = draw(K123), False
    return {"chain": cd, "where": draw(s_where(cd, k, adj)), "gate": draw(s_gate()), "contract": mode,
            "which": draw(st.sampled_from([None, "sandwich", "both", "upper", "lower", "method"])),
            "transpose": draw(st.booleans()), "dagger": draw(st.booleans()), "inplace": draw(st.booleans()),
            "tags": draw(st.sampled_from([None, "GATE"])), "tags_upper": draw(st.sampled_from([None, "UP"])),
            "tags_lower": draw(st.sampled_from([None, "LOW"])), "propagate_tags": draw(st.sampled_from(["default", "sites", "register", False, True])),
            "int_where": draw(st.booleans()), "cutoff": draw(st.sampled_from(LAZY_CUTOFFS))}


def run_mpo_gate(case):
    cd = case["chain"]
    X = build_mpo(cd)
    L, dims = cd["L"], cd["dims"]
    where = list(case["where"])
    k = len(where)
    mode, which = case["contract"], case["which"]
    ups = [cd["upper_ind_id"].format(i) for i in range(L)]
    lows = [cd["lower_ind_id"].format(i) for i in range(L)]
    order = ups + lows
    Gm, Garg = build_gate(case["gate"], [dims[w] for w in where])
    before, floor = dense(X, order), magnitude(X)
    alltags, ntens, cls0 = sorted(X.tags), X.num_tensors, type(X)
    kw = dict(contract=mode, transpose=case["transpose"], dagger=case["dagger"], tags=case["tags"], tags_upper=case["tags_upper"],
              tags_lower=case["tags_lower"])
    if case["propagate_tags"] != "default":
        kw["propagate_tags"] = case["propagate_tags"]
    if mode in ("split", "reduce-split"):
        kw["cutoff"] = 0.0
    elif mode not in (False, True):
        kw["cutoff"] = case["cutoff"]
    name = "gate"
    eff_which = which
    if which == "method":
        # the partial-method spellings gate_upper / gate_lower / gate_sandwich
        eff_which = ["sandwich", "upper", "lower"][case["gate"]["gseed"] % 3]
        name = "gate_" + eff_which
    else:
        kw["which"] = which
    dom = mps_gate_domain(cd, mode, where)
    warg = where[0] if (k == 1 and case["int_where"]) else tuple(where)
    info = dict(entry="MPO.gate", contract=mode_name(mode), which=str(eff_which), k=k, transpose=case["transpose"], dagger=case["dagger"],
                cyclic=cd["cyclic"])

    def call():
        f = getattr(X, name + ("_" if case["inplace"] else ""))
        r = f(Garg, warg, **kw)
        if case["inplace"] and r is not X:
            raise Violation("inplace-identity", **info)
        return r

    if dom == "ok":
        res = call()
    else:
        with rejecting(ValueError, tag=f"{mode_name(mode)}-domain:"):
            res = call()
        if dom == "must-reject":
            raise Violation("accepted-outside-domain", **info)
    actions = operator_actions(Gm, eff_which, case["transpose"], case["dagger"], where, [L + w for w in where])
    e = verify(before, floor, res, order, dims + dims, actions, keep_tags=alltags + given_tags(case["tags"]), **info)
    check_class(cls0, res, **info)
    if (mode in ("split", "reduce-split") or (mode is True and k == 1)) and res.num_tensors != ntens:
        raise Violation("tensor-count", got=res.num_tensors, want=ntens, **info)
    return {"nt": True, "err": e,
            "cls": gate_classes(case["gate"], k) + where_classes(cd, where) + ["contract=" + mode_name(mode), f"which={which}", f"T={case['transpose']}",
                                                                                f"dag={case['dagger']}", "domain=" + dom]}


# ---------------------------------------------------------------------------
# 14. MatrixProductOperator.gate_sandwich_with_auto_swap
# ---------------------------------------------------------------------------

@st.composite
def s_mpo_auto_swap(draw, tier):
    cd = draw(s_chain(Lmin=2, Lmax=5, op=True, cyclic=False))
    return {"chain": cd, "where": draw(s_where(cd, 2)), "gate": draw(s_gate()), "inplace": draw(st.booleans()), "dagger": draw(st.booleans()),
            "swap_back": draw(st.sampled_from([True, True, False])), "strip_exponent": draw(st.booleans()),
            "contract": draw(st.sampled_from(["default", "split", "reduce-split"])), "absorb": draw(st.sampled_from(["default", "left", "right"])),
            "orthog": draw(st.sampled_from(["none", "calc", "info"]))}


def run_mpo_auto_swap(case):
    cd = case["chain"]
    X = build_mpo(cd)
    L, dims = cd["L"], cd["dims"]
    where = list(case["where"])
    ups = [cd["upper_ind_id"].format(i) for i in range(L)]
    lows = [cd["lower_ind_id"].format(i) for i in range(L)]
    order = ups + lows
    Gm, Garg = build_gate(case["gate"], [dims[w] for w in where])
    before, floor = dense(X, order), magnitude(X)
    alltags, ntens, cls0 = sorted(X.tags), X.num_tensors, type(X)
    kw = dict(dagger=case["dagger"], swap_back=case["swap_back"], strip_exponent=case["strip_exponent"], cutoff=0.0)
    if case["contract"] != "default":
        kw["contract"] = case["contract"]
    if case["absorb"] != "default":
        kw["absorb"] = case["absorb"]
    if case["orthog"] == "calc":
        kw["cur_orthog"] = "calc"
    elif case["orthog"] == "info":
        kw["info"] = {}
    info = dict(entry="MPO.gate_sandwich_with_auto_swap", dagger=case["dagger"], swap_back=case["swap_back"], contract=case["contract"],
                strip=case["strip_exponent"])
    f = X.gate_sandwich_with_auto_swap_ if case["inplace"] else X.gate_sandwich_with_auto_swap
    res = f(Garg, tuple(where), **kw)
    ref = apply_ops(before, dims + dims, operator_actions(Gm, "sandwich", False, case["dagger"], where, [L + w for w in where]))
    odims = dims + dims
    if not case["swap_back"]:
        p = swap_perm(L, *where)
        ref, odims = permuted(ref, dims + dims, p + [L + q for q in p])
    if case["strip_exponent"] and float(np.linalg.norm(ref)) == 0.0:
        raise Reject("zero operator cannot be normalised")
    e = verify(ref, floor * float(np.linalg.norm(Gm)) ** 2, res, order, odims, [], keep_tags=alltags, **info)
    check_class(cls0, res, **info)
    if res.num_tensors != ntens:
        raise Violation("tensor-count", got=res.num_tensors, want=ntens, **info)
    return {"nt": True, "err": e,
            "cls": gate_classes(case["gate"], 2) + where_classes(cd, where) + [f"swap_back={case['swap_back']}", f"dag={case['dagger']}",
                                                                                "contract=" + case["contract"], f"strip={case['strip_exponent']}",
                                                                                "absorb=" + case["absorb"]]}


# ---------------------------------------------------------------------------
# arbitrary-geometry receivers: one seeded tensor per node of a random connected graph
# ---------------------------------------------------------------------------

SITE_NAMES = {"int": lambda i: i, "str": lambda i: "ABCDEFGH"[i], "tuple": lambda i: (i // 2, i % 2)}


@st.composite
def s_graph(draw, nmin=2, nmax=6, op=False, tree=False):
    n = draw(st.integers(nmin, nmax))
    dims = [draw(st.sampled_from([2, 2, 3])) for _ in range(n)]
    if op:
        while int(np.prod(dims)) ** 2 > 1300:
            dims.pop()
        n = len(dims)
    edges = [list(e) for e in (draw(G.tree_edges(n)) if tree else draw(G.graph_edges(n, extra=2)))] if n > 1 else []
    d = {"n": n, "dims": dims, "edges": edges, "bdims": [draw(st.sampled_from([1, 2, 2, 3])) for _ in edges], "seed": draw(A.seeds),
         "dtype": draw(st.sampled_from(A.DTYPES64)), "names": draw(st.sampled_from(["int", "int", "str", "tuple"])),
         "site_tag_id": draw(st.sampled_from(["I{}", "I{}", "S{}"])), "gtag": draw(st.sampled_from([None, "PSI"]))}
    if op:
        d["upper_ind_id"], d["lower_ind_id"] = draw(st.sampled_from([["k{}", "b{}"], ["u{}", "d{}"]]))
    else:
        d["site_ind_id"] = draw(st.sampled_from(["k{}", "k{}", "q{}"]))
    return d


def graph_sites(gd):
    return [SITE_NAMES[gd["names"]](i) for i in range(gd["n"])]


def build_graph_tn(gd, op=False, sites=None, bond_prefix="e"):
    Q = qtn()
    from quimb.tensor.tnag.core import TensorNetworkGenOperator, TensorNetworkGenVector

    rng = np.random.default_rng(int(gd["seed"]))
    cplx = "complex" in gd["dtype"]
    sites = graph_sites(gd) if sites is None else list(sites)
    ts = []
    for i in range(gd["n"]):
        inds, shp = [], []
        for j, (a, b) in enumerate(gd["edges"]):
            if i in (a, b):
                inds.append(f"{bond_prefix}{j}")
                shp.append(gd["bdims"][j])
        if op:
            inds += [gd["upper_ind_id"].format(sites[i]), gd["lower_ind_id"].format(sites[i])]
            shp += [gd["dims"][i]] * 2
        else:
            inds.append(gd["site_ind_id"].format(sites[i]))
            shp.append(gd["dims"][i])
        x = rng.normal(size=shp)
        if cplx:
            x = x + 1j * rng.normal(size=shp)
        perm = rng.permutation(len(shp))
        tags = [gd["site_tag_id"].format(sites[i])] + ([gd["gtag"]] if gd["gtag"] else [])
        ts.append(Q.Tensor(np.ascontiguousarray(np.transpose(x, perm)), inds=[inds[p] for p in perm], tags=tags))
    tn = Q.TensorNetwork(ts)
    if op:
        tn.view_as_(TensorNetworkGenOperator, sites=sites, site_tag_id=gd["site_tag_id"], upper_ind_id=gd["upper_ind_id"],
                    lower_ind_id=gd["lower_ind_id"])
    else:
        tn.view_as_(TensorNetworkGenVector, sites=sites, site_tag_id=gd["site_tag_id"], site_ind_id=gd["site_ind_id"])
    return tn


def graph_adjacent(gd, i, j):
    return [i, j] in gd["edges"] or [j, i] in gd["edges"]


@st.composite
def s_gwhere(draw, gd, k, adj=False):
    n = gd["n"]
    k = min(k, n)
    if adj == "far" and k == 2:
        far = [[i, j] for i in range(n) for j in range(n) if i != j and not graph_adjacent(gd, i, j)]
        if far:
            return list(draw(st.sampled_from(far)))
    elif adj and k == 2 and gd["edges"]:
        e = list(draw(st.sampled_from(gd["edges"])))
        return e if draw(st.booleans()) else e[::-1]
    return list(draw(st.permutations(list(range(n)))))[:k]


def graph_domain(gd, mode, where):
    k = len(where)
    if mode in ("split", "reduce-split"):
        return "ok" if (k == 1 or (k == 2 and graph_adjacent(gd, *where))) else "reject"
    if mode in ("split-gate", "swap-split-gate"):
        return "ok" if k <= 2 else "must-reject"
    return "ok"


@st.composite
def s_mode_where(draw, gd, swhere, modes=ALL_INDS_MODES):
    mode = draw(st.sampled_from(modes))
    conform = draw(st.integers(0, 9)) != 0
    if mode in ("split", "reduce-split"):
        k, adj = (2, True) if conform else (draw(st.integers(1, 3)), False)
    elif mode in ("split-gate", "swap-split-gate"):
        k, adj = (draw(st.sampled_from([1, 2, 2, 2])) if conform else 3), False
    else:
        k, adj = draw(K123), False
    return mode, draw(swhere(gd, k, adj))


def expected_gate_tags(pt, given, holder_tags, site_tag_set, where_tags):
    want = set(given)
    if pt is True:
        want |= holder_tags
    elif pt == "sites":
        want |= holder_tags & site_tag_set
    elif pt == "register":
        want |= set(where_tags)
    return want


# ---------------------------------------------------------------------------
# 15. TensorNetworkGenVector.gate
# ---------------------------------------------------------------------------

@st.composite
def s_ag_vector(draw, tier):
    gd = draw(s_graph())
    mode, where = draw(s_mode_where(gd, s_gwhere))
    return {"graph": gd, "where": where, "gate": draw(s_gate()), "contract": mode, "transpose": draw(st.booleans()), "dagger": draw(st.booleans()),
            "tags": draw(st.sampled_from([None, "GATE"])), "propagate_tags": draw(st.sampled_from(["default", "sites", "register", False, True])),
            "inplace": draw(st.booleans()), "bare_site": draw(st.booleans()), "which": draw(st.sampled_from(["default", "default", "site"])),
            "cutoff": draw(st.sampled_from(LAZY_CUTOFFS))}


def run_ag_vector(case):
    gd = case["graph"]
    tn = build_graph_tn(gd)
    sites = graph_sites(gd)
    n, dims = gd["n"], gd["dims"]
    where = list(case["where"])
    k = len(where)
    mode = case["contract"]
    order = [gd["site_ind_id"].format(s) for s in sites]
    Gm, Garg = build_gate(case["gate"], [dims[w] for w in where])
    before, floor = dense(tn, order), magnitude(tn)
    alltags, ntens, cls0, old_tids = sorted(tn.tags), tn.num_tensors, type(tn), set(tn.tensor_map)
    holder_tags = set()
    for w in where:
        for tid in tn.ind_map[order[w]]:
            holder_tags |= set(tn.tensor_map[tid].tags)
    kw = dict(contract=mode, transpose=case["transpose"], dagger=case["dagger"], tags=case["tags"])
    if case["propagate_tags"] != "default":
        kw["propagate_tags"] = case["propagate_tags"]
    if case["which"] != "default":
        kw["which"] = case["which"]
    if mode in ("split", "reduce-split"):
        kw["cutoff"] = 0.0
    elif mode not in (False, True):
        kw["cutoff"] = case["cutoff"]
    dom = graph_domain(gd, mode, where)
    warg = sites[where[0]] if (k == 1 and case["bare_site"]) else tuple(sites[w] for w in where)
    info = dict(entry="GenVector.gate", contract=mode_name(mode), k=k, transpose=case["transpose"], dagger=case["dagger"], names=gd["names"])

    def call():
        r = tn.gate_(Garg, warg, **kw) if case["inplace"] else tn.gate(Garg, warg, **kw)
        if case["inplace"] and r is not tn:
            raise Violation("inplace-identity", **info)
        return r

    if dom == "ok":
        res = call()
    else:
        with rejecting(ValueError, tag=f"{mode_name(mode)}-domain:"):
            res = call()
        if dom == "must-reject":
            raise Violation("accepted-outside-domain", **info)
    e = verify(before, floor, res, order, dims, [(effective(Gm, case["transpose"], case["dagger"]), where)],
               keep_tags=alltags + given_tags(case["tags"]), **info)
    check_class(cls0, res, **info)
    if (mode in ("split", "reduce-split") or (mode is True and k == 1)) and res.num_tensors != ntens:
        raise Violation("tensor-count", got=res.num_tensors, want=ntens, **info)
    if mode is False:
        new = [t for tid, t in res.tensor_map.items() if tid not in old_tids]
        pt = False if case["propagate_tags"] == "default" else case["propagate_tags"]
        want = expected_gate_tags(pt, given_tags(case["tags"]), holder_tags, {gd["site_tag_id"].format(x) for x in sites},
                                  [gd["site_tag_id"].format(sites[w]) for w in where])
        if len(new) != 1 or set(new[0].tags) != want:
            raise Violation("gate-tags", got=sorted(new[0].tags) if new else [], want=sorted(want), propagate=str(pt), **info)
    if mode == "split-gate" and k == 2:
        # documented: both halves of the split gate get `tags` and the propagated tags; with 'register' each half only
        # the site tag of the site it sits above (= the half that carries that site's outer label)
        pt = False if case["propagate_tags"] == "default" else case["propagate_tags"]
        st_all = {gd["site_tag_id"].format(x) for x in sites}
        for w in where:
            (tid,) = res.ind_map[order[w]]
            if tid in old_tids:
                raise Violation("gate-tags", got=[], want=["<gate half above site>"], propagate=str(pt), **info)
            want = expected_gate_tags(pt, given_tags(case["tags"]), holder_tags, st_all, [gd["site_tag_id"].format(sites[w])])
            if set(res.tensor_map[tid].tags) != want:
                raise Violation("gate-tags", got=sorted(res.tensor_map[tid].tags), want=sorted(want), propagate=str(pt), half=True, **info)
    return {"nt": k >= 2 or case["transpose"] or case["dagger"] or mode not in (False, True), "err": e,
            "cls": gate_classes(case["gate"], k) + ["contract=" + mode_name(mode), "domain=" + dom, f"T={case['transpose']}", f"dag={case['dagger']}",
                                                    "names=" + gd["names"], f"ptags={case['propagate_tags']}",
                                                    "loopy" if len(gd["edges"]) >= n else "tree"]
            + (["mixed-dims"] if len({dims[w] for w in where}) > 1 else [])}


# ---------------------------------------------------------------------------
# 16. TensorNetworkGenOperator.gate  (which = None / sandwich / upper / lower)
# ---------------------------------------------------------------------------

@st.composite
def s_ag_operator(draw, tier):
    gd = draw(s_graph(nmax=5, op=True))
    mode, where = draw(s_mode_where(gd, s_gwhere))
    return {"graph": gd, "where": where, "gate": draw(s_gate()), "contract": mode, "transpose": draw(st.booleans()), "dagger": draw(st.booleans()),
            "which": draw(st.sampled_from([None, "sandwich", "both", "upper", "lower"])), "tags": draw(st.sampled_from([None, "GATE"])),
            "tags_upper": draw(st.sampled_from([None, "UP"])), "tags_lower": draw(st.sampled_from([None, "LOW"])),
            "propagate_tags": draw(st.sampled_from(["default", "sites", "register", False, True])), "inplace": draw(st.booleans()),
            "bare_site": draw(st.booleans()), "cutoff": draw(st.sampled_from(LAZY_CUTOFFS))}


def run_ag_operator(case):
    gd = case["graph"]
    tn = build_graph_tn(gd, op=True)
    sites = graph_sites(gd)
    n, dims = gd["n"], gd["dims"]
    where = list(case["where"])
    k = len(where)
    mode, which = case["contract"], case["which"]
    order = [gd["upper_ind_id"].format(s) for s in sites] + [gd["lower_ind_id"].format(s) for s in sites]
    Gm, Garg = build_gate(case["gate"], [dims[w] for w in where])
    before, floor = dense(tn, order), magnitude(tn)
    alltags, ntens, cls0, old_tids = sorted(tn.tags), tn.num_tensors, type(tn), set(tn.tensor_map)
    kw = dict(contract=mode, which=which, transpose=case["transpose"], dagger=case["dagger"], tags=case["tags"],
              tags_upper=case["tags_upper"], tags_lower=case["tags_lower"])
    if case["propagate_tags"] != "default":
        kw["propagate_tags"] = case["propagate_tags"]
    if mode in ("split", "reduce-split"):
        kw["cutoff"] = 0.0
    elif mode not in (False, True):
        kw["cutoff"] = case["cutoff"]
    dom = graph_domain(gd, mode, where)
    warg = sites[where[0]] if (k == 1 and case["bare_site"]) else tuple(sites[w] for w in where)
    info = dict(entry="GenOperator.gate", contract=mode_name(mode), which=str(which), k=k, transpose=case["transpose"], dagger=case["dagger"],
                names=gd["names"])

    def call():
        r = tn.gate_(Garg, warg, **kw) if case["inplace"] else tn.gate(Garg, warg, **kw)
        if case["inplace"] and r is not tn:
            raise Violation("inplace-identity", **info)
        return r

    if dom == "ok":
        res = call()
    else:
        with rejecting(ValueError, tag=f"{mode_name(mode)}-domain:"):
            res = call()
        if dom == "must-reject":
            raise Violation("accepted-outside-domain", **info)
    actions = operator_actions(Gm, which, case["transpose"], case["dagger"], where, [n + w for w in where])
    e = verify(before, floor, res, order, dims + dims, actions, keep_tags=alltags + given_tags(case["tags"]), **info)
    check_class(cls0, res, **info)
    if (mode in ("split", "reduce-split") or (mode is True and k == 1)) and res.num_tensors != ntens:
        raise Violation("tensor-count", got=res.num_tensors, want=ntens, **info)
    if mode is False:
        # documented: tags (+ tags_upper on the upper gate tensor, tags_lower on the lower one)
        new = [t for tid, t in res.tensor_map.items() if tid not in old_tids]
        nwant = 1 if which in ("upper", "lower") else 2
        if len(new) != nwant:
            raise Violation("tensor-count", got=len(new), want=nwant, **info)
        for t in new:
            is_up = any(ix in t.inds for ix in order[:n])
            side = given_tags(case["tags_upper"] if is_up else case["tags_lower"])
            miss = [x for x in given_tags(case["tags"]) + side if x not in t.tags]
            if miss:
                raise Violation("gate-tags", missing=miss, upper=is_up, **info)
    return {"nt": True, "err": e,
            "cls": gate_classes(case["gate"], k) + ["contract=" + mode_name(mode), "domain=" + dom, f"which={which}", f"T={case['transpose']}",
                                                    f"dag={case['dagger']}", "names=" + gd["names"]]}


# ---------------------------------------------------------------------------
# 17. gate_simple_ : simple-update gating with bond gauges (state = network with the gauges inserted)
# ---------------------------------------------------------------------------

@st.composite
def s_ag_simple(draw, tier):
    op = draw(st.integers(0, 4)) == 0
    gd = draw(s_graph(nmax=5 if op else 6, op=op))
    k = draw(st.sampled_from([1, 2, 2, 2, 2]))
    # the long-range fallback is written for vectors only (it needs site_ind): operators get nearest neighbours
    where = draw(s_gwhere(gd, k, adj=True if op else draw(st.sampled_from([True, "far", "far", False]))))
    return {"graph": gd, "op": op, "where": where, "gate": draw(s_gate(kinds=("gauss", "gauss", "unitary", "controlled", "product", "hermitian"))),
            "gseed": draw(A.seeds), "gauged": [draw(st.integers(0, 3)) != 0 for _ in gd["edges"]], "renorm": draw(st.booleans()),
            "transpose": draw(st.booleans()), "dagger": draw(st.booleans()), "smudge": draw(st.sampled_from(["default", 0.0])),
            "power": draw(st.sampled_from(["default", 0.5])), "contract": draw(st.sampled_from(["default", "split", "reduce-split"])),
            "path": draw(st.sampled_from([None, 0, 1, 2])), "info": draw(st.booleans())}


def gauged_dense(tn, gauges, order):
    arrs = [(c128(a), i) for a, i in tn_tensors(tn)]
    for ix, sv in gauges.items():
        arrs.append((c128(sv), (ix,)))
    return np.asarray(einsum_value(arrs, tuple(order))).reshape(-1)


def run_ag_simple(case):
    gd = case["graph"]
    op = case["op"]
    tn = build_graph_tn(gd, op=op)
    sites = graph_sites(gd)
    n, dims = gd["n"], gd["dims"]
    where = list(case["where"])
    k = len(where)
    if op:
        order = [gd["upper_ind_id"].format(s) for s in sites] + [gd["lower_ind_id"].format(s) for s in sites]
        vdims = dims + dims
    else:
        order = [gd["site_ind_id"].format(s) for s in sites]
        vdims = dims
    rng = np.random.default_rng(case["gseed"])
    gauges = {f"e{j}": rng.uniform(0.5, 1.5, size=gd["bdims"][j]) for j in range(len(gd["edges"])) if case["gauged"][j]}
    Gm, Garg = build_gate(case["gate"], [dims[w] for w in where])
    if not float(np.linalg.norm(Gm)) > 0:
        raise Reject("zero gate")
    before = gauged_dense(tn, gauges, order)
    floor = magnitude(tn) * float(np.prod([np.linalg.norm(g) for g in gauges.values()])) if gauges else magnitude(tn)
    alltags, ntens, cls0 = sorted(tn.tags), tn.num_tensors, type(tn)
    adjacent_pair = k == 2 and graph_adjacent(gd, *where)
    if op and k == 2 and not adjacent_pair:
        raise Reject("long-range simple gating is implemented for vectors only")
    kw = dict(renorm=case["renorm"], transpose=case["transpose"], dagger=case["dagger"], cutoff=0.0, max_bond=None)
    if case["smudge"] != "default" and (k == 1 or adjacent_pair):
        # smudge=0 is only sound where the gauges that get inverted are the supplied ones (all in [0.5, 1.5]); the long-range
        # path inverts the *new* singular values, which with cutoff=0 contain exact zeros for rank-deficient gates / bonds
        kw["smudge"] = case["smudge"]
    if case["power"] != "default":
        kw["power"] = case["power"]
    if case["contract"] != "default" and adjacent_pair:
        kw["contract"] = case["contract"]  # gate_opts are for the nearest-neighbour path only
    if k == 2 and not adjacent_pair and case["path"] is not None:
        kw["path"] = case["path"]
    if case["info"]:
        kw["info"] = {}
    info = dict(entry="gate_simple_", k=k, adjacent=bool(adjacent_pair), renorm=case["renorm"], transpose=case["transpose"], dagger=case["dagger"], op=op)
    old_keys = set(gauges)
    res = tn.gate_simple_(Garg, tuple(sites[w] for w in where), gauges, **kw)
    if res is not tn:
        raise Violation("inplace-identity", **info)
    if op:
        # documented via gate(): an operator receiver is sandwiched by default
        actions = operator_actions(Gm, None, case["transpose"], case["dagger"], where, [n + w for w in where])
    else:
        actions = [(effective(Gm, case["transpose"], case["dagger"]), where)]
    ref = apply_ops(before, vdims, actions)
    if not old_keys <= set(gauges):
        raise Violation("gauges-dropped", **info)
    if set(tn.outer_inds()) != set(order):
        raise Violation("outer-labels", lost=sorted(set(order) - set(tn.outer_inds()))[:4], gained=0, **info)
    missing = [t for t in alltags if t not in tn.tags]
    if missing:
        raise Violation("tags-lost", missing=missing[:4], **info)
    check_class(cls0, tn, **info)
    if tn.num_tensors != ntens:
        raise Violation("tensor-count", got=tn.num_tensors, want=ntens, **info)
    got = gauged_dense(tn, gauges, order)
    fl = floor * opnorm(actions)
    if case["renorm"] and k == 2:
        # the new singular values are normalised: the state is only defined up to a positive factor
        ng, nr = float(np.linalg.norm(got)), float(np.linalg.norm(ref))
        if nr <= 1e-12 * fl:
            raise Reject("gated state is numerically zero")
        if not ng > 0:
            raise Violation("value", err=1.0, **info)
        e = rel_err(got / ng, ref / nr, floor=1.0)
    else:
        e = rel_err(got, ref, floor=fl)
    if not e <= INV64:
        raise Violation("value", err=e, **info)
    return {"nt": k == 2, "err": e,
            "cls": gate_classes(case["gate"], k) + ["adjacent" if adjacent_pair else ("distant" if k == 2 else "single"), f"renorm={case['renorm']}",
                                                    f"T={case['transpose']}", f"dag={case['dagger']}", "op" if op else "vec",
                                                    f"gauged={sum(case['gauged'])}/{len(case['gauged'])}", "contract=" + case["contract"]]}


# ---------------------------------------------------------------------------
# 18-20. lattices: PEPS, PEPO, PEPS3D (library constructors with explicit seeds)
# ---------------------------------------------------------------------------

@st.composite
def s_lattice(draw, kind):
    if kind == "peps":
        Lx, Ly = draw(st.sampled_from([(2, 2), (2, 3), (3, 2), (3, 3), (1, 3), (2, 2)]))
        d = 2 if Lx * Ly > 6 else draw(st.sampled_from([2, 2, 3]))
        ld = {"shape": [Lx, Ly], "phys": d, "site_ind_id": draw(st.sampled_from(["k{},{}", "k{},{}", "q{}_{}"])),
              "site_tag_id": draw(st.sampled_from(["I{},{}", "I{},{}", "S{},{}"]))}
    elif kind == "pepo":
        Lx, Ly = draw(st.sampled_from([(2, 2), (1, 3), (2, 1), (1, 2)]))
        ld = {"shape": [Lx, Ly], "phys": 2 if Lx * Ly > 3 else draw(st.sampled_from([2, 3])),
              "site_tag_id": draw(st.sampled_from(["I{},{}", "I{},{}", "S{},{}"]))}
        ld["upper_ind_id"], ld["lower_ind_id"] = draw(st.sampled_from([["k{},{}", "b{},{}"], ["u{},{}", "d{},{}"]]))
    else:
        ld = {"shape": list(draw(st.sampled_from([(2, 2, 2), (1, 2, 2), (2, 1, 2), (2, 2, 1)]))), "phys": 2,
              "site_ind_id": draw(st.sampled_from(["k{},{},{}", "q{}_{}_{}"])), "site_tag_id": draw(st.sampled_from(["I{},{},{}", "S{},{},{}"]))}
    ld.update(kind=kind, bond=draw(st.sampled_from([1, 2, 2])), seed=draw(st.integers(0, 2**31 - 1)), dtype=draw(st.sampled_from(A.DTYPES64)))
    return ld


def lattice_sites(ld):
    import itertools

    return list(itertools.product(*[range(x) for x in ld["shape"]]))


def build_lattice(ld):
    Q = qtn()
    kw = dict(bond_dim=ld["bond"], phys_dim=ld["phys"], seed=ld["seed"], dtype=ld["dtype"], site_tag_id=ld["site_tag_id"])
    if ld["kind"] == "peps":
        return Q.PEPS.rand(*ld["shape"], site_ind_id=ld["site_ind_id"], **kw)
    if ld["kind"] == "pepo":
        return Q.PEPO.rand(*ld["shape"], upper_ind_id=ld["upper_ind_id"], lower_ind_id=ld["lower_ind_id"], **kw)
    return Q.PEPS3D.rand(*ld["shape"], site_ind_id=ld["site_ind_id"], **kw)


def lattice_adjacent(ld, a, b):
    return sum(abs(x - y) for x, y in zip(a, b)) == 1


@st.composite
def s_lwhere(draw, ld, k, adj=False):
    sites = lattice_sites(ld)
    k = min(k, len(sites))
    if adj and k == 2:
        pairs = [(i, j) for i in range(len(sites)) for j in range(len(sites)) if lattice_adjacent(ld, sites[i], sites[j])]
        return list(draw(st.sampled_from(pairs)))
    return list(draw(st.permutations(list(range(len(sites))))))[:k]


def lattice_domain(ld, mode, where):
    sites = lattice_sites(ld)
    k = len(where)
    if mode in ("split", "reduce-split"):
        return "ok" if (k == 1 or (k == 2 and lattice_adjacent(ld, sites[where[0]], sites[where[1]]))) else "reject"
    if mode in ("split-gate", "swap-split-gate"):
        return "ok" if k <= 2 else "must-reject"
    return "ok"


# the 2D docstring lists False / True / 'split' / 'reduce-split'; the call is forwarded to the generic gate, whose lazy
# gate-splitting modes are therefore accepted as well (drawn with lower weight)
LATTICE_MODES = [False, True, "split", "reduce-split", False, True, "split", "reduce-split", "split-gate", "swap-split-gate", "auto-split-gate"]


@st.composite
def s_lattice_case(draw, kind):
    ld = draw(s_lattice(kind))
    mode, where = draw(s_mode_where(ld, s_lwhere, modes=LATTICE_MODES))
    c = {"lat": ld, "where": where, "gate": draw(s_gate()), "contract": mode, "tags": draw(st.sampled_from([None, "GATE"])),
         "inplace": draw(st.booleans()), "bare_site": draw(st.booleans()), "cutoff": draw(st.sampled_from(LAZY_CUTOFFS)),
         "absorb": draw(st.sampled_from(["default", "both", "left"]))}
    if kind != "peps3d":
        c["propagate_tags"] = draw(st.sampled_from(["default", "sites", "register", False, True]))
    if kind == "pepo":
        c.update(which=draw(st.sampled_from([None, "sandwich", "upper", "lower"])), transpose=draw(st.booleans()), dagger=draw(st.booleans()))
    return c


def run_lattice(case):
    ld = case["lat"]
    kind = ld["kind"]
    tn = build_lattice(ld)
    sites = lattice_sites(ld)
    n = len(sites)
    dims = [ld["phys"]] * n
    where = list(case["where"])
    k = len(where)
    mode = case["contract"]
    if kind == "pepo":
        order = [ld["upper_ind_id"].format(*x) for x in sites] + [ld["lower_ind_id"].format(*x) for x in sites]
        vdims = dims + dims
    else:
        order = [ld["site_ind_id"].format(*x) for x in sites]
        vdims = dims
    Gm, Garg = build_gate(case["gate"], [dims[w] for w in where])
    before, floor = dense(tn, order), magnitude(tn)
    alltags, ntens, cls0, old_tids = sorted(tn.tags), tn.num_tensors, type(tn), set(tn.tensor_map)
    holder_tags = set()
    if kind != "pepo":
        for w in where:
            for tid in tn.ind_map[order[w]]:
                holder_tags |= set(tn.tensor_map[tid].tags)
    kw = dict(contract=mode, tags=case["tags"])
    if case.get("propagate_tags", "default") != "default":
        kw["propagate_tags"] = case["propagate_tags"]
    if mode in ("split", "reduce-split"):
        kw["cutoff"] = 0.0
        if case["absorb"] != "default":
            kw["absorb"] = case["absorb"]
    elif mode not in (False, True):
        kw["cutoff"] = case["cutoff"]
    if kind == "pepo":
        kw.update(which=case["which"], transpose=case["transpose"], dagger=case["dagger"])
    dom = lattice_domain(ld, mode, where)
    warg = sites[where[0]] if (k == 1 and case["bare_site"]) else tuple(sites[w] for w in where)
    info = dict(entry=kind + ".gate", contract=mode_name(mode), k=k)
    if kind == "pepo":
        info.update(which=str(case["which"]), transpose=case["transpose"], dagger=case["dagger"])

    def call():
        r = tn.gate_(Garg, warg, **kw) if case["inplace"] else tn.gate(Garg, warg, **kw)
        if case["inplace"] and r is not tn:
            raise Violation("inplace-identity", **info)
        return r

    if dom == "ok":
        res = call()
    else:
        with rejecting(ValueError, tag=f"{mode_name(mode)}-domain:"):
            res = call()
        if dom == "must-reject":
            raise Violation("accepted-outside-domain", **info)
    if kind == "pepo":
        actions = operator_actions(Gm, case["which"], case["transpose"], case["dagger"], where, [n + w for w in where])
    else:
        actions = [(Gm, where)]
    e = verify(before, floor, res, order, vdims, actions, keep_tags=alltags + given_tags(case["tags"]), **info)
    check_class(cls0, res, **info)
    if (mode in ("split", "reduce-split") or (mode is True and k == 1)) and res.num_tensors != ntens:
        raise Violation("tensor-count", got=res.num_tensors, want=ntens, **info)
    if mode is False and kind == "peps":
        new = [t for tid, t in res.tensor_map.items() if tid not in old_tids]
        pt = "sites" if case["propagate_tags"] == "default" else case["propagate_tags"]
        want = expected_gate_tags(pt, given_tags(case["tags"]), holder_tags, {ld["site_tag_id"].format(*x) for x in sites},
                                  [ld["site_tag_id"].format(*sites[w]) for w in where])
        if len(new) != 1 or set(new[0].tags) != want:
            raise Violation("gate-tags", got=sorted(new[0].tags) if new else [], want=sorted(want), propagate=str(pt), **info)
    sw = [sites[w] for w in where]
    return {"nt": k >= 2 or mode not in (False, True) or kind == "pepo", "err": e,
            "cls": gate_classes(case["gate"], k) + ["contract=" + mode_name(mode), "domain=" + dom, "shape=" + "x".join(map(str, ld["shape"])),
                                                    f"phys={ld['phys']}"]
            + ([] if k < 2 else ["adjacent" if all(lattice_adjacent(ld, a, b) for a, b in zip(sw, sw[1:])) else "distant",
                                 "sorted" if sw == sorted(sw) else "unsorted"])
            + ([f"which={case['which']}", f"T={case['transpose']}", f"dag={case['dagger']}"] if kind == "pepo" else [])}


# ---------------------------------------------------------------------------
# 21. operator given as a network on (a subset of) the sites: gate_with_op_lazy and the operator-side spellings
# ---------------------------------------------------------------------------

@st.composite
def s_op_lazy(draw, tier):
    target_op = draw(st.booleans())
    gd = draw(s_graph(nmax=5 if target_op else 6, op=target_op))
    n = gd["n"]
    if target_op:
        sub = list(range(n))  # "A, which should have matching structure": same sites
        entry = draw(st.sampled_from(["gate_upper_with_op_lazy", "gate_lower_with_op_lazy", "gate_sandwich_with_op_lazy"]))
    else:
        m = draw(st.integers(1, n))
        sub = sorted(list(draw(st.permutations(list(range(n)))))[:m])
        entry = "gate_with_op_lazy"
    m = len(sub)
    aedges = [list(e) for e in draw(G.graph_edges(m, extra=1))] if m > 1 else []
    return {"graph": gd, "target_op": target_op, "entry": entry, "sub": sub, "aedges": aedges,
            "abdims": [draw(st.sampled_from([1, 2, 3])) for _ in aedges], "aseed": draw(A.seeds), "adtype": draw(st.sampled_from(A.DTYPES64)),
            "flag": draw(st.booleans()), "inplace": draw(st.booleans()), "inplace_op": draw(st.sampled_from([False, False, True])),
            "reuse": draw(st.sampled_from([True, True, True, False])),
            "aids": draw(st.sampled_from([["k{}", "b{}"], ["x{}", "y{}"], ["b{}", "k{}"]]))}


def run_op_lazy(case):
    gd = case["graph"]
    top = case["target_op"]
    tn = build_graph_tn(gd, op=top)
    sites = graph_sites(gd)
    n, dims = gd["n"], gd["dims"]
    sub = list(case["sub"])
    ad = {"n": len(sub), "dims": [dims[i] for i in sub], "edges": case["aedges"], "bdims": case["abdims"], "seed": case["aseed"],
          "dtype": case["adtype"], "names": gd["names"], "site_tag_id": gd["site_tag_id"], "gtag": "OP",
          "upper_ind_id": case["aids"][0], "lower_ind_id": case["aids"][1]}
    Aop = build_graph_tn(ad, op=True, sites=[sites[i] for i in sub], bond_prefix="f")
    aorder = [ad["upper_ind_id"].format(sites[i]) for i in sub] + [ad["lower_ind_id"].format(sites[i]) for i in sub]
    Am = dense(Aop, aorder).reshape(int(np.prod(ad["dims"])), -1)
    afloor = magnitude(Aop)
    if top:
        order = [gd["upper_ind_id"].format(x) for x in sites] + [gd["lower_ind_id"].format(x) for x in sites]
        vdims = dims + dims
    else:
        order = [gd["site_ind_id"].format(x) for x in sites]
        vdims = dims
    before, floor = dense(tn, order), magnitude(tn)
    alltags, cls0, ntens = sorted(tn.tags), type(tn), tn.num_tensors
    entry, flag = case["entry"], case["flag"]
    up, low = sub, [n + i for i in sub]
    if entry == "gate_with_op_lazy":
        kw = {"transpose": flag, "inplace_op": case["inplace_op"]}
        actions = [(Am.T if flag else Am, up)]                      # A x  |  A^T x
    elif entry == "gate_upper_with_op_lazy":
        kw = {"transpose": flag}
        actions = [(Am.T if flag else Am, up)]                      # A B  |  A^T B
    elif entry == "gate_lower_with_op_lazy":
        kw = {"transpose": flag}
        actions = [(Am if flag else Am.T, low)]                     # B A  |  B A^T   (as an action on the lower labels)
    else:
        kw = {"dagger": flag}
        actions = [(Am.conj().T, up), (Am.T, low)] if flag else [(Am, up), (Am.conj(), low)]   # A^dag B A | A B A^dag
    info = dict(entry=entry, flag=flag, subset=len(sub) < n, spelling="_" if case["inplace"] else "plain")
    watch = OpWatch(Aop)

    def apply(x):
        r = getattr(x, entry + ("_" if case["inplace"] else ""))(Aop, **kw)
        if case["inplace"] and r is not x:
            raise Violation("inplace-identity", **info)
        return r

    res = apply(tn)
    scale = afloor / max(float(np.linalg.norm(Am)), 1e-300)
    e = verify(before, floor * scale ** len(actions), res, order, vdims, actions, keep_tags=alltags + ["OP"], **info)
    check_class(cls0, res, **info)
    want_n = ntens + Aop.num_tensors * len(actions)
    if res.num_tensors != want_n:
        raise Violation("tensor-count", got=res.num_tensors, want=want_n, **info)
    reused = False
    if not (entry == "gate_with_op_lazy" and case["inplace_op"]):
        # the operator network is only relabelled in place when inplace_op=True is passed: otherwise it survives the call untouched
        # and unshared ...
        watch.check("after the call", **info)
        watch.check_unshared(res, "after the call", **info)
        if case.get("reuse", True):
            # ... and the very same object can be applied again: to a second receiver and a second time to the first result
            reused = True
            fl = scale ** len(actions)
            tn_b = build_graph_tn(shifted(gd), op=top)
            before_b, floor_b = dense(tn_b, order), magnitude(tn_b)
            res_b = apply(tn_b)
            e = max(e, verify(before_b, floor_b * fl, res_b, order, vdims, actions, keep_tags=alltags + ["OP"], reuse="second receiver", **info))
            e = max(e, verify(before, floor * fl, res, order, vdims, actions, keep_tags=alltags + ["OP"], reuse="first result afterwards", **info))
            mid, mfloor = dense(res, order), magnitude(res)
            res2 = apply(res)
            e = max(e, verify(mid, mfloor * fl, res2, order, vdims, actions, keep_tags=alltags + ["OP"], reuse="twice", **info))
            watch.check("after re-use", **info)
            watch.scribble({id(r): r for r in (res, res_b, res2)}.values(), **info)
    return {"nt": True, "err": e, "cls": ["entry=" + entry, f"flag={flag}", "subset" if len(sub) < n else "all-sites", f"opsites={len(sub)}",
                                          "ids=" + "".join(case["aids"]), "names=" + gd["names"]] + (["reused"] if reused else [])}


# ---------------------------------------------------------------------------
# 22. Dense1D (the single-tensor 1D vector used by the dense circuit simulator)
# ---------------------------------------------------------------------------

@st.composite
def s_dense1d(draw, tier):
    d = draw(st.sampled_from([2, 2, 3]))
    n = draw(st.integers(1, 8 if d == 2 else 5))
    mode = draw(st.sampled_from(ALL_INDS_MODES))
    k = min(n, draw(K123) if mode in (False, True, "auto-split-gate", "split", "reduce-split") else draw(st.sampled_from([1, 2, 2])))
    return {"n": n, "phys": d, "seed": draw(A.seeds), "dtype": draw(st.sampled_from(A.DTYPES64)), "contract": mode,
            "where": list(draw(st.permutations(list(range(n)))))[:k], "gate": draw(s_gate()), "inplace": draw(st.booleans()),
            "site_ind_id": draw(st.sampled_from(["k{}", "q{}"])), "cutoff": draw(st.sampled_from(LAZY_CUTOFFS)),
            "propagate_tags": draw(st.sampled_from(["default", "register", False, True]))}


def run_dense1d(case):
    Q = qtn()
    n, d = case["n"], case["phys"]
    psi = Q.Dense1D(A.rand_state(case["seed"], d ** n, case["dtype"]), phys_dim=d, site_ind_id=case["site_ind_id"])
    where = list(case["where"])
    k = len(where)
    mode = case["contract"]
    order = [case["site_ind_id"].format(i) for i in range(n)]
    dims = [d] * n
    Gm, Garg = build_gate(case["gate"], [d] * k)
    before, floor = dense(psi, order), magnitude(psi)
    alltags, cls0 = sorted(psi.tags), type(psi)
    kw = dict(contract=mode)
    if case["propagate_tags"] != "default":
        kw["propagate_tags"] = case["propagate_tags"]
    if mode in ("split", "reduce-split"):
        kw["cutoff"] = 0.0
    elif mode not in (False, True):
        kw["cutoff"] = case["cutoff"]
    info = dict(entry="Dense1D.gate", contract=mode_name(mode), k=k)
    res = psi.gate_(Garg, tuple(where), **kw) if case["inplace"] else psi.gate(Garg, tuple(where), **kw)
    e = verify(before, floor, res, order, dims, [(Gm, where)], keep_tags=alltags, **info)
    check_class(cls0, res, **info)
    if mode in (True, "split", "reduce-split") and res.num_tensors != 1:
        # every target lives on the single tensor: documented as "contracted like True"
        raise Violation("tensor-count", got=res.num_tensors, want=1, **info)
    return {"nt": k >= 2, "err": e, "cls": gate_classes(case["gate"], k) + ["contract=" + mode_name(mode), f"n={n}", f"phys={d}",
                                                                          "sorted" if where == sorted(where) else "unsorted"]}


SUBCHECKS = [
    SubCheck("tensor_gate", run_tensor_gate, s_tensor_gate, examples=(150, 3000), shards=(1, 4),
             rule="Tensor.gate / gate_ on one label of a rank 1-3 tensor, transpose (and its deprecated alias), preserve_inds; "
                  "nt: transpose or preserve_inds=False"),
    SubCheck("inds_basic", run_inds_basic, s_inds_basic, examples=(300, 6000), shards=(1, 4),
             rule="gate_inds(contract=False/True) on generic labelled networks, 1-3 target labels in any order; nt: >=2 labels or transpose/dagger"),
    SubCheck("inds_split", run_inds_split, s_inds_split, examples=(300, 6000), shards=(1, 4),
             rule="gate_inds(contract='split'/'reduce-split', cutoff=0) with absorb/method options; nt: two targets on two tensors sharing exactly one bond"),
    SubCheck("inds_splitgate", run_inds_splitgate, s_inds_splitgate, examples=(300, 6000), shards=(1, 4),
             rule="gate_inds(contract='split-gate'/'swap-split-gate'/'auto-split-gate', cutoff 0 or 1e-12); nt: two target labels"),
    SubCheck("inds_str", run_inds_str, s_inds_str, examples=(80, 1000), shards=(1, 2),
             rule="gate_inds / gate_inds_with_tn / gate_sandwich_inds with the single target given as a bare string (documented 'str or "
                  "sequence of str'); nt: the label has more than one character"),
    SubCheck("inds_with_tn", run_inds_with_tn, s_inds_with_tn, examples=(250, 5000), shards=(1, 4),
             rule="gate_inds_with_tn with the gate given as Tensor / one-tensor / two-layer / MPO-chain network, incl. the documented "
                  "case of targets the network does not own; nt: >=2 targets or >=2 gate tensors"),
    SubCheck("sandwich_inds", run_sandwich_inds, s_sandwich_inds, examples=(300, 6000), shards=(1, 4),
             rule="gate_sandwich_inds (G X G^dag; dagger: G^dag X G; transpose: G^T X conj(G)) on generic operator-like networks, all 7 "
                  "contract modes, 1-3 (upper, lower) pairs in any order; all nt (two operators are applied)"),
    SubCheck("mps_gate", run_mps_gate, s_mps_gate, examples=(400, 8000), shards=(1, 4),
             rule="MatrixProductState.gate on seeded open/periodic MPS with mixed physical dimensions, all 10 contract modes, 1-3 sites in "
                  "any order, tags / propagate_tags (documented tag set of the lazy gate tensor), receivers optionally pre-gated; "
                  "nt: >=2 sites or a mode other than False/True"),
    SubCheck("mps_gate_split", run_mps_gate_split, s_mps_gate_split, examples=(200, 4000), shards=(1, 4),
             rule="MatrixProductState.gate_split on an adjacent pair in either order (incl. the periodic bond), absorb/method/cutoff_mode options; all nt"),
    SubCheck("mps_auto_swap", run_mps_auto_swap, s_mps_auto_swap, examples=(250, 5000), shards=(1, 4),
             rule="gate_with_auto_swap on any ordered pair, swap_back True/False (documented final site permutation), cur_orthog/info variants; all nt"),
    SubCheck("mps_nonlocal", run_mps_nonlocal, s_mps_nonlocal, examples=(250, 5000), shards=(1, 4),
             rule="gate_nonlocal on 1-4 sites in any order, methods direct/lazy/dm/zipup/zipup-first (cutoff=0), transpose, dims given or not; "
                  "nt: >=2 sites or transpose"),
    SubCheck("mps_submpo", run_mps_submpo, s_mps_submpo, examples=(250, 5000), shards=(1, 4),
             rule="gate_with_submpo / gate_with_mpo with a seeded (sub-)MPO on a sorted subset of sites (with gaps), where given or inferred, "
                  "transpose, 5 methods; all nt"),
    SubCheck("mpo_gate", run_mpo_gate, s_mpo_gate, examples=(400, 8000), shards=(1, 4),
             rule="MatrixProductOperator.gate / gate_upper / gate_lower / gate_sandwich: which x 7 contract modes x dagger/transpose on seeded "
                  "open/periodic MPOs with mixed dimensions, 1-3 sites in any order; all nt (operator-side semantics)"),
    SubCheck("mpo_auto_swap", run_mpo_auto_swap, s_mpo_auto_swap, examples=(200, 4000), shards=(1, 4),
             rule="MatrixProductOperator.gate_sandwich_with_auto_swap on any ordered pair: dagger, swap_back True/False, strip_exponent, "
                  "contract split/reduce-split, absorb; all nt"),
    SubCheck("ag_vector_gate", run_ag_vector, s_ag_vector, examples=(400, 8000), shards=(1, 4),
             rule="TensorNetworkGenVector.gate on seeded random connected graphs (tree/loopy, int/str/tuple site names, mixed dims): 7 modes x "
                  "transpose/dagger x propagate_tags (documented tag set of the lazy gate tensor); nt: >=2 sites or transpose/dagger or a split mode"),
    SubCheck("ag_operator_gate", run_ag_operator, s_ag_operator, examples=(400, 8000), shards=(1, 4),
             rule="TensorNetworkGenOperator.gate: which None/sandwich/both/upper/lower x 7 modes x transpose/dagger, tags_upper/tags_lower; all nt"),
    SubCheck("ag_gate_simple", run_ag_simple, s_ag_simple, examples=(300, 6000), shards=(1, 4),
             rule="gate_simple_ with (partial) bond gauges on vectors and operators: nearest-neighbour and long-range path, renorm on (compared "
                  "up to the positive normalisation) / off, transpose/dagger; state = network with gauges inserted; tolerance INV64; nt: 2 sites"),
    SubCheck("peps_gate", run_lattice, lambda tier: s_lattice_case("peps"), examples=(300, 6000), shards=(1, 4),
             rule="PEPS.gate on 1x3 ... 3x3 lattices (D<=2, d 2/3): False/True/split/reduce-split (+ forwarded lazy split modes), 1-3 sites in "
                  "any order, adjacent or distant, propagate_tags tag set; nt: >=2 sites or a split mode"),
    SubCheck("pepo_gate", run_lattice, lambda tier: s_lattice_case("pepo"), examples=(250, 5000), shards=(1, 4),
             rule="PEPO.gate (sandwich / upper / lower, transpose / dagger) on lattices up to 2x2; all nt"),
    SubCheck("peps3d_gate", run_lattice, lambda tier: s_lattice_case("peps3d"), examples=(200, 4000), shards=(1, 4),
             rule="PEPS3D.gate on lattices up to 2x2x2 (D<=2): all gate_inds modes, 1-3 sites; nt: >=2 sites or a split mode"),
    SubCheck("op_lazy", run_op_lazy, s_op_lazy, examples=(250, 5000), shards=(1, 4),
             rule="operator given as a seeded arbitrary-graph operator network: gate_with_op_lazy on vectors (operator on a subset of the sites, "
                  "transpose) and gate_upper/lower/sandwich_with_op_lazy on operators (transpose / dagger); all nt"),
    SubCheck("dense1d_gate", run_dense1d, s_dense1d, examples=(150, 3000), shards=(1, 4),
             rule="Dense1D.gate (single-tensor 1D vector, up to 8 qubits / 5 qutrits): 7 modes, 1-3 sites in any order; nt: >=2 sites"),
]
