"""C20 — entanglement / information measures satisfy their defining identities.

Every sub-check is one public entry point (or one family) of quimb/calc.py,
quimb/core.py (partial trace users) and quimb/linalg/approx_spectral.py.  Three
kinds of clause per sub-check: (1) definition: the returned value equals the
textbook formula evaluated here with numpy.linalg.eigvalsh / svd only,
(2) metamorphic: invariance under random local unitaries and subsystem
relabelling, ket == projector, dense == sparse, exact == subsystem shortcut ==
approx_spectral, (3) bounds.  Conventions are taken from the docstrings:
entropies / logneg are base 2, fidelity is UNSQUARED by default.
"""
from __future__ import annotations

import math

import numpy as np
from hypothesis import strategies as st

from .. import arrays as A
from ..core import EXACT64, INV64, Reject, SubCheck, Violation, rejecting, rel_err
from ..oracle import embed, kron_all, ptrace

RULE = ("cases are pure/mixed states built from a drawn seed over drawn dims lists (2-5 subsystems of dim 2-4, D<=256; "
        "kinds: haar, product, two-term GHZ-like, basis kets; wishart rank 1..D, product, werner, maximally mixed, "
        "projector, diagonal density operators; real and complex) x drawn subsystem choices (ordered random subsets, so "
        "non-contiguous and reordered) x drawn local unitaries / subsystem permutations; oracle = textbook formula with "
        "numpy eigvalsh/svd; non-trivial = stated per sub-check (typically: entangled or rank>=2 state and a subsystem "
        "choice that is non-contiguous or reordered, or a metamorphic transform applied)")
ASSUMPTIONS = [
    "numpy.linalg.eigvalsh / svd / eigh are the trusted linear algebra",
    "states are normalised (documented precondition of purify, simulate_counts, measure)",
    "quantities that take the square root of a spectrum (tr_sqrt, pure-state logneg, fidelity, concurrence) are compared "
    "at SQRT64=1e-5: an exactly-zero eigenvalue returned as +1e-17 contributes 3e-9",
    "negativity's docstring sentence 'non-target dimensions will be traced out first' cannot apply (there is no sysb); "
    "the bipartition reading shared with logneg (whose docstring says so) is used",
    "approx_spectral results are compared with |err| <= 0.1*(|exact|+1) (10x the documented default tol=1e-2 with tol_scale=1) "
    "on operators of dimension >= 8 (on 2-4 dimensional operators the Rademacher estimator is off by 30%) with quimb's generator seeded from the case",
    "measure / dephase(rand_rank) draw from numpy's global generator: it is seeded from the case immediately before the call",
]

SQRT64 = 1e-5
CHOICES = (2, 3, 4)


def Q():
    import quimb as qu

    return qu


# ---------------------------------------------------------------------------
# numpy-only reference formulas
# ---------------------------------------------------------------------------

def herm(m):
    m = np.asarray(m, dtype=np.complex128)
    return (m + m.conj().T) / 2


def H2(ev):
    ev = np.asarray(ev, dtype=float)
    ev = ev[ev > 0]
    return float(-np.sum(ev * np.log2(ev)))


def o_entropy(rho):
    return H2(np.linalg.eigvalsh(herm(rho)))


def o_dop(x):
    x = np.asarray(x, dtype=np.complex128)
    if x.ndim == 1:
        return np.outer(x, x.conj())
    return x


def o_rdm(x, dims, keep):
    """reduced state on `keep`, in the ORDER of keep."""
    return ptrace(np.asarray(x, dtype=np.complex128), list(dims), list(keep))


def o_schmidt(psi, dims, sysa):
    """singular values of the ket across sysa | rest."""
    n = len(dims)
    sysa = list(sysa)
    rest = [i for i in range(n) if i not in sysa]
    t = np.asarray(psi, dtype=np.complex128).reshape(dims).transpose(sysa + rest)
    da = int(np.prod([dims[i] for i in sysa])) if sysa else 1
    return np.linalg.svd(t.reshape(da, -1), compute_uv=False)


def o_pt(rho, dims, sysa):
    n = len(dims)
    dims = list(dims)
    r = np.asarray(rho, dtype=np.complex128).reshape(dims + dims)
    perm = list(range(2 * n))
    for i in sysa:
        perm[i], perm[i + n] = i + n, i
    D = int(np.prod(dims))
    return r.transpose(perm).reshape(D, D)


def o_ptnorm(rho, dims, sysa):
    return float(np.sum(np.abs(np.linalg.eigvalsh(herm(o_pt(rho, dims, sysa))))))


def o_logneg(rho, dims, sysa):
    return max(0.0, math.log2(o_ptnorm(rho, dims, sysa)))


def o_neg(rho, dims, sysa):
    return max(0.0, (o_ptnorm(rho, dims, sysa) - 1) / 2)


def o_mutinf(x, dims, sysa, sysb):
    rho = o_dop(x)
    return (o_entropy(o_rdm(rho, dims, sysa)) + o_entropy(o_rdm(rho, dims, sysb))
            - o_entropy(o_rdm(rho, dims, list(sysa) + list(sysb))))


def o_sqrtm(rho):
    w, v = np.linalg.eigh(herm(rho))
    return (v * np.sqrt(np.clip(w, 0, None))) @ v.conj().T


def o_fidelity(a, b):
    """unsquared Uhlmann fidelity tr sqrt( sqrt(a) b sqrt(a) ) = || sqrt(a) sqrt(b) ||_1."""
    a = np.asarray(a, dtype=np.complex128)
    b = np.asarray(b, dtype=np.complex128)
    if a.ndim == 1 and b.ndim == 1:
        return float(abs(np.vdot(a, b)))
    if a.ndim == 1:
        return float(math.sqrt(max(0.0, np.real(np.vdot(a, b @ a)))))
    if b.ndim == 1:
        return float(math.sqrt(max(0.0, np.real(np.vdot(b, a @ b)))))
    return float(np.sum(np.linalg.svd(o_sqrtm(a) @ o_sqrtm(b), compute_uv=False)))


def o_tracedist(a, b):
    return 0.5 * float(np.sum(np.abs(np.linalg.eigvalsh(herm(o_dop(a) - o_dop(b))))))


SY = np.array([[0, -1j], [1j, 0]])
SX = np.array([[0, 1], [1, 0]], dtype=complex)
SZ = np.array([[1, 0], [0, -1]], dtype=complex)
S0 = np.eye(2, dtype=complex)
PAULI = {"I": S0, "X": SX, "Y": SY, "Z": SZ}


def o_concurrence(rho):
    """Wootters: sqrt(eigs of rho rho~) == singular values of sqrt(rho)^T (Y x Y) sqrt(rho)."""
    yy = np.kron(SY, SY)
    s = o_sqrtm(rho)
    sv = np.linalg.svd(s.T @ yy @ s, compute_uv=False)
    return max(0.0, float(sv[0] - np.sum(sv[1:])))


# ---------------------------------------------------------------------------
# states, transforms
# ---------------------------------------------------------------------------

def rvec(rng, d, real):
    x = rng.normal(size=d)
    if not real:
        x = x + 1j * rng.normal(size=d)
    return x / np.linalg.norm(x)


def rrho(rng, d, rank, real):
    a = rng.normal(size=(d, rank))
    if not real:
        a = a + 1j * rng.normal(size=(d, rank))
    r = a @ a.conj().T
    return r / np.trace(r).real


def runitary(rng, d, real=False):
    g = rng.normal(size=(d, d))
    if not real:
        g = g + 1j * rng.normal(size=(d, d))
    q, r = np.linalg.qr(g)
    ph = np.diag(r) / np.abs(np.diag(r))
    return q * ph


KET_KINDS = ("haar", "haar", "haar", "product", "ghz2", "basis")
RHO_KINDS = ("wishart", "wishart", "wishart", "wishart", "product", "werner", "maxmixed", "proj", "diag")


def make_state(desc, dims):
    """-> (array [vector (D,) or matrix (D,D)], meta dict).  Pure function of desc."""
    dims = [int(d) for d in dims]
    D = int(np.prod(dims))
    rng = np.random.default_rng(int(desc["seed"]))
    kind = desc["kind"]
    real = bool(desc.get("real"))
    meta = {"pure": kind in KET_KINDS, "product": False, "rank": None, "kind": kind}
    if kind == "haar":
        x = rvec(rng, D, real)
    elif kind == "product":
        x = np.array([1.0])
        for d in dims:
            x = np.kron(x, rvec(rng, d, real))
        meta["product"] = True
    elif kind == "ghz2":
        x1 = np.array([1.0])
        x2 = np.array([1.0])
        for d in dims:
            u = runitary(rng, d, real)
            x1 = np.kron(x1, u[:, 0])
            x2 = np.kron(x2, u[:, 1])
        c = rvec(rng, 2, real)
        x = c[0] * x1 + c[1] * x2
        x = x / np.linalg.norm(x)
    elif kind == "basis":
        x = np.zeros(D, dtype=float if real else complex)
        x[int(rng.integers(D))] = 1.0
        meta["product"] = True
    elif kind == "wishart":
        r = max(1, min(D, int(desc.get("rank") or D)))
        x = rrho(rng, D, r, real)
        meta["rank"] = r
    elif kind == "rho_product":
        x = np.array([[1.0]])
        for d in dims:
            x = np.kron(x, rrho(rng, d, int(rng.integers(1, d + 1)), real))
        meta["product"] = True
    elif kind == "werner":
        v = rvec(rng, D, real)
        p = float(rng.uniform(0.05, 0.95))
        x = p * np.outer(v, v.conj()) + (1 - p) * np.eye(D) / D
        meta["rank"] = D
    elif kind == "maxmixed":
        x = np.eye(D, dtype=float if real else complex) / D
        meta["product"] = True
        meta["rank"] = D
    elif kind == "proj":
        v = rvec(rng, D, real)
        x = np.outer(v, v.conj())
        meta["rank"] = 1
    elif kind == "diag":
        p = rng.dirichlet(np.ones(D))
        x = np.diag(p).astype(float if real else complex)
        meta["product"] = False
    else:
        raise AssertionError(kind)
    if kind in KET_KINDS:
        meta["rank"] = 1
    return x, meta


def to_q(x, sparse=False, real=False):
    """numpy -> quimb object through the documented constructor."""
    qu = Q()
    x = np.asarray(x)
    kw = {}
    if real and not np.iscomplexobj(x):
        kw["dtype"] = "float64"
    if sparse:
        kw["sparse"] = True
    return qu.qu(x, qtype="ket" if x.ndim == 1 else "dop", **kw)


def apply_unitary(x, W):
    return W @ x if x.ndim == 1 else W @ x @ W.conj().T


def local_unitary(seed, dims, real=False):
    rng = np.random.default_rng(int(seed))
    return kron_all([runitary(rng, d, real) for d in dims])


def permute_sys(x, dims, perm):
    """new subsystem i = old subsystem perm[i]."""
    dims = list(dims)
    n = len(dims)
    perm = list(perm)
    D = int(np.prod(dims))
    if x.ndim == 1:
        return x.reshape(dims).transpose(perm).reshape(D)
    return x.reshape(dims + dims).transpose(perm + [n + p for p in perm]).reshape(D, D)


def relabel(sys_, perm):
    perm = list(perm)
    return [perm.index(a) for a in sys_]


def transform(x, dims, tcase):
    """apply the drawn metamorphic transform: local unitaries then a relabelling."""
    dims = list(dims)
    if tcase.get("useed") is not None:
        x = apply_unitary(x, local_unitary(tcase["useed"], dims))
    perm = tcase.get("perm") or list(range(len(dims)))
    return permute_sys(x, dims, perm), [dims[p] for p in perm], perm


def contiguous(s):
    s = sorted(s)
    return all(b - a == 1 for a, b in zip(s, s[1:]))


def sys_classes(*syss):
    c = []
    for s in syss:
        if not contiguous(s):
            c.append("noncontig")
        if list(s) != sorted(s):
            c.append("reordered")
    return sorted(set(c))


def close(got, want, tol, reason, floor=1.0, **info):
    try:
        g = np.asarray(got, dtype=np.complex128)
    except Exception:
        raise Violation(reason + "-type", got=repr(type(got)), **info)
    e = rel_err(g, np.asarray(want, dtype=np.complex128), floor=floor)
    if not e <= tol:
        raise Violation(reason, err=float(e), tol=tol, **info)
    return e


def real_scalar(v, reason, **info):
    """the measure must come back as a real finite scalar."""
    try:
        c = complex(v)
    except Exception:
        raise Violation(reason + "-type", got=repr(type(v)), **info)
    if not np.isfinite(c.real) or abs(c.imag) > 1e-9:
        raise Violation(reason + "-notreal", got=[c.real, c.imag], **info)
    return float(c.real)


# ---------------------------------------------------------------------------
# strategies
# ---------------------------------------------------------------------------

@st.composite
def s_dims(draw, nmin=2, nmax=5, maxD=256, choices=CHOICES):
    n = draw(st.integers(nmin, nmax))
    dims, p = [], 1
    for i in range(n):
        rem = n - i - 1
        allowed = [d for d in choices if p * d * (min(choices) ** rem) <= maxD]
        d = draw(st.sampled_from(allowed))
        dims.append(d)
        p *= d
    return dims


@st.composite
def s_state(draw, D, pure=None, kinds=None):
    if pure is None:
        pure = draw(st.booleans())
    if kinds is None:
        kinds = KET_KINDS if pure else RHO_KINDS
    kind = draw(st.sampled_from(kinds))
    if kind == "product" and not pure:
        kind = "rho_product"
    ranks = sorted({1, 2, 3, max(1, D // 2), max(1, D - 1), D})
    return {"kind": kind, "seed": draw(A.seeds), "rank": min(D, draw(st.sampled_from(ranks))), "real": draw(st.booleans())}


@st.composite
def s_subsets(draw, n, k=1, allow_all=False):
    """k disjoint non-empty ordered subsets of range(n) (random order => reordered / non-contiguous).
    For k == 1 the subset is proper unless allow_all; for k >= 2 the union may cover everything."""
    perm = list(draw(st.permutations(list(range(n)))))
    maxtot = n if (allow_all or k > 1) else n - 1
    out, used = [], 0
    for j in range(k):
        hi = maxtot - used - (k - j - 1)
        sz = draw(st.integers(1, max(1, hi)))
        out.append(perm[used:used + sz])
        used += sz
    return out


@st.composite
def s_transform(draw, n):
    t = {}
    if draw(st.booleans()):
        t["useed"] = draw(A.seeds)
    else:
        t["useed"] = None
    t["perm"] = list(draw(st.permutations(list(range(n))))) if draw(st.booleans()) else None
    return t


def t_classes(t):
    c = []
    if t.get("useed") is not None:
        c.append("LU")
    if t.get("perm") and list(t["perm"]) != sorted(t["perm"]):
        c.append("relabel")
    return c


def arg_sys(s, as_int):
    """single-element choices may be passed as a bare int (documented form)."""
    return int(s[0]) if (as_int and len(s) == 1) else tuple(int(i) for i in s)


# ---------------------------------------------------------------------------
# 1. entropy
# ---------------------------------------------------------------------------

@st.composite
def s_entropy(draw, tier):
    dims = draw(s_dims(1, 4, maxD=64))
    D = int(np.prod(dims))
    return {"dims": dims, "state": draw(s_state(D, pure=False)),
            "mode": draw(st.sampled_from(["op", "op", "evals", "rank", "unitary"])),
            "extra": draw(st.integers(0, 3)), "useed": draw(A.seeds)}


def run_entropy(case):
    qu = Q()
    dims = case["dims"]
    D = int(np.prod(dims))
    x, meta = make_state(case["state"], dims)
    ref = o_entropy(x)
    mode = case["mode"]
    tol = EXACT64
    if mode == "op":
        got = qu.entropy(to_q(x, real=case["state"]["real"]))
    elif mode == "evals":
        ev = np.clip(np.linalg.eigvalsh(herm(x)), 0, None)
        got = qu.entropy(ev)
    elif mode == "rank":
        if meta["rank"] is None:
            raise Reject("rank not known by construction")
        k = min(D, meta["rank"] + case["extra"])
        got = qu.entropy(to_q(x), rank=k)
        tol = INV64  # partial eigensolver at its own tolerance
    else:
        W = runitary(np.random.default_rng(case["useed"]), D)
        got = qu.entropy(to_q(apply_unitary(x, W)))
    got = real_scalar(got, "entropy", mode=mode)
    e = close(got, ref, tol, "definition", fn="entropy", mode=mode)
    if got < -1e-12 or got > math.log2(D) + 1e-9:
        raise Violation("bound", fn="entropy", got=got, D=D)
    return {"nt": (meta["rank"] or 2) >= 2, "cls": ["mode=" + mode, "kind=" + meta["kind"]], "err": e}


# ---------------------------------------------------------------------------
# 2. entropy_subsys (pure states)
# ---------------------------------------------------------------------------

@st.composite
def s_entropy_subsys(draw, tier):
    dims = draw(s_dims(2, 5, maxD=256))
    n = len(dims)
    (sysa,) = draw(s_subsets(n, 1, allow_all=draw(st.integers(0, 9)) == 0))
    return {"dims": dims, "state": draw(s_state(int(np.prod(dims)), pure=True)), "sysa": sysa,
            "as_int": draw(st.booleans()), "thresh": draw(st.sampled_from(["default", "none"])),
            "t": draw(s_transform(n))}


def run_entropy_subsys(case):
    qu = Q()
    dims, sysa = case["dims"], case["sysa"]
    n = len(dims)
    x, meta = make_state(case["state"], dims)
    sv = o_schmidt(x, dims, sysa)
    ref = H2(sv ** 2)
    kw = {} if case["thresh"] == "default" else {"approx_thresh": None}
    real = case["state"]["real"]
    got = real_scalar(qu.entropy_subsys(to_q(x, real=real), tuple(dims), arg_sys(sysa, case["as_int"]), **kw), "entropy_subsys")
    e = close(got, ref, EXACT64, "definition", fn="entropy_subsys")
    rest = [i for i in range(n) if i not in sysa]
    if rest:
        gb = real_scalar(qu.entropy_subsys(to_q(x), tuple(dims), tuple(rest), **kw), "entropy_subsys")
        e = max(e, close(gb, got, EXACT64, "pure-SA=SB", fn="entropy_subsys"))
        ge = real_scalar(qu.entropy(qu.ptr(to_q(x), tuple(dims), tuple(sysa))), "entropy")
        e = max(e, close(ge, got, EXACT64, "shortcut==exact", fn="entropy_subsys"))
    elif got != 0.0:
        raise Violation("pure-whole", fn="entropy_subsys", got=got)
    y, d2, perm = transform(x, dims, case["t"])
    g2 = real_scalar(qu.entropy_subsys(to_q(y), tuple(d2), tuple(relabel(sysa, perm)), **kw), "entropy_subsys")
    e = max(e, close(g2, ref, EXACT64, "invariance", fn="entropy_subsys", t=t_classes(case["t"])))
    da = int(np.prod([dims[i] for i in sysa]))
    if got < -1e-12 or got > math.log2(min(da, int(np.prod(dims)) // da)) + 1e-9:
        raise Violation("bound", fn="entropy_subsys", got=got)
    if meta["product"] and abs(got) > 1e-9:
        raise Violation("product-zero", fn="entropy_subsys", got=got)
    return {"nt": not meta["product"] and bool(rest) and (n >= 3),
            "cls": ["kind=" + meta["kind"]] + sys_classes(sysa) + t_classes(case["t"]), "err": e}


# ---------------------------------------------------------------------------
# 3. mutinf (bipartition sysa | rest of a ket or density operator)
# ---------------------------------------------------------------------------

@st.composite
def s_mutinf(draw, tier):
    pure = draw(st.integers(0, 3)) == 0
    dims = draw(s_dims(2, 5, maxD=256 if pure else 64))
    n = len(dims)
    (sysa,) = draw(s_subsets(n, 1))
    return {"dims": dims, "state": draw(s_state(int(np.prod(dims)), pure=pure)), "sysa": sysa,
            "as_int": draw(st.booleans()), "use_rank": draw(st.integers(0, 3)) == 0, "t": draw(s_transform(n))}


def run_mutinf(case):
    qu = Q()
    dims, sysa = case["dims"], case["sysa"]
    n = len(dims)
    D = int(np.prod(dims))
    rest = [i for i in range(n) if i not in sysa]
    x, meta = make_state(case["state"], dims)
    ref = o_mutinf(x, dims, sysa, rest)
    kw = {}
    tol = EXACT64
    if case["use_rank"] and not meta["pure"] and meta["rank"] is not None:
        kw["rank"] = meta["rank"]
        tol = INV64
    real = case["state"]["real"]
    got = real_scalar(qu.mutinf(to_q(x, real=real), tuple(dims), arg_sys(sysa, case["as_int"]), **kw), "mutinf")
    e = close(got, ref, tol, "definition", fn="mutinf", pure=meta["pure"], rank_opt="rank" in kw)
    if meta["pure"]:
        gp = real_scalar(qu.mutinf(to_q(o_dop(x)), tuple(dims), tuple(sysa)), "mutinf")
        e = max(e, close(gp, got, 1e-8, "ket==projector", fn="mutinf"))
        s = H2(o_schmidt(x, dims, sysa) ** 2)
        e = max(e, close(got, 2 * s, EXACT64, "pure-I=2S", fn="mutinf"))
    gs = real_scalar(qu.mutinf(to_q(x), tuple(dims), tuple(rest)), "mutinf")
    e = max(e, close(gs, got, tol, "symmetry", fn="mutinf"))
    y, d2, perm = transform(x, dims, case["t"])
    g2 = real_scalar(qu.mutinf(to_q(y), tuple(d2), tuple(relabel(sysa, perm))), "mutinf")
    e = max(e, close(g2, ref, EXACT64, "invariance", fn="mutinf", t=t_classes(case["t"])))
    da = int(np.prod([dims[i] for i in sysa]))
    if got < -1e-9 or got > 2 * math.log2(min(da, D // da)) + 1e-9:
        raise Violation("bound", fn="mutinf", got=got)
    if meta["product"] and abs(got) > 1e-9:
        raise Violation("product-zero", fn="mutinf", got=got)
    return {"nt": not meta["product"] and n >= 3 and (meta["pure"] or (meta["rank"] or 2) >= 2),
            "cls": ["kind=" + meta["kind"]] + sys_classes(sysa) + t_classes(case["t"]) + (["rank-opt"] if kw else []), "err": e}


# ---------------------------------------------------------------------------
# 4. mutinf_subsys (two subsystems of a pure state)
# ---------------------------------------------------------------------------

@st.composite
def s_two_subsys(draw, tier):
    dims = draw(s_dims(2, 5, maxD=256))
    n = len(dims)
    sysa, sysb = draw(s_subsets(n, 2))
    return {"dims": dims, "state": draw(s_state(int(np.prod(dims)), pure=True)), "sysa": sysa, "sysb": sysb,
            "as_int": draw(st.booleans()), "thresh": draw(st.sampled_from(["default", "none"])), "t": draw(s_transform(n))}


def sub_positions(dims, sysa, sysb):
    """dims of the sorted union and the positions of sysa / sysb inside it."""
    ab = sorted(list(sysa) + list(sysb))
    return [dims[i] for i in ab], [ab.index(i) for i in sysa], [ab.index(i) for i in sysb], ab


def run_mutinf_subsys(case):
    qu = Q()
    dims, sysa, sysb = case["dims"], case["sysa"], case["sysb"]
    n = len(dims)
    x, meta = make_state(case["state"], dims)
    ref = o_mutinf(x, dims, sysa, sysb)
    kw = {} if case["thresh"] == "default" else {"approx_thresh": None}
    ai = case["as_int"]
    got = real_scalar(qu.mutinf_subsys(to_q(x, real=case["state"]["real"]), tuple(dims), arg_sys(sysa, ai), arg_sys(sysb, ai), **kw), "mutinf_subsys")
    e = close(got, ref, EXACT64, "definition", fn="mutinf_subsys", covers=len(sysa) + len(sysb) == n)
    gs = real_scalar(qu.mutinf_subsys(to_q(x), tuple(dims), tuple(sysb), tuple(sysa), **kw), "mutinf_subsys")
    e = max(e, close(gs, got, EXACT64, "symmetry", fn="mutinf_subsys"))
    dab, pa, pb, ab = sub_positions(dims, sysa, sysb)
    if len(ab) < n:
        rab = qu.ptr(to_q(x), tuple(dims), tuple(ab))
        ge = real_scalar(qu.mutinf(rab, tuple(dab), tuple(pa)), "mutinf")
    else:
        ge = real_scalar(qu.mutinf(to_q(x), tuple(dims), tuple(sysa)), "mutinf")
    e = max(e, close(ge, got, 1e-8, "shortcut==exact", fn="mutinf_subsys"))
    y, d2, perm = transform(x, dims, case["t"])
    g2 = real_scalar(qu.mutinf_subsys(to_q(y), tuple(d2), tuple(relabel(sysa, perm)), tuple(relabel(sysb, perm)), **kw), "mutinf_subsys")
    e = max(e, close(g2, ref, EXACT64, "invariance", fn="mutinf_subsys", t=t_classes(case["t"])))
    if got < -1e-9:
        raise Violation("bound", fn="mutinf_subsys", got=got)
    if meta["product"] and abs(got) > 1e-9:
        raise Violation("product-zero", fn="mutinf_subsys", got=got)
    return {"nt": not meta["product"] and n >= 3 and bool(sys_classes(sysa, sysb, list(sysa) + list(sysb))),
            "cls": ["kind=" + meta["kind"], "tripartite" if len(ab) < n else "bipartite"] + sys_classes(sysa, sysb, list(sysa) + list(sysb))
            + t_classes(case["t"]), "err": e}


# ---------------------------------------------------------------------------
# 5. partial_transpose
# ---------------------------------------------------------------------------

@st.composite
def s_ptranspose(draw, tier):
    pure = draw(st.integers(0, 3)) == 0
    dims = draw(s_dims(2, 5, maxD=64))
    n = len(dims)
    (sysa,) = draw(s_subsets(n, 1, allow_all=draw(st.integers(0, 9)) == 0))
    return {"dims": dims, "state": draw(s_state(int(np.prod(dims)), pure=pure)), "sysa": sysa, "as_int": draw(st.booleans())}


def run_ptranspose(case):
    qu = Q()
    dims, sysa = case["dims"], case["sysa"]
    n = len(dims)
    x, meta = make_state(case["state"], dims)
    rho = o_dop(x)
    ref = o_pt(rho, dims, sysa)
    got = qu.partial_transpose(to_q(x, real=case["state"]["real"]), tuple(dims), arg_sys(sysa, case["as_int"]))
    e = close(np.asarray(got), ref, EXACT64, "definition", fn="partial_transpose")
    back = qu.partial_transpose(got, tuple(dims), tuple(sysa))
    e = max(e, close(np.asarray(back), rho, EXACT64, "involution", fn="partial_transpose"))
    rest = [i for i in range(n) if i not in sysa]
    if rest:
        gb = qu.partial_transpose(to_q(x), tuple(dims), tuple(rest))
        e = max(e, close(np.asarray(gb).T, np.asarray(got), EXACT64, "PT_A==(PT_B)^T", fn="partial_transpose"))
    return {"nt": not meta["product"] and n >= 3, "cls": ["kind=" + meta["kind"]] + sys_classes(sysa), "err": e}


# ---------------------------------------------------------------------------
# 6. negativity / logneg of a bipartition
# ---------------------------------------------------------------------------

@st.composite
def s_neg(draw, tier):
    pure = draw(st.integers(0, 2)) == 0
    dims = draw(s_dims(2, 5, maxD=256 if pure else 64))
    n = len(dims)
    (sysa,) = draw(s_subsets(n, 1))
    return {"dims": dims, "state": draw(s_state(int(np.prod(dims)), pure=pure)), "sysa": sysa,
            "as_int": draw(st.booleans()), "fn": draw(st.sampled_from(["logneg", "negativity"])), "t": draw(s_transform(n))}


def run_neg(case):
    qu = Q()
    dims, sysa = case["dims"], case["sysa"]
    n = len(dims)
    D = int(np.prod(dims))
    rest = [i for i in range(n) if i not in sysa]
    x, meta = make_state(case["state"], dims)
    rho = o_dop(x)
    fn = case["fn"]
    f = getattr(qu, fn)
    ref = (o_logneg if fn == "logneg" else o_neg)(rho, dims, sysa)
    tol = SQRT64 if meta["pure"] else 1e-8
    real = case["state"]["real"]
    got = real_scalar(f(to_q(x, real=real), tuple(dims), arg_sys(sysa, case["as_int"])), fn)
    e = close(got, ref, tol, "definition", fn=fn, pure=meta["pure"])
    if meta["pure"]:
        gp = real_scalar(f(to_q(rho), tuple(dims), tuple(sysa)), fn)
        e = max(e, close(gp, got, SQRT64, "ket==projector", fn=fn))
        sv = o_schmidt(x, dims, sysa)
        nrm = float(np.sum(sv)) ** 2
        want = max(0.0, math.log2(nrm)) if fn == "logneg" else max(0.0, (nrm - 1) / 2)
        e = max(e, close(got, want, SQRT64, "pure-schmidt-formula", fn=fn))
    other = real_scalar((qu.negativity if fn == "logneg" else qu.logneg)(to_q(x), tuple(dims), tuple(sysa)), fn)
    ln, ng = (got, other) if fn == "logneg" else (other, got)
    e = max(e, close(ng, (2.0 ** ln - 1) / 2, tol, "N=(2^EN-1)/2", fn=fn))
    gc = real_scalar(f(to_q(x), tuple(dims), tuple(rest)), fn)
    e = max(e, close(gc, got, tol, "symmetry", fn=fn))
    y, d2, perm = transform(x, dims, case["t"])
    g2 = real_scalar(f(to_q(y), tuple(d2), tuple(relabel(sysa, perm))), fn)
    e = max(e, close(g2, ref, tol, "invariance", fn=fn, t=t_classes(case["t"])))
    da = int(np.prod([dims[i] for i in sysa]))
    dm = min(da, D // da)
    ub = math.log2(dm) if fn == "logneg" else (dm - 1) / 2
    if got < 0 or got > ub + 1e-6:
        raise Violation("bound", fn=fn, got=got, ub=ub)
    if meta["product"] and abs(got) > (SQRT64 if meta["pure"] else 1e-8):
        raise Violation("product-zero", fn=fn, got=got)
    return {"nt": not meta["product"] and n >= 3 and (meta["pure"] or (meta["rank"] or 2) >= 2),
            "cls": ["fn=" + fn, "kind=" + meta["kind"], "entangled" if ref > 1e-6 else "ppt"] + sys_classes(sysa) + t_classes(case["t"]),
            "err": e}


# ---------------------------------------------------------------------------
# 7. logneg_subsys (two subsystems of a pure state)
# ---------------------------------------------------------------------------

def run_logneg_subsys(case):
    qu = Q()
    dims, sysa, sysb = case["dims"], case["sysa"], case["sysb"]
    n = len(dims)
    x, meta = make_state(case["state"], dims)
    dab, pa, pb, ab = sub_positions(dims, sysa, sysb)
    rab = o_rdm(x, dims, ab)
    ref = o_logneg(rab, dab, pa)
    kw = {} if case["thresh"] == "default" else {"approx_thresh": None}
    ai = case["as_int"]
    bip = len(ab) == n
    tol = SQRT64 if bip else 1e-8
    got = real_scalar(qu.logneg_subsys(to_q(x, real=case["state"]["real"]), tuple(dims), arg_sys(sysa, ai), arg_sys(sysb, ai), **kw), "logneg_subsys")
    e = close(got, ref, tol, "definition", fn="logneg_subsys", bipartite=bip, reordered="reordered" in sys_classes(sysa, sysb))
    gs = real_scalar(qu.logneg_subsys(to_q(x), tuple(dims), tuple(sysb), tuple(sysa), **kw), "logneg_subsys")
    e = max(e, close(gs, got, tol, "symmetry", fn="logneg_subsys"))
    if not bip:
        ge = real_scalar(qu.logneg(qu.ptr(to_q(x), tuple(dims), tuple(ab)), tuple(dab), tuple(pa)), "logneg")
    else:
        ge = real_scalar(qu.logneg(to_q(x), tuple(dims), tuple(sysa)), "logneg")
    e = max(e, close(ge, got, tol, "shortcut==exact", fn="logneg_subsys"))
    y, d2, perm = transform(x, dims, case["t"])
    g2 = real_scalar(qu.logneg_subsys(to_q(y), tuple(d2), tuple(relabel(sysa, perm)), tuple(relabel(sysb, perm)), **kw), "logneg_subsys")
    e = max(e, close(g2, ref, tol, "invariance", fn="logneg_subsys", t=t_classes(case["t"])))
    if got < 0:
        raise Violation("bound", fn="logneg_subsys", got=got)
    if meta["product"] and abs(got) > tol:
        raise Violation("product-zero", fn="logneg_subsys", got=got)
    return {"nt": not meta["product"] and n >= 3 and bool(sys_classes(sysa, sysb, list(sysa) + list(sysb))),
            "cls": ["kind=" + meta["kind"], "bipartite" if bip else "tripartite", "entangled" if ref > 1e-6 else "ppt"]
            + sys_classes(sysa, sysb, list(sysa) + list(sysb)) + t_classes(case["t"]), "err": e}


# ---------------------------------------------------------------------------
# 8. concurrence (two qubits, optionally inside a larger register)
# ---------------------------------------------------------------------------

@st.composite
def s_concurrence(draw, tier):
    n = draw(st.sampled_from([2, 2, 3, 4, 5]))
    dims = [2] * n
    if n > 2 and draw(st.booleans()):
        # spectators need not be qubits
        dims = [2, 2] + [draw(st.sampled_from(CHOICES)) for _ in range(n - 2)]
        dims = list(draw(st.permutations(dims)))
    qubits = [i for i, d in enumerate(dims) if d == 2]
    pair = list(draw(st.permutations(qubits)))[:2]
    pure = draw(st.integers(0, 2)) == 0
    return {"dims": dims, "state": draw(s_state(int(np.prod(dims)), pure=pure)), "sysa": pair[0], "sysb": pair[1],
            "useed": draw(st.one_of(st.none(), A.seeds))}


def run_concurrence(case):
    qu = Q()
    dims, sa, sb = case["dims"], case["sysa"], case["sysb"]
    n = len(dims)
    x, meta = make_state(case["state"], dims)
    r2 = o_rdm(x, dims, [sa, sb]) if n > 2 else o_dop(x)
    ref = o_concurrence(r2)
    if n == 2:
        got = real_scalar(qu.concurrence(to_q(x, real=case["state"]["real"])), "concurrence")
    else:
        got = real_scalar(qu.concurrence(to_q(x, real=case["state"]["real"]), tuple(dims), sa, sb), "concurrence")
    e = close(got, ref, SQRT64, "definition", fn="concurrence", n=n, pure=meta["pure"])
    if n == 2 and meta["pure"]:
        t = x.reshape(2, 2)
        e = max(e, close(got, 2 * abs(t[0, 0] * t[1, 1] - t[0, 1] * t[1, 0]), 1e-9, "pure-formula", fn="concurrence"))
        gp = real_scalar(qu.concurrence(to_q(o_dop(x))), "concurrence")
        e = max(e, close(gp, got, SQRT64, "ket==projector", fn="concurrence"))
    if n > 2:
        gs = real_scalar(qu.concurrence(to_q(x), tuple(dims), sb, sa), "concurrence")
        e = max(e, close(gs, got, SQRT64, "symmetry", fn="concurrence"))
    if case["useed"] is not None:
        y = apply_unitary(x, local_unitary(case["useed"], dims))
        g2 = real_scalar(qu.concurrence(to_q(y), tuple(dims), sa, sb) if n > 2 else qu.concurrence(to_q(y)), "concurrence")
        e = max(e, close(g2, ref, SQRT64, "invariance", fn="concurrence"))
    if got < 0 or got > 1 + 1e-6:
        raise Violation("bound", fn="concurrence", got=got)
    if meta["product"] and got > SQRT64:
        raise Violation("product-zero", fn="concurrence", got=got)
    return {"nt": ref > 1e-6 or (n >= 3 and not meta["product"]),
            "cls": ["kind=" + meta["kind"], "n=%d" % n, "C>0" if ref > 1e-6 else "C=0"] + (["sa>sb"] if sa > sb else [])
            + (["LU"] if case["useed"] is not None else []), "err": e}


# ---------------------------------------------------------------------------
# 9. fidelity  (documented: UNSQUARED unless squared=True)
# ---------------------------------------------------------------------------

@st.composite
def s_pair(draw, tier):
    D = draw(st.sampled_from([2, 3, 4, 4, 6, 8, 9, 16, 27, 32]))
    t1, t2 = draw(st.sampled_from([("ket", "ket"), ("ket", "rho"), ("rho", "ket"), ("rho", "rho"), ("rho", "rho")]))
    s1 = draw(s_state(D, pure=t1 == "ket", kinds=("haar", "haar", "basis") if t1 == "ket" else None))
    s2 = draw(s_state(D, pure=t2 == "ket", kinds=("haar", "haar", "basis") if t2 == "ket" else None))
    rel = draw(st.sampled_from(["indep", "indep", "indep", "same", "near", "orth"]))
    return {"D": D, "s1": s1, "s2": s2, "rel": rel, "squared": draw(st.sampled_from([None, False, True])),
            "isherm": draw(st.sampled_from([None, True, False])), "useed": draw(st.one_of(st.none(), A.seeds))}


def build_pair(case):
    D = case["D"]
    a, ma = make_state(case["s1"], [D])
    b, mb = make_state(case["s2"], [D])
    rel = case["rel"]
    if rel == "same" and a.ndim == b.ndim:
        b, mb = a.copy(), dict(ma)
    elif rel == "near" and a.ndim == b.ndim:
        b = 0.98 * a + 0.02 * b
        b = b / (np.linalg.norm(b) if b.ndim == 1 else np.trace(b).real)
    elif rel == "orth" and a.ndim == 1 and b.ndim == 1:
        b = b - a * np.vdot(a, b)
        nb = np.linalg.norm(b)
        if nb < 1e-6:
            b = np.roll(a, 1) - a * np.vdot(a, np.roll(a, 1))
            nb = np.linalg.norm(b)
            if nb < 1e-6:
                raise Reject("cannot build orthogonal partner")
        b = b / nb
    else:
        rel = "indep"
    return a, b, ma, mb, rel


FID_DEFICIENT = 5e-3


def fid_tol(a, b, ma, mb, D):
    """rho/rho fidelity takes sqrt twice: an exactly-zero eigenvalue of sqrt(a) b sqrt(a) comes back as ~1e-10
    (sqrt(a) carries an i*5e-9 part from sqrt(-1e-17)) and contributes its square root ~1e-5.  Rank-deficient
    operator pairs are therefore compared at FID_DEFICIENT (a-priori eps**0.25 ~ 1e-4 x dimension), everything else at SQRT64."""
    if a.ndim == 2 and b.ndim == 2:
        deficient = any(m.get("rank") is None or m["rank"] < D for m in (ma, mb))
        return FID_DEFICIENT if deficient else SQRT64
    return SQRT64


def run_fidelity(case):
    qu = Q()
    a, b, ma, mb, rel = build_pair(case)
    kw = {} if case["squared"] is None else {"squared": case["squared"]}
    sq = bool(case["squared"])
    F = o_fidelity(a, b)
    ref = F * F if sq else F
    qa, qb = to_q(a, real=case["s1"]["real"]), to_q(b, real=case["s2"]["real"])
    got = real_scalar(qu.fidelity(qa, qb, **kw), "fidelity")
    types = ("ket" if a.ndim == 1 else "rho") + "/" + ("ket" if b.ndim == 1 else "rho")
    tol = fid_tol(a, b, ma, mb, case["D"])
    e = SQRT64 / tol * close(got, ref, tol, "definition", fn="fidelity", squared=case["squared"], types=types)
    gs = real_scalar(qu.fidelity(qb, qa, **kw), "fidelity")
    e = max(e, SQRT64 / tol * close(gs, got, tol, "symmetry", fn="fidelity", types=types))
    if got < -1e-9 or got > 1 + 2 * tol:
        raise Violation("bound", fn="fidelity", got=got, types=types)
    if rel == "same":
        e = max(e, SQRT64 / tol * close(got, 1.0, tol, "F(r,r)=1", fn="fidelity", types=types))
    if case["useed"] is not None:
        W = runitary(np.random.default_rng(case["useed"]), case["D"])
        g2 = real_scalar(qu.fidelity(to_q(apply_unitary(a, W)), to_q(apply_unitary(b, W)), **kw), "fidelity")
        e = max(e, SQRT64 / tol * close(g2, ref, tol, "invariance", fn="fidelity", types=types))
    if a.ndim == 1:
        # ket == projector (the projector goes through the two nested matrix square roots)
        g3 = real_scalar(qu.fidelity(to_q(o_dop(a)), qb, **kw), "fidelity")
        t3 = FID_DEFICIENT if b.ndim == 2 else SQRT64
        e = max(e, SQRT64 / t3 * close(g3, got, t3, "ket==projector", fn="fidelity", types=types))
    # (errors are reported in units of the class actually used, rescaled to SQRT64)
    return {"nt": rel != "same" and 1e-3 < F < 1 - 1e-3,
            "cls": ["types=" + types, "squared=%s" % case["squared"], "rel=" + rel], "err": e}


# ---------------------------------------------------------------------------
# 10. trace_distance
# ---------------------------------------------------------------------------

def run_trace_distance(case):
    qu = Q()
    a, b, ma, mb, rel = build_pair(case)
    kw = {} if case["isherm"] is None else {"isherm": case["isherm"]}
    ref = o_tracedist(a, b)
    qa, qb = to_q(a, real=case["s1"]["real"]), to_q(b, real=case["s2"]["real"])
    types = ("ket" if a.ndim == 1 else "rho") + "/" + ("ket" if b.ndim == 1 else "rho")
    ketket = types == "ket/ket"

    def call(p, q):
        try:
            return real_scalar(qu.trace_distance(p, q, **kw), "trace_distance")
        except ValueError as ex:
            if ketket and "math domain" in str(ex):
                # sqrt(1 - |<a|b>|^2) with the overlap rounding above 1
                raise Violation("ketket-domain-error", fn="trace_distance", types=types)
            raise

    got = call(qa, qb)
    if ketket:
        # the documented shortcut sqrt(1-|<a|b>|^2) is ill-conditioned at 0: compare the squares
        e = close(got ** 2, 1 - abs(np.vdot(a, b)) ** 2, EXACT64, "definition", fn="trace_distance", types=types)
        e = max(e, 1e-3 * close(got, ref, SQRT64, "definition", fn="trace_distance", types=types, clause="vs-trace-norm"))
    else:
        e = close(got, ref, 1e-8, "definition", fn="trace_distance", types=types, isherm=case["isherm"])
    gs = call(qb, qa)
    e = max(e, (1e-3 if ketket else 1) * close(gs, got, SQRT64 if ketket else 1e-8, "symmetry", fn="trace_distance", types=types))
    if got < 0 or got > 1 + 1e-8:
        raise Violation("bound", fn="trace_distance", got=got, types=types)
    if rel == "same" and got > SQRT64:
        raise Violation("T(r,r)=0", fn="trace_distance", got=got, types=types)
    if case["useed"] is not None:
        W = runitary(np.random.default_rng(case["useed"]), case["D"])
        g2 = call(to_q(apply_unitary(a, W)), to_q(apply_unitary(b, W)))
        e = max(e, (1e-3 if ketket else 1) * close(g2, ref, SQRT64 if ketket else 1e-8, "invariance", fn="trace_distance", types=types))
    # Fuchs - van de Graaf with the (unsquared) fidelity
    F = real_scalar(qu.fidelity(qa, qb), "fidelity")
    dF = fid_tol(a, b, ma, mb, case["D"]) / 10
    if 1 - F - got > 2 * dF + 1e-7 or got * got + F * F > 1 + 3 * dF + 1e-7:
        raise Violation("fuchs-van-de-graaf", fn="trace_distance", T=got, F=F, types=types)
    return {"nt": rel != "same" and ref > 1e-3, "cls": ["types=" + types, "isherm=%s" % case["isherm"], "rel=" + rel], "err": e}


# ---------------------------------------------------------------------------
# 11. schmidt_gap, 12. tr_sqrt / tr_sqrt_subsys
# ---------------------------------------------------------------------------

def run_schmidt_gap(case):
    qu = Q()
    dims, sysa = case["dims"], case["sysa"]
    n = len(dims)
    x, meta = make_state(case["state"], dims)
    if case["t"].get("useed") is not None and case["t"]["useed"] % 8 == 0:
        # one case in eight: a trivial (size-1) subsystem is inserted and chosen as A: rho_A = [[1]], gap 1 - 0
        pos = case["t"]["useed"] // 8 % (n + 1)
        d1 = dims[:pos] + [1] + dims[pos:]
        try:
            g1 = real_scalar(qu.schmidt_gap(to_q(x), tuple(d1), pos), "schmidt_gap")
        except IndexError:
            raise Violation("trivial-subsystem-crash", fn="schmidt_gap", size_a=1)
        close(g1, 1.0, 1e-8, "trivial-subsystem", fn="schmidt_gap")
    p = np.sort(o_schmidt(x, dims, sysa) ** 2)[::-1]
    ref = float(p[0] - (p[1] if p.size > 1 else 0.0))
    got = real_scalar(qu.schmidt_gap(to_q(x, real=case["state"]["real"]), tuple(dims), arg_sys(sysa, case["as_int"])), "schmidt_gap")
    e = close(got, ref, 1e-8, "definition", fn="schmidt_gap")
    rest = [i for i in range(n) if i not in sysa]
    if rest:
        gb = real_scalar(qu.schmidt_gap(to_q(x), tuple(dims), tuple(rest)), "schmidt_gap")
        e = max(e, close(gb, got, 1e-8, "symmetry", fn="schmidt_gap"))
    y, d2, perm = transform(x, dims, case["t"])
    g2 = real_scalar(qu.schmidt_gap(to_q(y), tuple(d2), tuple(relabel(sysa, perm))), "schmidt_gap")
    e = max(e, close(g2, ref, 1e-8, "invariance", fn="schmidt_gap", t=t_classes(case["t"])))
    if got < -1e-12 or got > 1 + 1e-9:
        raise Violation("bound", fn="schmidt_gap", got=got)
    if meta["product"]:
        e = max(e, close(got, 1.0, 1e-8, "product-one", fn="schmidt_gap"))
    return {"nt": not meta["product"] and bool(rest) and n >= 3,
            "cls": ["kind=" + meta["kind"]] + sys_classes(sysa) + t_classes(case["t"]), "err": e}


@st.composite
def s_tr_sqrt(draw, tier):
    mode = draw(st.sampled_from(["op", "rank", "subsys", "subsys"]))
    if mode == "subsys":
        dims = draw(s_dims(2, 5, maxD=256))
        (sysa,) = draw(s_subsets(len(dims), 1, allow_all=draw(st.integers(0, 9)) == 0))
        stt = draw(s_state(int(np.prod(dims)), pure=True))
    else:
        dims = draw(s_dims(1, 3, maxD=64))
        sysa = [0]
        stt = draw(s_state(int(np.prod(dims)), pure=False))
    return {"mode": mode, "dims": dims, "sysa": sysa, "state": stt, "extra": draw(st.integers(0, 2)),
            "thresh": draw(st.sampled_from(["default", "none"]))}


def run_tr_sqrt(case):
    qu = Q()
    dims, mode = case["dims"], case["mode"]
    D = int(np.prod(dims))
    x, meta = make_state(case["state"], dims)
    if mode == "subsys":
        sysa = case["sysa"]
        ref = float(np.sum(o_schmidt(x, dims, sysa)))
        kw = {} if case["thresh"] == "default" else {"approx_thresh": None}
        got = real_scalar(qu.tr_sqrt_subsys(to_q(x, real=case["state"]["real"]), tuple(dims), tuple(sysa), **kw), "tr_sqrt_subsys")
        e = close(got, ref, SQRT64, "definition", fn="tr_sqrt_subsys")
        if len(sysa) == len(dims) and got != 1.0:
            raise Violation("pure-whole", fn="tr_sqrt_subsys", got=got)
        return {"nt": not meta["product"] and len(dims) >= 3, "cls": ["mode=subsys", "kind=" + meta["kind"]] + sys_classes(sysa), "err": e}
    ref = float(np.sum(np.sqrt(np.clip(np.linalg.eigvalsh(herm(x)), 0, None))))
    if mode == "op":
        got = real_scalar(qu.tr_sqrt(to_q(x, real=case["state"]["real"])), "tr_sqrt")
    else:
        if meta["rank"] is None:
            raise Reject("rank not known by construction")
        got = real_scalar(qu.tr_sqrt(to_q(x), rank=min(D, meta["rank"] + case["extra"])), "tr_sqrt")
    tol = max(SQRT64, 1e-6 * D)  # every exactly-zero eigenvalue may contribute sqrt(1e-17)
    e = SQRT64 / tol * close(got, ref, tol, "definition", fn="tr_sqrt", mode=mode)
    if got < 1 - tol or got > math.sqrt(D) + tol:
        raise Violation("bound", fn="tr_sqrt", got=got)
    return {"nt": (meta["rank"] or 2) >= 2, "cls": ["mode=" + mode, "kind=" + meta["kind"]], "err": e}


# ---------------------------------------------------------------------------
# 13. one_way_classical_information and quantum_discord (two qubits)
# ---------------------------------------------------------------------------

def o_cond_entropy_terms(rho4):
    """rho_A and T_k = tr_B[(1 x sigma_k) rho] for a two-qubit state."""
    r = np.asarray(rho4, dtype=np.complex128).reshape(2, 2, 2, 2)
    rA = np.einsum("abcb->ac", r)
    T = [np.einsum("be,aecb->ac", s, r) for s in (SX, SY, SZ)]
    return rA, T


def h_2x2(tr, det):
    """sum of -l log2 l over the eigenvalues of 2x2 psd matrices given trace and determinant (vectorised)."""
    disc = np.sqrt(np.clip(tr * tr - 4 * det, 0, None))
    out = np.zeros_like(tr)
    for l in ((tr + disc) / 2, (tr - disc) / 2):
        m = l > 1e-300
        out[m] -= l[m] * np.log2(l[m])
    return out


def o_avg_cond_entropy(rho4, th, ph):
    """sum_j p_j S(rho_A|j) for the projective measurement of B along the Bloch directions (th, ph)."""
    rA, T = o_cond_entropy_terms(rho4)
    th = np.asarray(th, dtype=float)
    ph = np.asarray(ph, dtype=float)
    nx, ny, nz = np.sin(th) * np.cos(ph), np.sin(th) * np.sin(ph), np.cos(th)
    tot = np.zeros(np.broadcast(th, ph).shape)
    for sgn in (1.0, -1.0):
        M = [[(rA[i, j] + sgn * (nx * T[0][i, j] + ny * T[1][i, j] + nz * T[2][i, j])) / 2 for j in range(2)] for i in range(2)]
        p = np.real(M[0][0] + M[1][1])
        det = np.real(M[0][0] * M[1][1] - M[0][1] * M[1][0])
        ok = p > 1e-14
        ps = np.where(ok, p, 1.0)
        tot = tot + np.where(ok, p * h_2x2(np.ones_like(ps), det / ps ** 2), 0.0)
    return tot


def o_discord(rho4):
    """I(A:B) - max_{projective measurements on B} J  by brute force (grid + polish)."""
    from scipy.optimize import minimize

    r = np.asarray(rho4, dtype=np.complex128).reshape(2, 2, 2, 2)
    rB = np.einsum("abad->bd", r)
    base = o_entropy(rB) - o_entropy(rho4)
    th = np.linspace(0, np.pi, 181)[:, None]
    ph = np.linspace(0, 2 * np.pi, 361)[None, :]
    g = o_avg_cond_entropy(rho4, th, ph)
    best = float(np.min(g))
    idx = np.argsort(g, axis=None)[:6]
    for k in idx:
        i, j = np.unravel_index(k, g.shape)
        res = minimize(lambda a: float(o_avg_cond_entropy(rho4, a[0], a[1])), (th[i, 0], ph[0, j]), method="Nelder-Mead",
                       options=dict(xatol=1e-9, fatol=1e-13, maxiter=2000))
        best = min(best, float(res.fun))
    return base + best


@st.composite
def s_owci(draw, tier):
    return {"state": draw(s_state(4, pure=False, kinds=("wishart", "wishart", "werner", "rho_product", "proj", "diag"))),
            "mseed": draw(A.seeds), "povm": draw(st.sampled_from(["proj", "proj", "trine"])), "precomp": draw(st.booleans())}


def run_owci(case):
    qu = Q()
    x, meta = make_state(case["state"], [2, 2])
    rng = np.random.default_rng(case["mseed"])
    U = runitary(rng, 2)
    if case["povm"] == "proj":
        els = [np.outer(U[:, k], U[:, k].conj()) for k in range(2)]
    else:
        vs = [np.array([np.cos(t / 2), np.sin(t / 2)]) for t in (0, 2 * np.pi / 3, 4 * np.pi / 3)]
        els = [(2 / 3) * np.outer(U @ v, (U @ v).conj()) for v in vs]
    rA, _ = o_cond_entropy_terms(x)
    ref = o_entropy(rA)
    r = x.reshape(2, 2, 2, 2)
    pmin = 1.0
    for E in els:
        M = np.einsum("be,aecb->ac", E, r)
        p = float(np.real(np.trace(M)))
        pmin = min(pmin, p)
        if p > 1e-12:
            ref -= p * o_entropy(M / p)
    if pmin < 1e-9:
        raise Reject("zero-probability outcome (0/0 in the textbook formula)")
    prjs = [qu.qu(E) for E in els]
    if case["precomp"]:
        got = qu.one_way_classical_information(to_q(x), None, precomp_func=True)(prjs)
    else:
        got = qu.one_way_classical_information(to_q(x), prjs)
    got = real_scalar(got, "owci")
    e = close(got, ref, 1e-8, "definition", fn="one_way_classical_information", povm=case["povm"])
    if got < -1e-8 or got > 1 + 1e-8:
        raise Violation("bound", fn="one_way_classical_information", got=got)
    return {"nt": not meta["product"], "cls": ["kind=" + meta["kind"], "povm=" + case["povm"]], "err": e}


@st.composite
def s_discord(draw, tier):
    n = draw(st.sampled_from([2, 2, 3, 4]))
    pair = list(draw(st.permutations(list(range(n)))))[:2]
    pure = n > 2 and draw(st.booleans())
    kinds = None if pure else ("wishart", "wishart", "wishart", "werner", "rho_product", "diag")
    return {"n": n, "state": draw(s_state(2 ** n, pure=pure, kinds=kinds)), "sysa": pair[0], "sysb": pair[1],
            "explicit": draw(st.booleans())}


def run_discord(case):
    qu = Q()
    n, sa, sb = case["n"], case["sysa"], case["sysb"]
    dims = [2] * n
    x, meta = make_state(case["state"], dims)
    rAB = o_rdm(x, dims, [sa, sb])          # A = sysa (not measured), B = sysb (measured), in that order
    ref = o_discord(rAB)
    try:
        if n == 2 and not case["explicit"] and (sa, sb) == (0, 1):
            got = qu.quantum_discord(to_q(x))
        else:
            got = qu.quantum_discord(to_q(x), tuple(dims), sa, sb)
    except ValueError as ex:
        if "COBYLA" in str(ex) or "MAXFUN" in str(ex):
            # explicit `raise ValueError(opt.message)` in quantum_discord: the library refuses to answer when its
            # optimiser has not met tol=1e-12 within maxiter evaluations (counted; see notes/C20.md)
            raise Reject("optimiser-not-converged: explicit ValueError(opt.message)")
        raise
    got = real_scalar(got, "quantum_discord")
    tol = 1e-3
    err = abs(got - ref)
    if err > tol:
        swapped = o_discord(o_rdm(x, dims, [sb, sa]))
        if sa > sb and abs(got - swapped) <= tol:
            raise Violation("sysa-sysb-order-ignored", fn="quantum_discord", n=n, order="sysa>sysb")
        if got > ref:
            # the library's single-start COBYLA run ended in a local minimum of its own objective
            raise Violation("above-global-minimum", fn="quantum_discord", got=got, want=ref, n=n, kind=meta["kind"])
        raise Violation("definition", fn="quantum_discord", got=got, want=ref, n=n, order="sysa>sysb" if sa > sb else "sysa<sysb",
                        kind=meta["kind"])
    if got < -1e-6:
        raise Violation("bound", fn="quantum_discord", got=got)
    return {"nt": ref > 1e-4, "cls": ["kind=" + meta["kind"], "n=%d" % n, "sa>sb" if sa > sb else "sa<sb"], "err": err}


# ---------------------------------------------------------------------------
# 14. purify
# ---------------------------------------------------------------------------

@st.composite
def s_purify(draw, tier):
    D = draw(st.sampled_from([2, 3, 4, 6, 8, 12, 16]))
    return {"D": D, "state": draw(s_state(D, pure=False))}


def run_purify(case):
    qu = Q()
    D = case["D"]
    x, meta = make_state(case["state"], [D])
    psi = qu.purify(to_q(x, real=case["state"]["real"]))
    v = np.asarray(psi)
    if v.shape != (D * D, 1):
        raise Violation("shape", fn="purify", got=list(v.shape))
    v = v.reshape(-1)
    e = close(np.linalg.norm(v), 1.0, EXACT64, "norm", fn="purify")
    back = o_rdm(v, [D, D], [0])
    e = max(e, close(back, x, EXACT64, "ptr-back", fn="purify"))
    other = o_rdm(v, [D, D], [1])
    e = max(e, close(np.sort(np.linalg.eigvalsh(herm(other))), np.sort(np.linalg.eigvalsh(herm(x))), EXACT64, "purifier-spectrum", fn="purify"))
    # and through the library's own partial trace
    e = max(e, close(np.asarray(qu.ptr(psi, (D, D), 0)), x, EXACT64, "ptr-back-quimb", fn="purify"))
    return {"nt": (meta["rank"] or 2) >= 2, "cls": ["kind=" + meta["kind"]], "err": e}


# ---------------------------------------------------------------------------
# 15. kraus_op
# ---------------------------------------------------------------------------

@st.composite
def s_kraus(draw, tier):
    dims = draw(s_dims(1, 4, maxD=64))
    n = len(dims)
    whole = draw(st.integers(0, 3)) == 0
    (where,) = draw(s_subsets(n, 1, allow_all=True))
    if len(where) > 2:
        where = where[:2]
    return {"dims": dims, "state": draw(s_state(int(np.prod(dims)), pure=False)), "whole": whole, "where": where,
            "K": draw(st.integers(1, 4)), "kseed": draw(A.seeds), "as_int": draw(st.booleans()),
            "form": draw(st.sampled_from(["array", "list"])), "check": draw(st.sampled_from(["no", "yes", "yes-invalid"])),
            "channel": draw(st.booleans())}


def run_kraus(case):
    qu = Q()
    dims = case["dims"]
    D = int(np.prod(dims))
    x, meta = make_state(case["state"], dims)
    whole = case["whole"]
    where = list(range(len(dims))) if whole else case["where"]
    dk = int(np.prod([dims[i] for i in where]))
    K = case["K"]
    rng = np.random.default_rng(case["kseed"])
    if case["channel"] or case["check"] != "no":
        g = rng.normal(size=(K * dk, dk)) + 1j * rng.normal(size=(K * dk, dk))
        V, _ = np.linalg.qr(g)
        Ek = V.reshape(K, dk, dk)
        valid = True
    else:
        Ek = rng.normal(size=(K, dk, dk)) + 1j * rng.normal(size=(K, dk, dk))
        valid = False
    if case["check"] == "yes-invalid":
        Ek = Ek * 1.01
        valid = False
    ref = np.zeros((D, D), dtype=complex)
    for E in Ek:
        F = embed(E, dims, where)
        ref = ref + F @ x @ F.conj().T
    arg = Ek if case["form"] == "array" else [qu.qu(E) for E in Ek]
    kw = {}
    if not whole:
        kw = {"dims": tuple(dims), "where": arg_sys(where, case["as_int"])}
    if case["check"] != "no":
        kw["check"] = True
    if case["check"] == "yes-invalid":
        try:
            qu.kraus_op(to_q(x), arg, **kw)
        except ValueError:
            return {"nt": True, "cls": ["check=invalid-refused"], "err": 0.0}
        raise Violation("check-accepted-invalid", fn="kraus_op")
    got = qu.kraus_op(to_q(x, real=case["state"]["real"]), arg, **kw)
    mag = float(sum(np.linalg.norm(E, 2) ** 2 for E in Ek))
    e = close(np.asarray(got), ref, EXACT64, "definition", floor=mag * np.linalg.norm(x), fn="kraus_op", whole=whole,
              reordered=list(where) != sorted(where))
    if valid:
        e = max(e, close(np.trace(np.asarray(got)), 1.0, EXACT64, "trace-preserving", fn="kraus_op"))
    return {"nt": not whole and len(dims) >= 2, "cls": ["whole" if whole else "where", "K=%d" % K, "check=" + case["check"], "form=" + case["form"]]
            + sys_classes(where), "err": e}


# ---------------------------------------------------------------------------
# 16. projector, 17. measure
# ---------------------------------------------------------------------------

SPECTRA = ([1.0, -1.0], [1.0, 1.0, -1.0], [2.0, 1.0, 1.0, 0.0], [1.0, 1.0, 1.0, -1.0, -1.0], [0.5, -0.5, 1.5, 0.5], [3.0, 1.0, 1.0, 1.0, -2.0, -2.0])


@st.composite
def s_observable(draw, tier):
    D = draw(st.sampled_from([2, 3, 4, 5, 6, 8, 12, 16]))
    base = draw(st.sampled_from(SPECTRA))
    return {"D": D, "vals": [base[i % len(base)] for i in range(D)], "oseed": draw(A.seeds), "real": draw(st.booleans()),
            "pick": draw(st.integers(0, 15)), "form": draw(st.sampled_from(["op", "op", "eigh-tuple", "eigh-ndarray", "eigh-list"])),
            "autoblock": draw(st.booleans()), "state": draw(s_state(D)), "support": draw(st.integers(1, 16)),
            "fixed": draw(st.booleans()), "mseed": draw(A.seeds)}


def build_observable(case):
    D = case["D"]
    rng = np.random.default_rng(case["oseed"])
    U = runitary(rng, D, case["real"])
    vals = np.array(case["vals"], dtype=float)
    return (U * vals) @ U.conj().T, U, vals


def diag_arg(qu, qA, Aop, form):
    """the documented pre-diagonalised input: (eigenvalues, eigenvectors) from quimb's eigh, or from numpy's
    (plain ndarrays), as a tuple or a list."""
    if form == "eigh-tuple":
        return qu.eigh(qA)
    el, ev = np.linalg.eigh(Aop)
    return (el, ev) if form == "eigh-ndarray" else [el, ev]


def ndarray_guard(form, fn, call):
    try:
        return call()
    except AttributeError as ex:
        if form in ("eigh-ndarray", "eigh-list") and "'H'" in str(ex):
            raise Violation("tuple-ndarray-crash", fn=fn, form="ndarray-eigenvectors")
        raise


def run_projector(case):
    qu = Q()
    Aop, U, vals = build_observable(case)
    lam = float(vals[case["pick"] % len(vals)])
    sel = np.abs(vals - lam) < 1e-9
    ref = U[:, sel] @ U[:, sel].conj().T
    qA = qu.qu(Aop)
    if case["form"] == "op":
        P = qu.projector(qA, eigenvalue=lam, autoblock=case["autoblock"])
    else:
        arg = diag_arg(qu, qA, Aop, case["form"])
        P = ndarray_guard(case["form"], "projector", lambda: qu.projector(arg, eigenvalue=lam))
    e = close(np.asarray(P), ref, EXACT64, "definition", fn="projector", form=case["form"], deg=int(sel.sum()))
    P = np.asarray(P)
    e = max(e, close(P @ P, P, EXACT64, "idempotent", fn="projector"))
    e = max(e, close(Aop @ P, lam * P, EXACT64, "eigenspace", floor=float(np.max(np.abs(vals))), fn="projector"))
    return {"nt": int(sel.sum()) >= 2, "cls": ["form=" + case["form"], "deg=%d" % int(sel.sum())] + (["autoblock"] if case["autoblock"] else []),
            "err": e}


def run_measure(case):
    qu = Q()
    D = case["D"]
    Aop, U, vals = build_observable(case)
    # state supported on the first `support` eigenvectors of A  (=> some outcomes have probability exactly 0)
    k = max(1, min(D, case["support"]))
    x0, meta = make_state(case["state"], [D])
    Pk = U[:, :k] @ U[:, :k].conj().T
    if x0.ndim == 1:
        x = Pk @ x0
        nrm = np.linalg.norm(x)
        if nrm < 1e-6:
            raise Reject("state has no weight on the chosen support")
        x = x / nrm
    else:
        x = Pk @ x0 @ Pk
        t = np.trace(x).real
        if t < 1e-6:
            raise Reject("state has no weight on the chosen support")
        x = x / t
    rho = o_dop(x)
    probs = {}
    for lam in sorted(set(vals.tolist())):
        sel = np.abs(vals - lam) < 1e-9
        P = U[:, sel] @ U[:, sel].conj().T
        probs[lam] = (float(np.real(np.trace(P @ rho))), P)
    qA = qu.qu(Aop)
    arg = qA if case["form"] == "op" else diag_arg(qu, qA, Aop, case["form"])
    if case["form"] in ("eigh-ndarray", "eigh-list"):
        ndarray_guard(case["form"], "measure", lambda: qu.measure(to_q(x), arg, eigenvalue=float(vals[0])))
    if case["fixed"]:
        cands = [l for l, (p, _) in probs.items() if p > 1e-3]
        lam = cands[case["pick"] % len(cands)]
        res, after = qu.measure(to_q(x), arg, eigenvalue=lam)
        if x.ndim == 1:
            # the same state handed over as a density operator must collapse to the projector of the same ket
            res_d, after_d = qu.measure(to_q(rho), arg, eigenvalue=lam)
            want_d = probs[lam][1] @ rho @ probs[lam][1] / probs[lam][0]
            close(np.asarray(after_d), want_d, INV64, "ket-vs-operator", fn="measure", pure=True)
    else:
        np.random.seed(case["mseed"] % (2 ** 32))
        try:
            res, after = qu.measure(to_q(x), arg)
        except ValueError as ex:
            if "not non-negative" in str(ex):
                # Born probabilities of a valid (psd up to rounding) state came out as -1e-18
                raise Violation("born-probability-negative", fn="measure", pure=x.ndim == 1, restricted=k < D)
            raise
    res = real_scalar(res, "measure")
    near = [l for l in probs if abs(l - res) < 1e-9]
    if not near:
        raise Violation("result-not-eigenvalue", fn="measure", got=res)
    p, P = probs[near[0]]
    if p < 1e-12:
        raise Violation("zero-probability-outcome", fn="measure", got=res, prob=p)
    e = 0.0
    if p > 1e-3:
        after = np.asarray(after)
        if x.ndim == 1:
            want = (P @ x) / math.sqrt(p)
            if after.shape != (D, 1):
                raise Violation("shape", fn="measure", got=list(after.shape))
            e = close(after.reshape(-1), want, INV64, "post-state", fn="measure", pure=True)
        else:
            want = P @ x @ P / p
            e = close(after, want, INV64, "post-state", fn="measure", pure=False)
    cplx = (not case["real"]) and np.iscomplexobj(x) and float(np.max(np.abs(np.imag(rho)))) > 1e-6
    return {"nt": k < D or len(probs) < D, "cls": ["pure" if x.ndim == 1 else "mixed", "fixed" if case["fixed"] else "random", "form=" + case["form"],
                                               "restricted" if k < D else "full-support"]
            + (["complex-observable+complex-" + ("ket" if x.ndim == 1 else "operator")] if cplx else []), "err": e}


# ---------------------------------------------------------------------------
# 18. simulate_counts, 19. dephase
# ---------------------------------------------------------------------------

@st.composite
def s_counts(draw, tier):
    pd = draw(st.sampled_from([2, 2, 2, 3]))
    n = draw(st.integers(1, 7 if pd == 2 else 5))
    D = pd ** n
    return {"phys_dim": pd, "n": n, "pure": draw(st.booleans()), "seed": draw(A.seeds), "nsupp": draw(st.integers(1, min(D, 12))),
            "C": draw(st.sampled_from([1, 7, 100, 1024])), "cseed": draw(st.integers(0, 2 ** 31 - 1)), "default_pd": draw(st.booleans())}


def run_counts(case):
    qu = Q()
    pd, n = case["phys_dim"], case["n"]
    D = pd ** n
    rng = np.random.default_rng(case["seed"])
    supp = sorted(rng.choice(D, size=min(D, case["nsupp"]), replace=False).tolist())
    if case["pure"]:
        x = np.zeros(D, dtype=complex)
        x[supp] = rvec(rng, len(supp), False)
    else:
        r = rrho(rng, len(supp), int(rng.integers(1, len(supp) + 1)), False)
        x = np.zeros((D, D), dtype=complex)
        x[np.ix_(supp, supp)] = r
    born = np.abs(x) ** 2 if x.ndim == 1 else np.real(np.diag(x))
    kw = {"seed": case["cseed"]}
    if not (pd == 2 and case["default_pd"]):
        kw["phys_dim"] = pd
    try:
        res = qu.simulate_counts(to_q(x), case["C"], **kw)
    except ValueError as ex:
        if "does not seem to be composed" in str(ex):
            raise Violation("size-refused", fn="simulate_counts", phys_dim=pd, n=n)
        raise
    if not isinstance(res, dict):
        raise Violation("type", fn="simulate_counts", got=repr(type(res)))
    tot = sum(int(v) for v in res.values())
    if tot != case["C"] or any(int(v) <= 0 for v in res.values()):
        raise Violation("total", fn="simulate_counts", got=tot, want=case["C"], phys_dim=pd)
    for key in res:
        if not isinstance(key, str):
            raise Violation("key-type", fn="simulate_counts", key=repr(key))
        good = len(key) == n and all(ch in "0123456789"[:pd] for ch in key)
        if not (good and born[int(key, pd)] > 1e-30):
            if pd != 2 and set(key) <= {"0", "1"} and int(key, 2) < D and born[int(key, 2)] > 1e-30:
                # the sampled outcome is fine but it is labelled with the binary digits of the flat index
                raise Violation("key-format", fn="simulate_counts", key=key, n=n, phys_dim=pd)
            raise Violation("outcome-outside-support" if good else "key-format", fn="simulate_counts", key=key, n=n, phys_dim=pd, binary=False)
    # same seed => same sample
    res2 = qu.simulate_counts(to_q(x), case["C"], **kw)
    if res2 != res:
        raise Violation("seed-not-deterministic", fn="simulate_counts", phys_dim=pd)
    if x.ndim == 1:
        # the same state as a density operator has the same Born distribution => the same seeded sample
        res3 = qu.simulate_counts(to_q(o_dop(x)), case["C"], **kw)
        if res3 != res:
            raise Violation("ket-vs-operator", fn="simulate_counts", phys_dim=pd)
    return {"nt": len(supp) < D and n >= 2, "cls": ["pd=%d" % pd, "pure" if case["pure"] else "mixed", "n=%d" % n], "err": 0.0}


@st.composite
def s_dephase(draw, tier):
    D = draw(st.sampled_from([2, 3, 4, 6, 8, 16]))
    rr = draw(st.sampled_from(["none", "int", "float", "full", "one"]))
    return {"D": D, "state": draw(s_state(D, pure=False)), "p": draw(st.sampled_from([0.0, 0.1, 0.5, 0.9, 1.0])),
            "rr": rr, "k": draw(st.integers(1, D)), "frac": draw(st.sampled_from([0.25, 0.5, 0.75])), "mseed": draw(A.seeds)}


def run_dephase(case):
    qu = Q()
    D, p = case["D"], case["p"]
    x, meta = make_state(case["state"], [D])
    rr = case["rr"]
    np.random.seed(case["mseed"] % (2 ** 32))
    if rr == "none":
        got = qu.dephase(to_q(x), p)
        k = D
    elif rr == "full":
        got = qu.dephase(to_q(x), p, rand_rank=D)
        k = D
    elif rr == "one":
        got = qu.dephase(to_q(x), p, rand_rank=1.0)
        k = D
    elif rr == "int":
        k = case["k"]
        got = qu.dephase(to_q(x), p, rand_rank=k)
    else:
        k = min(max(1, int(case["frac"] * D)), D)
        got = qu.dephase(to_q(x), p, rand_rank=case["frac"])
    got = np.asarray(got)
    e = close(np.trace(got), 1.0, EXACT64, "trace", fn="dephase", rr=rr)
    diff = got - (1 - p) * x
    off = diff - np.diag(np.diag(diff))
    e = max(e, close(off, np.zeros_like(off), EXACT64, "dephaser-diagonal", fn="dephase", rr=rr))
    d = np.real(np.diag(diff))
    if k == D:
        e = max(e, close(d, np.full(D, p / D), EXACT64, "definition", fn="dephase", rr=rr))
    elif p > 0:
        nz = np.abs(d) > 1e-12
        if int(nz.sum()) != k:
            raise Violation("rand-rank-count", fn="dephase", got=int(nz.sum()), want=k, rr=rr)
        e = max(e, close(d[nz], np.full(k, p / k), EXACT64, "definition", fn="dephase", rr=rr))
    return {"nt": 0 < p, "cls": ["rr=" + rr, "p=%g" % p], "err": e}


# ---------------------------------------------------------------------------
# 20. pauli_decomp
# ---------------------------------------------------------------------------

@st.composite
def s_pauli_decomp(draw, tier):
    n = draw(st.sampled_from([1, 2, 2, 2, 3, 3, 3, 3, 3, 4]))
    return {"n": n, "state": draw(s_state(2 ** n)), "herm_op": draw(st.integers(0, 4)) == 0, "oseed": draw(A.seeds)}


def run_pauli_decomp(case):
    qu = Q()
    import itertools

    n = case["n"]
    D = 2 ** n
    x, meta = make_state(case["state"], [2] * n)
    if case["herm_op"]:
        g = np.random.default_rng(case["oseed"]).normal(size=(D, D)) + 1j * np.random.default_rng(case["oseed"] + 1).normal(size=(D, D))
        x = g + g.conj().T
        meta = {"kind": "hermitian-op", "pure": False}
    rho = o_dop(x)
    res = qu.pauli_decomp(to_q(x), mode="c")
    names = ["".join(p) for p in itertools.product("IXYZ", repeat=n)]
    if sorted(res.keys()) != sorted(names):
        raise Violation("names", fn="pauli_decomp", got=sorted(res.keys())[:5])
    mag = float(np.linalg.norm(rho))
    rec = np.zeros((D, D), dtype=complex)
    e = 0.0
    for nm in names:
        P = kron_all([PAULI[c] for c in nm])
        c = np.trace(rho @ P) / D
        e = max(e, close(res[nm], c, EXACT64, "coefficient", floor=mag, fn="pauli_decomp", name=nm))
        rec = rec + complex(res[nm]) * P
    e = max(e, close(rec, rho, EXACT64, "reconstruction", fn="pauli_decomp"))
    mags = [abs(complex(v)) for v in res.values()]
    if any(b > a + 1e-9 * max(mag, 1) for a, b in zip(mags, mags[1:])):
        raise Violation("not-sorted-by-size", fn="pauli_decomp")
    if meta["pure"]:
        res2 = qu.pauli_decomp(to_q(rho), mode="c")
        for nm in names:
            e = max(e, close(res2[nm], res[nm], EXACT64, "ket==projector", floor=mag, fn="pauli_decomp"))
    return {"nt": n >= 2, "cls": ["n=%d" % n, "kind=" + meta["kind"]], "err": e}


# ---------------------------------------------------------------------------
# 20b. bell_decomp (same decomp() engine with kets as the basis: overlaps <B|rho|B>)
# ---------------------------------------------------------------------------

_c = 2.0 ** -0.5
BELL = [np.array([0, _c, -_c, 0]), np.array([0, _c, _c, 0]), np.array([_c, 0, 0, -_c]), np.array([_c, 0, 0, _c])]  # documented order


@st.composite
def s_bell_decomp(draw, tier):
    m = draw(st.sampled_from([1, 1, 2]))
    return {"m": m, "state": draw(s_state(4 ** m))}


def run_bell_decomp(case):
    qu = Q()
    import itertools

    m = case["m"]
    x, meta = make_state(case["state"], [4] * m)
    rho = o_dop(x)
    res = qu.bell_decomp(to_q(x, real=case["state"]["real"]), mode="c")
    names = ["".join(str(k) for k in p) for p in itertools.product(range(4), repeat=m)]
    if sorted(res.keys()) != sorted(names):
        raise Violation("names", fn="bell_decomp", got=sorted(res.keys())[:5])
    e = 0.0
    tot = 0.0
    for nm in names:
        b = kron_all([BELL[int(c)].reshape(-1, 1) for c in nm]).reshape(-1)
        want = np.real(np.vdot(b, rho @ b))
        e = max(e, close(res[nm], want, EXACT64, "coefficient", fn="bell_decomp", name=nm))
        tot += float(np.real(complex(res[nm])))
    e = max(e, close(tot, 1.0, EXACT64, "overlaps-sum-to-trace", fn="bell_decomp"))
    return {"nt": not meta["product"], "cls": ["m=%d" % m, "kind=" + meta["kind"]], "err": e}


# ---------------------------------------------------------------------------
# 21. correlation / pauli_correlations
# ---------------------------------------------------------------------------

def rherm(rng, d, real=False):
    g = rng.normal(size=(d, d))
    if not real:
        g = g + 1j * rng.normal(size=(d, d))
    return (g + g.conj().T) / 2


@st.composite
def s_correlation(draw, tier):
    qubits = draw(st.booleans())
    dims = draw(s_dims(2, 5, maxD=128, choices=(2,) if qubits else CHOICES))
    n = len(dims)
    pair = list(draw(st.permutations(list(range(n)))))[:2]
    return {"dims": dims, "dims_given": (not qubits) or draw(st.booleans()), "state": draw(s_state(int(np.prod(dims)))),
            "sysa": pair[0], "sysb": pair[1], "oseed": draw(A.seeds), "sparse": draw(st.sampled_from([None, False, True])),
            "sparse_ops": draw(st.booleans()), "precomp": draw(st.booleans()), "herm": draw(st.integers(0, 3)) > 0}


def run_correlation(case):
    qu = Q()
    dims, sa, sb = case["dims"], case["sysa"], case["sysb"]
    x, meta = make_state(case["state"], dims)
    rho = o_dop(x)
    rng = np.random.default_rng(case["oseed"])
    if case["herm"]:
        Aop, Bop = rherm(rng, dims[sa]), rherm(rng, dims[sb])
    else:
        Aop = rng.normal(size=(dims[sa],) * 2) + 1j * rng.normal(size=(dims[sa],) * 2)
        Bop = rng.normal(size=(dims[sb],) * 2) + 1j * rng.normal(size=(dims[sb],) * 2)
    EA, EB = embed(Aop, dims, [sa]), embed(Bop, dims, [sb])
    EAB = embed(np.kron(Aop, Bop), dims, [sa, sb])
    ref = np.trace(rho @ EAB) - np.trace(rho @ EA) * np.trace(rho @ EB)
    mag = float(np.linalg.norm(Aop, 2) * np.linalg.norm(Bop, 2))
    kw = {}
    if case["dims_given"]:
        kw["dims"] = tuple(dims)
    if case["sparse"] is not None:
        kw["sparse"] = case["sparse"]
    qa = qu.qu(Aop, sparse=True) if case["sparse_ops"] else qu.qu(Aop)
    qb = qu.qu(Bop, sparse=True) if case["sparse_ops"] else qu.qu(Bop)
    if case["sparse"] is False and case["sparse_ops"]:
        qa, qb = qu.qu(Aop), qu.qu(Bop)
    p = to_q(x, real=case["state"]["real"])
    try:
        return _run_correlation_tail(case, qu, kw, qa, qb, p, sa, sb, ref, mag, meta, rho, dims)
    except AttributeError as ex:
        if "asformat" in str(ex):
            # sparse=True with dense operators sitting on every subsystem: kron(dense, dense, stype='csr')
            raise Violation("sparse-flag-dense-ops-crash", fn="correlation", all_sites=len(dims) == 2, sparse_ops=case["sparse_ops"])
        raise


def _run_correlation_tail(case, qu, kw, qa, qb, p, sa, sb, ref, mag, meta, rho, dims):
    if case["precomp"]:
        # p is documented as ignored, but is what the size is inferred from when dims is not given
        got = qu.correlation(p if "dims" not in kw else None, qa, qb, sa, sb, precomp_func=True, **kw)(p)
    else:
        got = qu.correlation(p, qa, qb, sa, sb, **kw)
    e = close(got, ref, EXACT64, "definition", floor=mag, fn="correlation", reordered=sa > sb)
    if meta["pure"]:
        gp = qu.correlation(to_q(rho), qa, qb, sa, sb, **kw)
        e = max(e, close(gp, got, EXACT64, "ket==projector", floor=mag, fn="correlation"))
    gs = qu.correlation(p, qb, qa, sb, sa, **kw)
    e = max(e, close(gs, got, EXACT64, "symmetry", floor=mag, fn="correlation"))
    if meta["product"]:
        e = max(e, close(got, 0.0, EXACT64, "product-zero", floor=mag, fn="correlation"))
    return {"nt": not meta["product"] and len(dims) >= 3,
            "cls": ["kind=" + meta["kind"], "sparse=%s" % case["sparse"], "sa>sb" if sa > sb else "sa<sb"] + (["noncontig"] if abs(sa - sb) > 1 else [])
            + (["qudit"] if max(dims) > 2 else []) + (["precomp"] if case["precomp"] else []), "err": e}


@st.composite
def s_pauli_corr(draw, tier):
    n = draw(st.integers(2, 5))
    pair = list(draw(st.permutations(list(range(n)))))[:2]
    ss = draw(st.lists(st.text(alphabet="xyz", min_size=2, max_size=2), min_size=1, max_size=4))
    return {"n": n, "state": draw(s_state(2 ** n)), "sysa": pair[0], "sysb": pair[1], "ss": ss,
            "default_ss": draw(st.integers(0, 3)) == 0, "sum_abs": draw(st.booleans()), "precomp": draw(st.booleans())}


def run_pauli_corr(case):
    qu = Q()
    n, sa, sb = case["n"], case["sysa"], case["sysb"]
    dims = [2] * n
    x, meta = make_state(case["state"], dims)
    rho = o_dop(x)
    ss = ("xx", "yy", "zz") if case["default_ss"] else tuple(case["ss"])
    refs = []
    for s1, s2 in ss:
        a, b = PAULI[s1.upper()], PAULI[s2.upper()]
        refs.append(np.real(np.trace(rho @ embed(np.kron(a, b), dims, [sa, sb])) - np.trace(rho @ embed(a, dims, [sa])) * np.trace(rho @ embed(b, dims, [sb]))))
    kw = {"sysa": sa, "sysb": sb, "sum_abs": case["sum_abs"]}
    if not case["default_ss"]:
        kw["ss"] = ss
    p = to_q(x, real=case["state"]["real"])
    if case["precomp"]:
        f = qu.pauli_correlations(p, precomp_func=True, **kw)  # p only fixes the register size here
        got = f(p) if case["sum_abs"] else [g(p) for g in f]
    else:
        got = qu.pauli_correlations(p, **kw)
    if case["sum_abs"]:
        e = close(got, sum(abs(r) for r in refs), EXACT64, "definition", fn="pauli_correlations", sum_abs=True)
    else:
        if len(got) != len(refs):
            raise Violation("length", fn="pauli_correlations", got=len(got))
        e = close(np.array([complex(g) for g in got]), np.array(refs), EXACT64, "definition", fn="pauli_correlations", sum_abs=False)
    return {"nt": not meta["product"] and n >= 3, "cls": ["kind=" + meta["kind"], "sum_abs=%s" % case["sum_abs"], "sa>sb" if sa > sb else "sa<sb"]
            + (["precomp"] if case["precomp"] else []), "err": e}


# ---------------------------------------------------------------------------
# 22. ent_cross_matrix
# ---------------------------------------------------------------------------

@st.composite
def s_ecm(draw, tier):
    n = draw(st.integers(2, 5))
    blc = draw(st.sampled_from([1, 1, 1, 2])) if n >= 2 else 1
    return {"n": n, "state": draw(s_state(2 ** n)), "blc": blc, "fn": draw(st.sampled_from(["default", "logneg", "negativity", "mutinf"])),
            "self": draw(st.booleans()), "upscale": draw(st.booleans())}


def run_ecm(case):
    qu = Q()
    n, b = case["n"], case["blc"]
    dims = [2] * n
    x, meta = make_state(case["state"], dims)
    fn = case["fn"]
    kw = {"sz_blc": b, "calc_self_ent": case["self"], "upscale": case["upscale"]}
    if fn != "default":
        kw["ent_fn"] = getattr(qu, fn)
    if b == 1 and not case["upscale"] and case["self"] and fn == "default":
        kw = {}
    got = np.asarray(qu.ent_cross_matrix(to_q(x, real=case["state"]["real"]), **kw), dtype=float)
    nb = n // b
    blocks = [list(range(i * b, (i + 1) * b)) for i in range(nb)]

    def ofn(rab, d2):
        if fn in ("default", "logneg"):
            return o_logneg(rab, d2, [0])
        if fn == "negativity":
            return o_neg(rab, d2, [0])
        return o_mutinf(rab, d2, [0], [1])

    ref = np.full((nb, nb), np.nan)
    for i in range(nb):
        for j in range(i, nb):
            if i == j:
                if not case["self"]:
                    continue
                ra = o_rdm(x, dims, blocks[i])
                w, v = np.linalg.eigh(herm(ra))
                w = np.sqrt(np.clip(w, 0, None))
                d = 2 ** b
                pur = sum(w[k] * np.kron(v[:, k], np.eye(d)[k]) for k in range(d))
                val = ofn(o_dop(pur), [d, d])
            else:
                val = ofn(o_rdm(x, dims, blocks[i] + blocks[j]), [2 ** b, 2 ** b])
            ref[i, j] = ref[j, i] = val
    if case["upscale"]:
        if got.shape != (n, n):
            raise Violation("shape", fn="ent_cross_matrix", got=list(got.shape), upscale=True)
        small = np.full((nb, nb), np.nan)
        for i in range(nb):
            for j in range(nb):
                blk = got[i * b:(i + 1) * b, j * b:(j + 1) * b]
                if not (np.all(np.isnan(blk)) or np.nanmax(np.abs(blk - blk.flat[0])) < 1e-12):
                    raise Violation("upscale-block-not-constant", fn="ent_cross_matrix")
                small[i, j] = blk.flat[0]
        if nb * b < n and not np.all(np.isnan(got[nb * b:, :])):
            raise Violation("upscale-ignored-sites-not-nan", fn="ent_cross_matrix")
        got = small
    if got.shape != (nb, nb):
        raise Violation("shape", fn="ent_cross_matrix", got=list(got.shape))
    if not np.array_equal(np.isnan(got), np.isnan(ref)):
        raise Violation("nan-pattern", fn="ent_cross_matrix", self_ent=case["self"])
    m = ~np.isnan(ref)
    e = close(got[m], got.T[m], EXACT64, "symmetric", fn="ent_cross_matrix")
    tol = SQRT64
    if b == 1:
        e = max(e, close(got[m], ref[m], tol, "definition", fn="ent_cross_matrix", ent_fn=fn, pure=meta["pure"]))
    else:
        # the per-site normalisation ( / sz_blc ) is not documented: accept either reading, but one factor for all entries
        ok = [c for c in (1.0, 1.0 / b) if rel_err(got[m], c * ref[m], floor=1.0) <= tol]
        if not ok:
            raise Violation("definition", fn="ent_cross_matrix", ent_fn=fn, blc=b, pure=meta["pure"])
    return {"nt": not meta["product"] and nb >= 2, "cls": ["n=%d" % n, "blc=%d" % b, "fn=" + fn, "kind=" + meta["kind"]]
            + (["upscale"] if case["upscale"] else []) + (["self"] if case["self"] else []), "err": e}


# ---------------------------------------------------------------------------
# 23. qid
# ---------------------------------------------------------------------------

@st.composite
def s_qid(draw, tier):
    n = draw(st.integers(1, 5))
    inds = list(draw(st.permutations(list(range(n)))))[:draw(st.integers(1, n))]
    return {"n": n, "state": draw(s_state(2 ** n)), "inds": inds, "as_int": draw(st.booleans()), "sparse_comp": draw(st.sampled_from([None, True, False])),
            "precomp": draw(st.booleans()), "power": draw(st.sampled_from([None, 1, 2])), "coeff": draw(st.sampled_from([None, 0.5]))}


def run_qid(case):
    qu = Q()
    n = case["n"]
    dims = [2] * n
    x, meta = make_state(case["state"], dims)
    rho = o_dop(x)
    power = 2 if case["power"] is None else case["power"]
    coeff = 1 if case["coeff"] is None else case["coeff"]
    ref = []
    for i in case["inds"]:
        tot = 0.0
        for s in (SX, SY, SZ):
            op = embed(s, dims, [i])
            # quimb.norm default (documented): ntype=2, the largest singular value
            tot += coeff * np.linalg.norm(rho @ op - op @ rho, 2) ** power
        ref.append(tot)
    kw = {}
    for k_, v in (("sparse_comp", case["sparse_comp"]), ("power", case["power"]), ("coeff", case["coeff"])):
        if v is not None:
            kw[k_] = v
    inds = arg_sys(case["inds"], case["as_int"])
    p = to_q(x, real=case["state"]["real"])
    if case["precomp"]:
        got = qu.qid(None, tuple(dims), inds, precomp_func=True, **kw)(p)
    else:
        got = qu.qid(p, tuple(dims), inds, **kw)
    if len(got) != len(ref):
        raise Violation("length", fn="qid", got=len(got))
    e = close(np.array([complex(g) for g in got]), np.array(ref), INV64, "definition", fn="qid", sparse_comp=case["sparse_comp"])
    if meta["pure"]:
        gp = qu.qid(to_q(rho), tuple(dims), inds, **kw)
        e = max(e, close(np.array([complex(g) for g in gp]), np.array([complex(g) for g in got]), INV64, "ket==projector", fn="qid"))
    return {"nt": n >= 2, "cls": ["kind=" + meta["kind"], "sparse_comp=%s" % case["sparse_comp"]] + (["precomp"] if case["precomp"] else []), "err": e}


# ---------------------------------------------------------------------------
# 24. approx_spectral shortcuts (stochastic: quimb's generator is seeded from the case)
# ---------------------------------------------------------------------------

APPROX_FNS = ("entropy_subsys_approx", "tr_sqrt_subsys_approx", "logneg_subsys_approx", "negativity_subsys_approx",
              "entropy_subsys:thresh", "tr_sqrt_subsys:thresh", "logneg_subsys:thresh", "mutinf_subsys:thresh")


@st.composite
def s_approx(draw, tier):
    fn = draw(st.sampled_from(APPROX_FNS))
    two = fn.startswith(("logneg", "negativity"))
    # by construction the operator handed to the stochastic estimator has dimension >= 8:
    #  one-subsystem routes: 6 sites, |A| = 3 sites (dim 8..27) and environment >= 8 (the routes swap to the smaller side)
    #  logneg / negativity: 5 sites, D <= 72, A u B = all but one site (dim >= 10)
    #  mutinf_subsys: 6 sites, |A| = 3, |B| = 2, |C| = 1 (S(A) goes through the estimator, S(B), S(AB) mostly exact)
    if two:
        dims = draw(s_dims(5, 5, maxD=72, choices=(2, 2, 3)))
    else:
        dims = draw(s_dims(6, 6, maxD=128, choices=(2, 2, 3)))
    n = len(dims)
    perm = list(draw(st.permutations(list(range(n)))))
    if two:
        k = draw(st.integers(1, 3))
        sysa, sysb = perm[:k], perm[k:n - 1]
    elif fn.startswith("mutinf"):
        sysa, sysb = perm[:3], perm[3:5]
    else:
        sysa, sysb = perm[:3], []
    return {"fn": fn, "dims": dims, "sysa": sysa, "sysb": sysb, "seed": draw(A.seeds), "qseed": draw(st.integers(0, 2 ** 31 - 1)),
            "kind": draw(st.sampled_from(["haar", "haar", "ghz2"]))}


def run_approx(case):
    qu = Q()
    from quimb.linalg import approx_spectral as aps

    fn, dims, sysa, sysb = case["fn"], case["dims"], case["sysa"], case["sysb"]
    n = len(dims)
    x, meta = make_state({"kind": case["kind"], "seed": case["seed"], "real": False}, dims)
    psi = to_q(x)
    da = int(np.prod([dims[i] for i in sysa]))
    D = int(np.prod(dims))
    qu.seed_rand(case["qseed"])
    name = fn.split(":")[0]
    rel = 0.15
    if name in ("entropy_subsys_approx", "entropy_subsys"):
        ref = H2(o_schmidt(x, dims, sysa) ** 2)
        if fn.endswith("thresh"):
            got = qu.entropy_subsys(psi, tuple(dims), tuple(sysa), approx_thresh=8)
        else:
            got = aps.entropy_subsys_approx(psi, tuple(dims), tuple(sysa))
    elif name in ("tr_sqrt_subsys_approx", "tr_sqrt_subsys"):
        ref = float(np.sum(o_schmidt(x, dims, sysa)))
        if fn.endswith("thresh"):
            got = qu.tr_sqrt_subsys(psi, tuple(dims), tuple(sysa), approx_thresh=8)
        else:
            got = aps.tr_sqrt_subsys_approx(psi, tuple(dims), tuple(sysa))
    elif name == "mutinf_subsys":
        ref = o_mutinf(x, dims, sysa, sysb)
        got = qu.mutinf_subsys(psi, tuple(dims), tuple(sysa), tuple(sysb), approx_thresh=8)
        rel = 0.3  # three independent estimates
    else:
        dab, pa, pb, ab = sub_positions(dims, sysa, sysb)
        rab = o_rdm(x, dims, ab)
        rel = 0.2
        if name == "negativity_subsys_approx":
            ref = o_neg(rab, dab, pa)
            got = aps.negativity_subsys_approx(psi, tuple(dims), tuple(sysa), tuple(sysb))
        else:
            ref = o_logneg(rab, dab, pa)
            if fn.endswith("thresh"):
                got = qu.logneg_subsys(psi, tuple(dims), tuple(sysa), tuple(sysb), approx_thresh=8)
            else:
                got = aps.logneg_subsys_approx(psi, tuple(dims), tuple(sysa), tuple(sysb))
    got = real_scalar(got, "approx", fn=fn)
    err = abs(got - ref) / (abs(ref) + 1)
    if not err <= rel:
        raise Violation("approx-outside-stochastic-tolerance", fn=fn, got=got, want=ref, err=err, rel=rel)
    return {"nt": True, "cls": ["fn=" + fn, "kind=" + case["kind"], "da=%d" % da] + (sys_classes(sysa, sysb) if sysb else sys_classes(sysa)),
            "err": err / rel * 1e-12}  # err is reported relative to the stochastic tolerance, scaled so it does not drown the exact sub-checks


# ---------------------------------------------------------------------------
# 25. lazy partial-trace linear operators used by the shortcut paths (exact)
# ---------------------------------------------------------------------------

@st.composite
def s_lazy(draw, tier):
    dims = draw(s_dims(2, 5, maxD=128))
    n = len(dims)
    which = draw(st.sampled_from(["ptr", "ppt"])) if n >= 2 else "ptr"
    if which == "ptr":
        (sysa,) = draw(s_subsets(n, 1))
        sysb = []
    else:
        sysa, sysb = draw(s_subsets(n, 2))
    return {"which": which, "dims": dims, "sysa": sysa, "sysb": sysb, "state": draw(s_state(int(np.prod(dims)), pure=True)),
            "vseed": draw(A.seeds), "act": draw(st.sampled_from(["to_dense", "matvec", "matmat"]))}


def run_lazy(case):
    from quimb.linalg import approx_spectral as aps

    dims, sysa, sysb = case["dims"], case["sysa"], case["sysb"]
    x, meta = make_state(case["state"], dims)
    psi = to_q(x)
    if case["which"] == "ptr":
        lo = aps.lazy_ptr_linop(psi, tuple(dims), tuple(sysa))
        M = o_rdm(x, dims, sysa)            # row/column order = order of sysa as given (kA{i} for i in sysa)
    else:
        lo = aps.lazy_ptr_ppt_linop(psi, tuple(dims), tuple(sysa), tuple(sysb))
        dab, pa, pb, ab = sub_positions(dims, sysa, sysb)
        M = o_pt(o_rdm(x, dims, ab), dab, pa)
    if tuple(lo.shape) != M.shape:
        raise Violation("shape", fn="lazy_" + case["which"], got=list(lo.shape), want=list(M.shape))
    rng = np.random.default_rng(case["vseed"])
    d = M.shape[0]
    act = case["act"]
    if act == "to_dense":
        got, want, fl = np.asarray(lo.to_dense()), M, 1.0
    elif act == "matvec":
        v = rng.normal(size=d) + 1j * rng.normal(size=d)
        got, want, fl = np.asarray(lo @ v), M @ v, float(np.linalg.norm(v))
    else:
        V = rng.normal(size=(d, 3)) + 1j * rng.normal(size=(d, 3))
        got, want, fl = np.asarray(lo @ V), M @ V, float(np.linalg.norm(V))
    # the spectrum is what the shortcuts consume: it must be right whatever the basis order
    e = 0.0
    if act == "to_dense":
        e = close(np.sort(np.linalg.eigvalsh(herm(got))), np.sort(np.linalg.eigvalsh(herm(M))), EXACT64, "spectrum", fn="lazy_" + case["which"])
    e = max(e, close(got, want, EXACT64, "definition", floor=fl, fn="lazy_" + case["which"], act=act,
                     reordered="reordered" in sys_classes(sysa, sysb)))
    return {"nt": not meta["product"] and len(dims) >= 3, "cls": ["which=" + case["which"], "act=" + act, "kind=" + meta["kind"]] + sys_classes(sysa, sysb),
            "err": e}


# ---------------------------------------------------------------------------
# 26. dense == sparse
# ---------------------------------------------------------------------------

SPARSE_FNS = ("ptr", "mutinf:ket", "entropy_subsys", "schmidt_gap", "tr_sqrt_subsys", "mutinf_subsys", "logneg_subsys", "logneg:ket",
              "fidelity:ket-rho", "fidelity:ket-sprho", "trace_distance:sp-dense", "correlation", "pauli_decomp", "concurrence", "owci")


@st.composite
def s_sparse(draw, tier):
    fn = draw(st.sampled_from(SPARSE_FNS))
    qubits = fn in ("pauli_decomp", "concurrence", "owci")
    dims = draw(s_dims(2, 4 if fn == "pauli_decomp" else 5, maxD=16 if fn == "pauli_decomp" else 64, choices=(2,) if qubits else CHOICES))
    n = len(dims)
    sysa, sysb = draw(s_subsets(n, 2))
    ketfn = fn in ("mutinf:ket", "entropy_subsys", "schmidt_gap", "tr_sqrt_subsys", "mutinf_subsys", "logneg_subsys", "logneg:ket") or fn.startswith("fidelity")
    pure = True if ketfn else (False if fn in ("trace_distance:sp-dense", "pauli_decomp", "owci") else draw(st.booleans()))
    if fn == "owci":
        dims = [2, 2]
    D = int(np.prod(dims))
    return {"fn": fn, "dims": dims, "sysa": sysa, "sysb": sysb, "state": draw(s_state(D, pure=pure)), "state2": draw(s_state(D, pure=False)),
            "oseed": draw(A.seeds), "zero_frac": draw(st.sampled_from([0.0, 0.0, 0.5])), "stype": draw(st.sampled_from(["csr", "csr", "csc", "coo", "bsr"]))}


def run_sparse(case):
    qu = Q()
    fn, dims, sysa, sysb = case["fn"], case["dims"], case["sysa"], case["sysb"]
    n = len(dims)
    D = int(np.prod(dims))
    x, meta = make_state(case["state"], dims)
    if case["zero_frac"] and x.ndim == 1:
        # genuinely sparse amplitudes
        rng = np.random.default_rng(case["oseed"])
        mask = rng.random(D) < case["zero_frac"]
        if np.linalg.norm(x * ~mask) > 1e-3:
            x = x * ~mask
            x = x / np.linalg.norm(x)
            meta["product"] = False
    y, _ = make_state(case["state2"], dims)
    xs = qu.qu(x, qtype="ket" if x.ndim == 1 else "dop", sparse=True, stype=case["stype"] if fn == "ptr" else "csr")
    xd = to_q(x)
    tdims = tuple(dims)
    a, b = tuple(sysa), tuple(sysb)
    tol = 1e-8
    if fn == "ptr":
        keep = sorted(sysa)
        try:
            got = qu.ptr(xs, tdims, keep)
        except (TypeError, NotImplementedError) as ex:
            if case["stype"] in ("coo", "bsr"):
                # these formats are given a .ptr method by quimb.core, but the kernel indexes / slices them
                raise Violation("ptr-sparse-format-crash", fn="ptr", stype=case["stype"], exc=type(ex).__name__)
            raise
        got = got.toarray() if hasattr(got, "toarray") else np.asarray(got)
        e = close(got, o_rdm(x, dims, keep), EXACT64, "definition", fn="ptr:sparse", pure=meta["pure"])
        e = max(e, close(got, np.asarray(qu.ptr(xd, tdims, keep)), EXACT64, "dense==sparse", fn="ptr"))
        return {"nt": n >= 3 and not meta["product"], "cls": ["fn=ptr", "stype=" + case["stype"], "pure" if meta["pure"] else "mixed"] + sys_classes(keep), "err": e}
    if fn == "mutinf:ket":
        f = lambda p: qu.mutinf(p, tdims, a)
        ref = 2 * H2(o_schmidt(x, dims, sysa) ** 2) if len(sysa) < n else None
    elif fn == "entropy_subsys":
        f = lambda p: qu.entropy_subsys(p, tdims, a)
        ref = H2(o_schmidt(x, dims, sysa) ** 2)
    elif fn == "schmidt_gap":
        f = lambda p: qu.schmidt_gap(p, tdims, a)
        pr = np.sort(o_schmidt(x, dims, sysa) ** 2)[::-1]
        ref = float(pr[0] - (pr[1] if pr.size > 1 else 0))
    elif fn == "tr_sqrt_subsys":
        f = lambda p: qu.tr_sqrt_subsys(p, tdims, a)
        ref = float(np.sum(o_schmidt(x, dims, sysa)))
        tol = SQRT64
    elif fn == "mutinf_subsys":
        f = lambda p: qu.mutinf_subsys(p, tdims, a, b)
        ref = o_mutinf(x, dims, sysa, sysb)
    elif fn == "logneg_subsys":
        f = lambda p: qu.logneg_subsys(p, tdims, a, b)
        dab, pa, pb, ab = sub_positions(dims, sysa, sysb)
        ref = o_logneg(o_rdm(x, dims, ab), dab, pa)
        tol = SQRT64
    elif fn == "logneg:ket":
        f = lambda p: qu.logneg(p, tdims, a)
        ref = o_logneg(o_dop(x), dims, sysa)
        tol = SQRT64
    elif fn == "fidelity:ket-rho":
        yq = to_q(y)
        f = lambda p: qu.fidelity(p, yq)
        ref = o_fidelity(x, y)
    elif fn == "fidelity:ket-sprho":
        yq = qu.qu(y, qtype="dop", sparse=True)
        f = lambda p: qu.fidelity(p, yq)
        ref = o_fidelity(x, y)
    elif fn == "trace_distance:sp-dense":
        yq = to_q(y)
        f = lambda p: qu.trace_distance(p, yq)
        ref = o_tracedist(x, y)
    elif fn == "correlation":
        rng = np.random.default_rng(case["oseed"])
        sa, sb = sysa[0], sysb[0]
        Aop, Bop = rherm(rng, dims[sa]), rherm(rng, dims[sb])
        qa, qb = qu.qu(Aop, sparse=True), qu.qu(Bop, sparse=True)
        f = lambda p: qu.correlation(p, qa, qb, sa, sb, dims=tdims)
        rho = o_dop(x)
        ref = np.trace(rho @ embed(np.kron(Aop, Bop), dims, [sa, sb])) - np.trace(rho @ embed(Aop, dims, [sa])) * np.trace(rho @ embed(Bop, dims, [sb]))
    elif fn == "concurrence":
        sa, sb = sysa[0], sysb[0]
        if n == 2:
            f = lambda p: qu.concurrence(p)
            ref = o_concurrence(o_dop(x))
        else:
            f = lambda p: qu.concurrence(p, tdims, sa, sb)
            ref = o_concurrence(o_rdm(x, dims, [sa, sb]))
        tol = SQRT64
    elif fn == "owci":
        # (1 x P) rho is a NON-hermitian sparse operator going through the sparse partial trace (which mirrors the
        # upper triangle): its partial trace over B is hermitian, so sparse and dense must still agree
        U = runitary(np.random.default_rng(case["oseed"]), 2)
        els = [np.outer(U[:, k], U[:, k].conj()) for k in range(2)]
        prjs = [qu.qu(E) for E in els]
        f = lambda p: qu.one_way_classical_information(p, prjs)
        r4 = x.reshape(2, 2, 2, 2)
        ref = o_entropy(np.einsum("abcb->ac", r4))
        for E in els:
            M = np.einsum("be,aecb->ac", E, r4)
            pj = float(np.real(np.trace(M)))
            if pj < 1e-9:
                raise Reject("zero-probability outcome")
            ref -= pj * o_entropy(M / pj)
    elif fn == "pauli_decomp":
        rd = qu.pauli_decomp(xd, mode="c")
        rs = qu.pauli_decomp(xs, mode="c")
        if sorted(rd) != sorted(rs):
            raise Violation("names", fn="pauli_decomp:sparse")
        e = max(close(rs[k], rd[k], EXACT64, "dense==sparse", fn="pauli_decomp") for k in rd)
        return {"nt": n >= 2, "cls": ["fn=pauli_decomp"], "err": e}
    else:
        raise AssertionError(fn)
    gd = f(xd)
    gs = f(xs)
    mag = max(1.0, abs(complex(gd)))
    e = close(gs, gd, tol, "dense==sparse", floor=mag, fn=fn)
    if ref is not None:
        e = max(e, close(gs, ref, tol, "definition", floor=mag, fn=fn + ":sparse"))
    return {"nt": n >= 3 and not meta["product"], "cls": ["fn=" + fn, "pure" if meta["pure"] else "mixed"] + (["sparse-amplitudes"] if case["zero_frac"] else []), "err": e}


SUBCHECKS = [
    SubCheck("entropy", run_entropy, s_entropy, examples=(150, 3000), shards=(1, 4),
             rule="entropy(op | eigenvalue list | rank= | unitary conjugate) vs -sum l log2 l, 0<=S<=log2 D; nt: rank>=2"),
    SubCheck("entropy_subsys", run_entropy_subsys, s_entropy_subsys, examples=(150, 3000), shards=(1, 4),
             rule="entropy_subsys of pure states vs Schmidt values; S(A)=S(B); == entropy(ptr); LU/relabel invariance; nt: entangled, proper subset, n>=3"),
    SubCheck("mutinf", run_mutinf, s_mutinf, examples=(150, 3000), shards=(1, 4),
             rule="mutinf(sysa|rest) of kets and density operators vs S(A)+S(B)-S(AB); ket==projector; I=2S; symmetry; invariance; bounds; nt: non-product, n>=3, rank>=2"),
    SubCheck("mutinf_subsys", run_mutinf_subsys, s_two_subsys, examples=(150, 3000), shards=(1, 4),
             rule="mutinf_subsys(sysa, sysb) of pure states vs textbook; symmetry; == mutinf(ptr); invariance; nt: entangled, n>=3, non-contiguous or reordered choice"),
    SubCheck("partial_transpose", run_ptranspose, s_ptranspose, examples=(150, 3000), shards=(1, 4),
             rule="partial_transpose vs axis swap; involution; PT_A == (PT_B)^T; nt: non-product, n>=3"),
    SubCheck("negativity_logneg", run_neg, s_neg, examples=(200, 4000), shards=(1, 4),
             rule="logneg / negativity of a bipartition vs trace norm of the partial transpose; ket==projector; Schmidt formula; N=(2^EN-1)/2; symmetry; invariance; bounds; nt: non-product, n>=3, rank>=2"),
    SubCheck("logneg_subsys", run_logneg_subsys, s_two_subsys, examples=(150, 3000), shards=(1, 4),
             rule="logneg_subsys(sysa, sysb) of pure states vs ptrace+PT oracle; symmetry; == logneg(ptr); invariance; nt: entangled, n>=3, non-contiguous or reordered choice"),
    SubCheck("concurrence", run_concurrence, s_concurrence, examples=(150, 3000), shards=(1, 4),
             rule="concurrence of two qubits (alone or inside a 3-5 party register incl. qudit spectators, sysa>sysb) vs Wootters via svd; pure formula; ket==projector; symmetry; LU invariance; nt: C>0 or non-product n>=3"),
    SubCheck("fidelity", run_fidelity, s_pair, examples=(200, 4000), shards=(1, 4),
             rule="fidelity over ket/rho type pairs x squared in {default, False, True} vs ||sqrt(a) sqrt(b)||_1; symmetry; F(r,r)=1; unitary invariance; ket==projector; nt: 1e-3<F<1-1e-3, not identical"),
    SubCheck("trace_distance", run_trace_distance, s_pair, examples=(200, 4000), shards=(1, 4),
             rule="trace_distance over ket/rho type pairs x isherm vs half trace norm (ket/ket: squares compared); symmetry; T(r,r)=0; unitary invariance; Fuchs-van de Graaf with fidelity; nt: T>1e-3, not identical"),
    SubCheck("schmidt_gap", run_schmidt_gap, s_entropy_subsys, examples=(150, 3000), shards=(1, 4),
             rule="schmidt_gap vs two largest squared Schmidt values; symmetry A<->B; invariance; product -> 1; nt: entangled, n>=3"),
    SubCheck("tr_sqrt", run_tr_sqrt, s_tr_sqrt, examples=(150, 3000), shards=(1, 4),
             rule="tr_sqrt(op | rank=) vs sum sqrt eigenvalues; tr_sqrt_subsys vs sum of Schmidt values; nt: rank>=2 / entangled n>=3"),
    SubCheck("owci", run_owci, s_owci, examples=(150, 3000), shards=(1, 4),
             rule="one_way_classical_information for random projective and trine measurements on qubit B vs S(A)-sum p S(A|j); nt: non-product"),
    SubCheck("quantum_discord", run_discord, s_discord, examples=(14, 300), shards=(2, 4), soft_budget=(60.0, 600.0),
             rule="quantum_discord of two qubits (alone / inside 3-4 qubit registers, both orders of sysa,sysb) vs brute-force minimisation over a 181x361 grid of projective measurements + polish, tol 1e-3; nt: discord>1e-4"),
    SubCheck("purify", run_purify, s_purify, examples=(150, 3000), shards=(1, 4),
             rule="purify: shape d^2, norm 1, partial trace back == rho (own and quimb ptr), purifier spectrum; nt: rank>=2"),
    SubCheck("kraus_op", run_kraus, s_kraus, examples=(200, 4000), shards=(1, 4),
             rule="kraus_op on the whole space or on 1-2 (reordered) subsystems vs sum E rho E^dag with embed; array/list forms; check=True accepts channels and refuses invalid sets; trace preservation; nt: acts on a proper subsystem"),
    SubCheck("projector", run_projector, s_observable, examples=(150, 3000), shards=(1, 4),
             rule="projector(A | eigh tuple, eigenvalue) for constructed degenerate spectra vs sum |v><v|; idempotent; A P = l P; nt: degenerate target"),
    SubCheck("measure", run_measure, s_observable, examples=(200, 4000), shards=(1, 4),
             rule="measure with fixed eigenvalue / seeded random outcome on kets and density operators with restricted support: outcome is an eigenvalue of non-zero Born probability, post state == P p / norm; nt: some outcome has probability 0 or degenerate"),
    SubCheck("simulate_counts", run_counts, s_counts, examples=(150, 3000), shards=(1, 4),
             rule="simulate_counts with explicit seed on states with restricted support, phys_dim 2/3: totals, key format, outcomes inside the Born support, seed determinism; nt: restricted support and n>=2"),
    SubCheck("dephase", run_dephase, s_dephase, examples=(150, 3000), shards=(1, 4),
             rule="dephase vs (1-p) rho + p 1/d; rand_rank int/float: diagonal dephaser with the stated number of equal entries; trace 1; nt: p>0"),
    SubCheck("pauli_decomp", run_pauli_decomp, s_pauli_decomp, examples=(60, 1200), shards=(1, 4),
             rule="pauli_decomp(mode='c') of kets, density operators, hermitian operators on 1-4 qubits: names, coefficients tr(rho P)/2^n, reconstruction, ordering, ket==projector; nt: n>=2"),
    SubCheck("bell_decomp", run_bell_decomp, s_bell_decomp, examples=(80, 1500), shards=(1, 4),
             rule="bell_decomp(mode='c') on one or two qubit pairs: names in the documented enumeration, coefficients <B|rho|B>, sum = 1; nt: non-product"),
    SubCheck("correlation", run_correlation, s_correlation, examples=(200, 4000), shards=(1, 4),
             rule="correlation(A,B,sysa,sysb) on qubit and qudit registers, any order of sites, sparse flag / sparse operators / precomp vs <AB>-<A><B> with embed; ket==projector; symmetry; product -> 0; nt: non-product n>=3"),
    SubCheck("pauli_correlations", run_pauli_corr, s_pauli_corr, examples=(100, 2000), shards=(1, 4),
             rule="pauli_correlations over drawn operator pairs, sum_abs, precomp vs textbook; nt: non-product n>=3"),
    SubCheck("ent_cross_matrix", run_ecm, s_ecm, examples=(100, 2000), shards=(1, 4),
             rule="ent_cross_matrix on 2-5 qubits, block sizes 1-2, logneg/negativity/mutinf, self entanglement via own purification, upscale layout, nan pattern, symmetry; values asserted for blc=1, up to one common factor in {1,1/blc} for blc=2; nt: non-product and >=2 blocks"),
    SubCheck("qid", run_qid, s_qid, examples=(100, 2000), shards=(1, 4),
             rule="qid vs sum_s coeff*||[rho, s_i]||_2^power (quimb.norm's documented default), sparse_comp on/off, precomp, ket==projector; nt: n>=2"),
    SubCheck("approx", run_approx, s_approx, examples=(6, 60), shards=(3, 6), soft_budget=(70.0, 900.0), hard_timeout=(600.0, 2400.0),
             rule="entropy/tr_sqrt/logneg/negativity _subsys_approx and the approx_thresh=8 routes of entropy_subsys, tr_sqrt_subsys, logneg_subsys, mutinf_subsys vs exact within 0.15-0.3*(|exact|+1); the estimated operator has dimension >=8 by construction (the routes swap to the smaller side); seeded; all nt"),
    SubCheck("lazy_linop", run_lazy, s_lazy, examples=(150, 3000), shards=(1, 4),
             rule="lazy_ptr_linop / lazy_ptr_ppt_linop (to_dense, matvec, matmat) vs reduced state / its partial transpose, spectrum and entries; nt: entangled n>=3"),
    SubCheck("sparse", run_sparse, s_sparse, examples=(250, 4000), shards=(1, 4),
             rule="15 entry points evaluated on sparse kets / operators vs the same call on the dense object and vs the oracle; nt: non-product n>=3"),
]
