"""C05 - tensor decomposition: exact when untruncated, optimal and honest when truncated.

Everything is observed through the public entry points ``array_split`` /
``array_svals`` (quimb.tensor.decomp) and ``Tensor.split`` / ``tensor_split``.
The method, absorb-form and cutoff-mode tables are *read from the code under
test* (``_SPLIT_FNS``, ``_ABSORB_MAP``, ``_CUTOFF_MODE_MAP`` and the parser's own
``startswith("lq")`` alias rule); what each cell must return is decided here,
from the documented contract only:

* which of (left, s, right) is returned for a form (docstring of array_split),
* defining products of every form, all gauge invariant (so no assumption on
  phases / bases of degenerate subspaces is made):
    two factors        L . diag(s)? . R                == x_k
    lorthog  (U)       U^H U = 1 and (1 - U U^H) x_k   == 0
    rorthog  (VH)      VH VH^H = 1 and x_k (1 - VH^H VH) == 0
    lfactor  (Us)      A A^H                           == x_k x_k^H
    rfactor  (sVH)     A^H A                           == x_k^H x_k
    lsqrt    (Usq)     (A A^H)^2                       == x_k x_k^H
    rsqrt    (sqVH)    (A^H A)^2                       == x_k^H x_k
    s                  values                          == kept singular values
  where x_k = x when nothing is truncated, and the best rank-k approximation of x
  (numpy.linalg.svd, Eckart-Young) with the kept values rescaled by the
  documented renormalisation factor otherwise,
* factors that ``parse_split_left_right_isom`` (the function tensor_split uses
  to set ``left_inds``) reports isometric are isometric,
* the kept count is the one of the documented cut-off rule evaluated on numpy
  singular values (with an ambiguity band), never 0, never above max_bond,
* info['error'] equals the actual Frobenius distance (renorm off) / the norm of
  the discarded values.
"""
from __future__ import annotations

import inspect
import itertools
import math

import numpy as np
from hypothesis import strategies as st

from .. import arrays as A
from .. import core
from ..core import EXACT32, EXACT64, INV32, INV64, Reject, SubCheck, Violation, rel_err
from ..oracle import einsum_value, iso_defect

RULE = ("matrices 1..8 x 1..8 (tall/wide/square/dimension 1; gauss, exact rank k, degenerate and geometric spectra, zeros, "
        "hermitian, psd; 4 dtypes) and tensors of rank 2-5 with a random bipartition and stored axis order, split by every "
        "registered method x form x cutoff mode x truncation x renorm (tables read from quimb.tensor.decomp); oracle = "
        "numpy.linalg.svd + documented cut-off rules + gauge-invariant defining products; non-trivial = truncation removed >= 1 "
        "value, or rank-deficient / dimension-1 input, or single precision")
ASSUMPTIONS = [
    "numpy.linalg.svd / eigvalsh are the trusted reference for singular values and best rank-k approximations",
    "a kept count anywhere inside the ambiguity band of a cut-off threshold is accepted (1e-9 relative for double, 1e-4 for single, "
    "sqrt(eps)-scaled for the documented lossy methods svd:eig / qr:cholesky)",
    "methods documented lossy (svd:eig, qr:cholesky) and the iterative / randomised drivers are held to INV64/INV32, on well "
    "conditioned inputs only; eigh/eigsh get Hermitian, cholesky positive definite, qr:cholesky full-rank inputs of the documented orientation",
    "renorm=True with cutoff_mode abs/rel has no documented power: any of 0, 1, 2 is accepted there",
    "exception types ValueError / NotImplementedError raised by array_split are documented refusals (counted as rejected cells); "
    "any other exception out of quimb is a crash",
]


# ---------------------------------------------------------------------------
# tables read from the code under test
# ---------------------------------------------------------------------------

def dmod():
    from quimb.tensor import decomp

    return decomp


_REG = None


def registry():
    """(methods, forms, cutoff_modes, caps) discovered from quimb.tensor.decomp.

    methods: registered drivers + the aliases the parser itself resolves ('auto',
    and 'lq' + suffix for every registered 'qr' + suffix);
    forms: one preferred spelling per distinct absorb code + 'auto';
    caps[method]: which of absorb/max_bond/cutoff/cutoff_mode/renorm/info the
    driver's signature takes (the same reflection parse_split_opts performs)."""
    global _REG
    if _REG is not None:
        return _REG
    D = dmod()
    drivers = sorted(D._SPLIT_FNS)
    aliases = ["auto"] + ["lq" + m[2:] for m in drivers if m.startswith("qr")]
    by_code = {}
    for key, code in D._ABSORB_MAP.items():
        if key is None or isinstance(key, str):
            by_code.setdefault(code, []).append(key)
    forms = []
    for code, names in by_code.items():
        if None in names:
            forms.append(None)
        else:
            # the last registered alias is the descriptive word ('left', 'lorthog', ...)
            forms.append(names[-1])
    forms = ["auto"] + forms
    modes = [k for k in D._CUTOFF_MODE_MAP if isinstance(k, str)]
    caps = {}
    for m in drivers:
        ps = inspect.signature(D._SPLIT_FNS[m]).parameters
        caps[m] = {k: (k in ps) for k in ("absorb", "max_bond", "cutoff", "cutoff_mode", "renorm", "info")}
    canon_of = {"auto": "auto"}
    for code, names in by_code.items():
        word = None if None in names else names[-1]
        for n in names:
            canon_of[n] = word
    _REG = {"drivers": drivers, "methods": drivers + aliases, "forms": forms, "modes": modes, "caps": caps,
            "codes": {(n if n is not None else None): c for c, ns in by_code.items() for n in ns},
            "canon": canon_of, "spellings": {w: [n for n in canon_of if canon_of[n] == w and n != "auto"] for w in set(canon_of.values())}}
    return _REG


def canon(form):
    """Canonical word ('left', 'lorthog', ..., None, 'auto') of any documented spelling ('Us,VH', 'U', 'U,s,VH', ...),
    read from decomp._ABSORB_MAP."""
    return registry()["canon"][form]


def form_code(form):
    return registry()["codes"][form]


# documented meaning of each form (docstring of array_split): what is returned
FORM_RETURNS = {
    # name: (left?, s?, right?)
    None: (True, True, True), "both": (True, False, True), "left": (True, False, True), "right": (True, False, True),
    "lorthog": (True, False, False), "rorthog": (False, False, True), "lfactor": (True, False, False),
    "rfactor": (False, False, True), "s": (False, True, False), "lsqrt": (True, False, False), "rsqrt": (False, False, True),
}

LOSSY = ("svd:eig", "qr:cholesky")
LOSSY64 = 5e-6  # ~300 sqrt(eps): the documented "some loss of precision" of Gram-matrix based methods (observed <= 1.5e-8)
ITERATIVE = ("svds", "isvd", "rsvd", "eigsh", "svd:rand")
HERMITIAN_ONLY = ("eigh", "eigsh")
SVD_TYPE = ("svd", "svd:eig")  # full-spectrum methods for which rule / optimality / error are promised exactly


def resolve_method(method, form, truncation):
    """The driver documentation says a (method, form) request resolves to.
    'auto': svd when truncating; otherwise qr for the forms that need no singular
    values and svd for the rest.  'lq...' is 'qr...' with default form 'left'."""
    if method == "auto":
        if truncation or form == "auto":
            return "svd", form
        if form in ("right", "lorthog", "rfactor", "left", "lfactor", "rorthog"):
            return "qr", form
        return "svd", form
    if method.startswith("lq"):
        return "qr" + method[2:], ("left" if form == "auto" else form)
    return method, form


def default_form(driver):
    """Default form of a driver, as documented: qr-like -> 'right', polar_left -> 'left', the rest 'both'.
    Read from the registry and translated to the word form."""
    D = dmod()
    code = D._DEFAULT_ABSORB[driver]
    for f in registry()["forms"]:
        if f != "auto" and form_code(f) == code:
            return f
    raise core.HarnessError(f"no form for default code {code}")


# ---------------------------------------------------------------------------
# inputs
# ---------------------------------------------------------------------------

def is_single(dt):
    return core.is_single(dt)


def real_dtype(dt):
    return {"float32": "float32", "complex64": "float32"}.get(str(dt), "float64")


def make_input(seed, kind, m, n, dtype, rank=None):
    """Matrix m x n with constructed structure.  Extra kinds on top of vf.arrays.make_matrix:
    'wellcond' (singular values in [0.5, 2]), 'herm_indef' (hermitian, both signs, |eig| separated),
    'psd_wc' (positive definite, eigenvalues in [0.5, 2])."""
    rng = np.random.default_rng(int(seed))
    cplx = "complex" in str(dtype)

    def g(*s):
        x = rng.normal(size=s)
        if cplx:
            x = x + 1j * rng.normal(size=s)
        return x

    k = min(m, n)
    if kind == "wellcond":
        u, _ = np.linalg.qr(g(m, k))
        v, _ = np.linalg.qr(g(n, k))
        s = np.sort(rng.uniform(0.5, 2.0, size=k))[::-1]
        x = (u * s) @ v.conj().T
    elif kind == "geometric":
        u, _ = np.linalg.qr(g(m, k))
        v, _ = np.linalg.qr(g(n, k))
        s = 1.7 ** (-np.arange(k))
        x = (u * s) @ v.conj().T
    elif kind == "lowrank":
        r = max(1, min(k, rank or 1))
        u, _ = np.linalg.qr(g(m, k))
        v, _ = np.linalg.qr(g(n, k))
        s = np.zeros(k)
        s[:r] = np.linspace(3.0, 2.0, r)
        x = (u * s) @ v.conj().T
    elif kind in ("herm_indef", "psd_wc", "herm_geo", "psd_geo", "psd_lowrank"):
        u, _ = np.linalg.qr(g(m, m))
        if kind == "psd_wc":
            w = np.sort(rng.uniform(0.5, 2.0, size=m))[::-1]
        elif kind == "herm_indef":
            w = np.linspace(2.0, 0.6, m) * np.where(np.arange(m) % 2 == 0, 1.0, -1.0)
        elif kind == "psd_geo":
            w = 1.7 ** (-np.arange(m))
        elif kind == "psd_lowrank":
            r = max(1, min(m, rank or 1))
            w = np.zeros(m)
            w[:r] = np.linspace(3.0, 2.0, r)
        else:
            w = 1.7 ** (-np.arange(m)) * np.where(np.arange(m) % 2 == 0, 1.0, -1.0)
        x = (u * w) @ u.conj().T
        x = (x + x.conj().T) / 2
    else:
        x = A.make_matrix(seed, kind, m, n, "complex128" if cplx else "float64", rank=rank)
    if not cplx:
        x = np.real(x)
    x = np.array(x, dtype=np.dtype(dtype), order="C")
    if kind in ("herm_indef", "psd_wc", "herm_geo", "psd_geo", "psd_lowrank", "hermitian", "psd"):
        # exactly Hermitian after the cast as well
        x = ((x + x.conj().T) / 2).astype(np.dtype(dtype))
    return x


SCALES64 = (0, 0, 0, 0, 8, -8, 10, -5)
SCALES32 = (0, 0, 0, 0, 3, -3, 4)


def scaled(x, e):
    """x * 10**e in x's dtype (all oracles are relative to the norm of x)."""
    if not e:
        return x
    return (x * (10.0 ** int(e))).astype(x.dtype)


def shape_class(m, n):
    if m == 1 or n == 1:
        return "dim1"
    return "tall" if m > n else ("wide" if m < n else "square")


# ---------------------------------------------------------------------------
# the documented truncation rule (on numpy singular values)
# ---------------------------------------------------------------------------

def rule_count(s, cutoff, mode, max_bond, band):
    """(kmin, kmax): the kept counts the documented rule allows, given reference
    values s (descending, float64) and an ambiguity band (relative to the scale
    of the quantity that is compared with the threshold)."""
    d = len(s)
    if cutoff is not None and cutoff > 0.0:
        if mode in ("abs", "rel"):
            thr = cutoff * (s[0] if mode == "rel" else 1.0)
            tolv = band * max(s[0], thr)
            kmin = int(np.sum(s > thr + tolv))
            kmax = int(np.sum(s >= thr - tolv))
        else:
            p = 2 if mode in ("sum2", "rsum2") else 1
            sp = s ** p
            tot = float(np.sum(sp))
            target = cutoff * (tot if mode.startswith("r") else 1.0)
            # tail[k] = sum of the values discarded when k are kept
            tail = np.array([float(np.sum(sp[k:])) for k in range(d + 1)])
            tolv = band * max(tot, target)
            ok_loose = [k for k in range(d + 1) if tail[k] <= target + tolv]
            ok_strict = [k for k in range(d + 1) if tail[k] < target - tolv]
            kmin = min(ok_loose) if ok_loose else d
            kmax = min(ok_strict) if ok_strict else d
        kmin, kmax = max(kmin, 1), max(kmax, 1)
    else:
        kmin = kmax = d
    if max_bond is not None and max_bond > 0:
        kmin, kmax = min(kmin, max_bond), min(kmax, max_bond)
    return min(kmin, d), min(kmax, d)


def renorm_power(renorm, mode):
    """Documented powers: 0/False/None off; True -> 2 for (r)sum2, 1 for (r)sum1; an int is the power itself.
    Returns a tuple of acceptable powers (abs/rel with True is undocumented)."""
    if renorm is True:
        if mode in ("sum2", "rsum2"):
            return (2,)
        if mode in ("sum1", "rsum1"):
            return (1,)
        return (0, 1, 2)
    if not renorm:
        return (0,)
    return (int(renorm),)


def renorm_factor(s, k, p):
    if p == 0 or k >= len(s):
        return 1.0
    tot, kept = float(np.sum(s ** p)), float(np.sum(s[:k] ** p))
    return (tot / kept) ** (1.0 / p) if kept > 0 else 1.0


# ---------------------------------------------------------------------------
# calling quimb
# ---------------------------------------------------------------------------

class CellReject(Exception):
    """array_split refused the request with a documented exception type."""

    def __init__(self, why):
        super().__init__(why)
        self.why = why


def fresh_parser():
    """Forget the option parser's memo tables (so a cell never depends on the cells run before it)."""
    D = dmod()
    for name in ("parse_split_opts", "parse_method_absorb", "parse_split_left_right_isom"):
        cc = getattr(getattr(D, name, None), "cache_clear", None)
        if cc:
            cc()


def call_quimb(fn, info):
    """fn(); ValueError / NotImplementedError -> CellReject; any other exception whose traceback passes
    through quimb -> crash Violation carrying the cell description."""
    try:
        return fn()
    except (ValueError, NotImplementedError) as e:
        raise CellReject(type(e).__name__) from e
    except (Violation, Reject, core.HarnessError):
        raise
    except Exception as e:
        frames = core.quimb_frames(e.__traceback__)
        if not frames:
            raise
        fr = frames[-1]
        raise Violation("crash", exc=type(e).__name__, where=f"{fr[0]}:{fr[1]}", msg=str(e)[:100].replace("\n", " "), **info) from e


def tol_class(driver, dtype):
    lossy = driver in LOSSY or driver in ITERATIVE
    if is_single(dtype):
        return INV32 if lossy else EXACT32
    return LOSSY64 if lossy else EXACT64


def band_for(driver, dtype):
    if driver in LOSSY or driver in ITERATIVE:
        return 2e-2 if is_single(dtype) else 1e-6
    return 1e-4 if is_single(dtype) else 1e-9


def herm(x):
    return np.conj(np.swapaxes(x, -2, -1))


def plan(method, form, max_bond, cutoff):
    """(driver, effective form, caps, form_ignored) from the documented resolution rules."""
    reg = registry()
    form = canon(form)
    truncation = ((max_bond or -1) > 0) or ((cutoff if cutoff is not None else -1.0) > 0.0)
    driver, rform = resolve_method(method, form, truncation)
    caps = reg["caps"][driver]
    eff = rform if rform != "auto" else default_form(driver)
    ignored = False
    if not caps["absorb"] and eff != default_form(driver):
        ignored = True
    return driver, eff, caps, ignored


def split_call(x, method, form, *, max_bond=None, cutoff=0.0, mode="rsum2", renorm=None, want_info=False, extra=None, info=None):
    """array_split on (a copy of) x.  Returns (L, s, R, info_dict_or_None)."""
    D = dmod()
    kw = dict(method=method, absorb=form, max_bond=max_bond, cutoff=cutoff, cutoff_mode=mode, renorm=renorm)
    if extra:
        kw.update(extra)
    idict = None
    if want_info:
        idict = {}
        kw["info"] = idict
    xin = x.copy()
    out = call_quimb(lambda: D.array_split(xin, **kw), info or {})
    if not (isinstance(out, tuple) and len(out) == 3):
        raise Violation("return-shape", got=repr(type(out)), **(info or {}))
    if not np.array_equal(xin, x, equal_nan=True):
        raise Violation("input-mutated", **(info or {}))
    return out[0], out[1], out[2], idict


# ---------------------------------------------------------------------------
# the oracle for one returned (left, s, right) of a 2-D input
# ---------------------------------------------------------------------------

def verify(x, L, s, R, idict, method, form, *, max_bond=None, cutoff=0.0, mode="rsum2", renorm=None, info=None,
           count_rule=True, report=None, ref=None):
    """Check everything the contract says about (L, s, R) = array_split(x, ...).  Returns dict(k, removed, err, ...).
    count_rule=False: the kept count is taken as given (batched truncation keeps the maximum over the batch)."""
    D = dmod()
    info = dict(info or {})
    m, n = x.shape
    dt = str(x.dtype)
    d = min(m, n)
    mb = max_bond
    driver, eff_form, caps, ignored = plan(method, form, mb, cutoff)
    if ignored:
        info["form_ignored"] = True
    # ---- which parts are returned (documented per form) -------------------------------
    wl, ws, wr = FORM_RETURNS[eff_form]
    got = (L is not None, s is not None, R is not None)
    if got != (wl, ws, wr):
        raise Violation("parts-returned", got=list(got), want=[wl, ws, wr], **info)
    if ignored:
        # the driver produced its own default form; check that one
        eff_form = default_form(driver)
    # ---- shapes, one common bond, finite ------------------------------------------------
    ks = set()
    if L is not None:
        L = np.asarray(L)
        if L.ndim != 2 or L.shape[0] != m:
            raise Violation("factor-shape", which="left", got=list(L.shape), **info)
        ks.add(L.shape[1])
    if R is not None:
        R = np.asarray(R)
        if R.ndim != 2 or R.shape[1] != n:
            raise Violation("factor-shape", which="right", got=list(R.shape), **info)
        ks.add(R.shape[0])
    if s is not None:
        s = np.asarray(s)
        if s.ndim != 1:
            raise Violation("factor-shape", which="s", got=list(s.shape), **info)
        ks.add(s.shape[0])
    if len(ks) != 1:
        raise Violation("bond-mismatch", got=sorted(ks), **info)
    k = ks.pop()
    for nm, arr in (("left", L), ("right", R), ("s", s)):
        if arr is not None and not np.all(np.isfinite(arr)):
            raise Violation("non-finite", which=nm, **info)
    promoted = any(a is not None and is_single(dt) and not is_single(a.dtype) for a in (L, R, s))
    polar = driver.startswith("polar")
    if k < 1:
        raise Violation("kept-zero", **info)
    if not polar and k > d:
        raise Violation("bond-too-large", k=k, d=d, **info)
    if mb is not None and mb > 0 and caps["max_bond"] and k > mb:
        raise Violation("bond-above-cap", k=k, max_bond=mb, **info)
    # ---- reference spectrum and the documented kept count -----------------------------------
    x128 = x.astype(np.complex128)
    U0, s0, V0 = ref if ref is not None else np.linalg.svd(x128, full_matrices=False)
    smax = max(float(s0[0]), 1e-300)
    nx = max(core.fro(x128), 1e-300)
    tol = tol_class(driver, dt)
    band = band_for(driver, dt)
    exact_rule = driver in SVD_TYPE or driver == "eigh"
    powers = renorm_power(renorm, mode) if caps["renorm"] else (0,)
    p_on = any(p > 0 for p in powers)
    can_truncate = (caps["max_bond"] or caps["cutoff"]) and not polar
    if not can_truncate:
        if not polar and k != d:
            raise Violation("bond-size", k=k, want=d, **info)
        removed = 0
    else:
        cm = mode if caps["cutoff_mode"] else "rsum2"
        co = cutoff if caps["cutoff"] else 0.0
        if driver == "lu":
            kmin, kmax = 1, d  # documented "not rank optimal": only the bounds are promised
        else:
            kmin, kmax = rule_count(s0, co, cm, mb if caps["max_bond"] else None, band)
            if p_on and not (co and co > 0):
                # renormalising with no cutoff: dropping (numerically) zero values loses nothing
                kz = max(1, int(np.sum(s0 > band * smax)))
                kmin = min(kmin, kz if not (mb and mb > 0) else min(kz, mb))
        if count_rule and (exact_rule or driver in ITERATIVE) and not (kmin <= k <= kmax):
            raise Violation("kept-count", k=k, kmin=kmin, kmax=kmax, **info)
        removed = d - k
    errs = [0.0]
    Lc = L.astype(np.complex128) if L is not None else None
    Rc = R.astype(np.complex128) if R is not None else None
    sc = s.astype(np.complex128) if s is not None else None
    kk = min(k, d)
    # candidates for the target x_k: one per documented renorm power
    if removed == 0:
        cands = [(0, s0[:kk], x128)]
    else:
        cands = []
        for p in powers:
            sk = s0[:kk] * renorm_factor(s0, kk, p)
            cands.append((p, sk, (U0[:, :kk] * sk) @ V0[:kk, :]))
    # the best rank-k approximation is unique only if the cut does not fall inside a cluster of equal values
    gap_ok = removed == 0 or (s0[kk - 1] - s0[kk]) > 1e3 * band * smax
    value_promised = removed == 0 or exact_rule or driver in ITERATIVE

    def require(fn, reason, **kw2):
        last = None
        for p, sk, xk in cands:
            a, b, fl = fn(sk, xk)
            e = rel_err(a, b, floor=fl)
            if e <= tol:
                errs.append(e)
                return p
            last = e
        raise Violation(reason, err=float(last) if np.isfinite(last) else 1e300, tol=tol, **kw2, **info)

    two = eff_form in (None, "both", "left", "right") or polar
    prod = None
    if two:
        prod = (Lc * sc[None, :]) @ Rc if sc is not None else Lc @ Rc
    if value_promised and gap_ok:
        if two:
            require(lambda sk, xk: (prod, xk, nx), "reconstruction" if removed == 0 else "not-best-rank-k", eff=str(eff_form))
        elif eff_form == "lorthog":
            require(lambda sk, xk: (Lc @ (herm(Lc) @ xk), xk, nx), "single-factor-range", eff=eff_form)
        elif eff_form == "rorthog":
            require(lambda sk, xk: ((xk @ herm(Rc)) @ Rc, xk, nx), "single-factor-range", eff=eff_form)
        elif eff_form == "lfactor":
            require(lambda sk, xk: (Lc @ herm(Lc), xk @ herm(xk), nx * nx), "single-factor-gram", eff=eff_form)
        elif eff_form == "rfactor":
            require(lambda sk, xk: (herm(Rc) @ Rc, herm(xk) @ xk, nx * nx), "single-factor-gram", eff=eff_form)
        elif eff_form == "lsqrt":
            g = Lc @ herm(Lc)
            require(lambda sk, xk: (g @ g, xk @ herm(xk), nx * nx), "single-factor-gram", eff=eff_form)
        elif eff_form == "rsqrt":
            g = herm(Rc) @ Rc
            require(lambda sk, xk: (g @ g, herm(xk) @ xk, nx * nx), "single-factor-gram", eff=eff_form)
        if sc is not None and not polar:
            # returned values (any order; eigen-decompositions return signed values): the kept singular values
            sv = np.sort(np.abs(s.astype(np.float64)))[::-1]
            if driver not in HERMITIAN_ONLY and np.any(s.astype(np.float64) < -tol * smax):
                raise Violation("negative-singular-value", **info)
            require(lambda sk, xk: (sv, sk, smax), "values", eff=str(eff_form))
    elif value_promised and two and not p_on:
        # degenerate cut: any best approximation has the Eckart-Young distance
        disc = float(np.sqrt(np.sum(s0[kk:] ** 2)))
        e = abs(core.fro(prod - x128) - disc) / nx
        errs.append(e)
        if not e <= tol:
            raise Violation("not-best-rank-k", err=e, tol=tol, eff=str(eff_form), degenerate=True, **info)
    # ---- isometry of the factors the library reports isometric ----------------------------------
    li, ri = D.parse_split_left_right_isom(method, form)
    iso_tol = 10 * tol * max(1.0, math.sqrt(k))
    if li and Lc is not None:
        e = float(np.linalg.norm(herm(Lc) @ Lc - np.eye(Lc.shape[1])))
        errs.append(e / 10)
        if not e <= iso_tol:
            raise Violation("isometry-flag", side="left", defect=round(e, 4), **info)
    if ri and Rc is not None:
        e = float(np.linalg.norm(Rc @ herm(Rc) - np.eye(Rc.shape[0])))
        errs.append(e / 10)
        if not e <= iso_tol:
            raise Violation("isometry-flag", side="right", defect=round(e, 4), **info)
    # ---- reported truncation error -------------------------------------------------------------------
    if idict is not None:
        rep_ = report if report is not None else idict.get("error")
        if rep_ is None:
            raise Violation("info-error-missing", **info)
        rep_ = float(np.asarray(rep_))
        disc = float(np.sqrt(np.sum(s0[kk:] ** 2))) if kk < d else 0.0
        e = abs(rep_ - disc) / nx
        errs.append(e)
        if not e <= tol:
            raise Violation("info-error", against="discarded-values", err=e, tol=tol, **info)
        if two and not p_on:
            e = abs(rep_ - core.fro(prod - x128)) / nx
            errs.append(e)
            if not e <= tol:
                raise Violation("info-error", against="actual-distance", err=e, tol=tol, **info)
    return {"k": int(k), "d": int(d), "removed": int(removed), "err": float(max(errs)), "promoted": promoted,
            "rankdef": bool(s0[-1] <= 1e-7 * smax), "driver": driver, "form": eff_form, "ignored": ignored}


def check_cell(x, method, form, *, want_info=False, extra=None, info=None, ref=None, **opts):
    """Call array_split on the 2-D array x and verify the result (ref: precomputed numpy svd of x, complex128)."""
    L, s, R, idict = split_call(x, method, form, want_info=want_info, extra=extra, info=info, **opts)
    return verify(x, L, s, R, idict, method, form, info=info, ref=ref, **opts)


# ---------------------------------------------------------------------------
# documented per-driver domains (docstrings of the drivers / of array_split)
# ---------------------------------------------------------------------------

ALL_FORMS = tuple(FORM_RETURNS)
QR_FORMS = ("right", "lorthog", "rfactor", "left", "lfactor", "rorthog")
VALID_FORMS = {
    "qr": QR_FORMS, "qr:cholesky": QR_FORMS, "cholesky": ("both", "lsqrt", "rsqrt"), "lu": ("both",),
    "polar_right": ("right",), "polar_left": ("left",),
}
SQRT_FORMS = ("both", "lsqrt", "rsqrt")


def form_supported(driver, eff_form):
    v = VALID_FORMS.get(driver)
    return True if v is None else eff_form in v


def family(driver):
    return "polar" if driver.startswith("polar") else driver


def in_domain(driver, eff_form, m, n):
    """Input-shape preconditions stated in the documentation / warnings of the drivers."""
    if driver in HERMITIAN_ONLY or driver == "cholesky":
        return m == n
    if driver == "qr:cholesky":
        # 'not well-defined for tall matrices' after the internal transposition: QR-like needs m >= n, LQ-like m <= n
        if eff_form in ("right", "lorthog", "rfactor"):
            return m >= n
        if eff_form in ("left", "lfactor", "rorthog"):
            return m <= n
    return True


def guarded_cell(x, method, form, info, **opts):
    """check_cell + the 'unsupported form must be refused' rule.  Returns the outcome dict; raises CellReject."""
    driver, eff, caps, ignored = plan(method, form, opts.get("max_bond"), opts.get("cutoff", 0.0))
    if not form_supported(driver, eff):
        # documented: only some forms are valid for some methods -> the call must refuse
        split_call(x, method, form, info=info, **{k: v for k, v in opts.items() if k not in ("want_info", "ref")})
        raise Violation("unsupported-form-accepted", **dict(info, family=family(driver)))
    return check_cell(x, method, form, info=info, **opts)


# ---------------------------------------------------------------------------
# 1. the exhaustive method x form x cutoff-mode x dtype x truncation x renorm table
# ---------------------------------------------------------------------------

TRUNCS = ("none", "max_bond", "cutoff", "both")
RENORMS = (0, True, 1, 2)
TABLE_SHAPES = {"general": ((6, 4), (4, 6)), "square": ((5, 5), (4, 4))}


def cutoff_for(s0, mode, k):
    """A cutoff that makes the documented rule keep exactly k of the reference values s0 (1 <= k < len(s0)),
    placed well inside the gap so the cell is unambiguous."""
    if mode in ("abs", "rel"):
        hi, lo = s0[k - 1], max(s0[k], 1e-3 * s0[k - 1])
        thr = math.sqrt(hi * lo)
        return thr if mode == "abs" else thr / s0[0]
    p = 2 if mode in ("sum2", "rsum2") else 1
    sp = s0 ** p
    hi = float(np.sum(sp[k - 1:]))
    lo = max(float(np.sum(sp[k:])), 1e-3 * hi)
    target = math.sqrt(hi * lo)
    return target if not mode.startswith("r") else target / float(np.sum(sp))


def uses_choose_k(driver):
    """Reflection: does the driver pre-select its rank with decomp._choose_k (classification label only)."""
    try:
        return "_choose_k(" in inspect.getsource(dmod()._SPLIT_FNS[driver])
    except Exception:
        return False


def dclass(driver):
    return "iterative" if driver in ITERATIVE else ("lossy" if driver in LOSSY else "exact")


def table_input(driver, eff_form, shape_i, dtype, seed, trunc):
    """(x, rank or None).  Iterative / randomised drivers get exactly low-rank inputs (exactness is only promised when
    the requested rank covers the true rank); eigsh gets rank d//2+1 so the table stays on its dense branch (its
    sparse branch belongs to sub-check `iterative`)."""
    sq = driver in HERMITIAN_ONLY or driver == "cholesky"
    m, n = TABLE_SHAPES["square" if sq else "general"][shape_i]
    if driver == "cholesky":
        return make_input(seed, "psd_geo", m, n, dtype), None
    if driver == "eigsh":
        if trunc == "none":
            return make_input(seed, "psd_geo", m, n, dtype), None
        r = m // 2 + 1
        return make_input(seed, "psd_lowrank", m, n, dtype, rank=r), r
    if driver in HERMITIAN_ONLY:
        # sqrt forms of an eigen-decomposition need a non-negative spectrum (indefinite inputs: sub-check `untruncated`)
        return make_input(seed, "psd_geo" if eff_form in SQRT_FORMS else "herm_geo", m, n, dtype), None
    if driver in ITERATIVE:
        return make_input(seed, "lowrank", m, n, dtype, rank=2), 2
    return make_input(seed, "geometric", m, n, dtype), None


def enum_table(tier):
    reg = registry()
    for method in reg["methods"]:
        for form in reg["forms"]:
            for dtype in A.DTYPES:
                for sh in (0, 1):
                    for trunc in TRUNCS:
                        yield {"method": method, "form": form, "dtype": dtype, "shape": sh, "trunc": trunc,
                               "seed": 11 + sh if tier == "quick" else 101 + sh}


def run_table(case):
    reg = registry()
    method, form, dtype, sh, trunc = case["method"], case["form"], case["dtype"], case["shape"], case["trunc"]
    cells = nt = 0
    cls = collections_counter()
    maxerr = 0.0
    single = is_single(dtype)
    base = dict(method=method, form=str(form), single=single, trunc=trunc)
    memo = {}
    for mode in reg["modes"]:
        for renorm in RENORMS:
            fresh_parser()
            cells += 1
            driver, eff, caps, ignored = plan(method, form, 2 if trunc in ("max_bond", "both") else None,
                                              1.0 if trunc in ("cutoff", "both") else 0.0)
            mk = (driver, eff in SQRT_FORMS)
            if mk not in memo:
                x_, rank_ = table_input(driver, eff, sh, dtype, case["seed"], trunc)
                memo[mk] = (x_, rank_, np.linalg.svd(x_.astype(np.complex128), full_matrices=False))
            x, rank, ref = memo[mk]
            m, n = x.shape
            info = dict(base, shp=shape_class(m, n), mode=mode, renorm=repr(renorm), dclass=dclass(driver), family=family(driver))
            if uses_choose_k(driver):
                info["via_choose_k"] = True
            if not in_domain(driver, eff, m, n):
                cls["outside-documented-domain"] += 1
                continue
            s0 = ref[1]
            d = len(s0)
            mb, co = None, 0.0
            if rank is not None:
                # low-rank input: every cap / cutoff keeps the whole rank (a cutoff far below the values, far above the noise)
                tiny = 1e-3 if single else 1e-8
                if trunc == "max_bond":
                    mb = rank
                elif trunc == "cutoff":
                    co = tiny
                elif trunc == "both":
                    mb, co = (rank + 1 if sh == 0 else rank), tiny
            else:
                kt = 2
                if trunc == "max_bond":
                    mb = kt
                elif trunc == "cutoff":
                    co = cutoff_for(s0, mode, kt)
                elif trunc == "both":
                    if sh == 0:
                        mb, co = kt + 1, cutoff_for(s0, mode, kt)      # the cutoff binds
                    else:
                        mb, co = kt, cutoff_for(s0, mode, kt + 1)      # the cap binds
            want_info = caps["info"] and (renorm in (0, 1))
            try:
                out = guarded_cell(x, method, form, info, max_bond=mb, cutoff=co, mode=mode, renorm=renorm, want_info=want_info, ref=ref)
            except CellReject as r:
                cls["rejected:" + r.why] += 1
                continue
            maxerr = max(maxerr, out["err"])
            if out["removed"] or single or out["rankdef"]:
                nt += 1
            cls["driver=" + out["driver"]] += 1
            if out["removed"]:
                cls["removed>=1"] += 1
            if out["promoted"]:
                cls["dtype-promoted"] += 1
    # labels carry their own cell counts (the runner adds n = 24 to every label of a case)
    labels = [f"{k_} [{v_}/{cells} cells]" if k_.startswith(("rejected", "outside")) else k_ for k_, v_ in cls.items()]
    return {"n": cells, "nt": nt > 0, "nt_n": nt, "err": maxerr, "cls": labels + [f"trunc={trunc}"], "cell_counts": dict(cls)}


def collections_counter():
    import collections

    return collections.Counter()
# ---------------------------------------------------------------------------
# shared pieces of the generated (Hypothesis) sub-checks
# ---------------------------------------------------------------------------

GENERAL_KINDS = ("gauss", "gauss", "rank_k", "degenerate", "spread", "zeros", "identity", "wellcond", "geometric")
WELL_KINDS = ("wellcond", "geometric", "degenerate")
HERM_KINDS = ("herm_indef", "herm_geo", "psd_wc", "psd_geo", "psd_lowrank", "hermitian", "psd", "zeros", "identity")
PSD_KINDS = ("psd_wc", "psd_geo", "psd", "identity")


def methods_of(classes, extra_skip=()):
    """Requestable method names (drivers + parser aliases) whose resolved driver is in one of the classes."""
    reg = registry()
    out = []
    for mth in reg["methods"]:
        drv, _ = resolve_method(mth, "right", False)
        if mth == "auto" or (dclass(drv) in classes and mth not in extra_skip):
            out.append(mth)
    return out


def forms_for(driver):
    v = VALID_FORMS.get(driver)
    return ["auto"] + list(v if v is not None else ALL_FORMS)


@st.composite
def s_shape(draw, square=False, orient=None, lo=1, hi=8):
    if square:
        m = draw(st.integers(lo, hi))
        return m, m
    m, n = draw(st.integers(lo, hi)), draw(st.integers(lo, hi))
    if orient == "tall" and m < n:
        m, n = n, m
    if orient == "wide" and m > n:
        m, n = n, m
    return m, n


def indefinite(x):
    w = np.linalg.eigvalsh(x.astype(np.complex128))
    return bool(w.min() < -1e-6 * max(abs(w).max(), 1e-300))


def std_info(case, x, driver, eff):
    return dict(method=case["method"], form=str(case["form"]), single=is_single(case["dtype"]), shp=shape_class(*x.shape),
                dclass=dclass(driver), zero_input=not bool(np.any(x)))


def std_classes(case, out, x):
    c = ["method=" + case["method"], "form=" + str(case["form"]), "dtype=" + case["dtype"], "kind=" + case["kind"],
         "shape=" + shape_class(*x.shape)]
    if out["removed"]:
        c.append("removed>=1")
    if out["rankdef"]:
        c.append("rank-deficient")
    if out["promoted"]:
        c.append("dtype-promoted")
    if case.get("scale_e"):
        c.append("scale=1e%+d" % case["scale_e"])
    return c


def is_nt(case, out, x):
    return bool(out["removed"] or out["rankdef"] or 1 in x.shape or is_single(case["dtype"]))


# ---------------------------------------------------------------------------
# 2. untruncated: every non-iterative method x every form it documents, all input classes
# ---------------------------------------------------------------------------

@st.composite
def s_untruncated(draw, tier):
    method = draw(st.sampled_from(methods_of(("exact", "lossy"))))
    # resolve with a supported form first to learn the driver, then draw the form among the ones it documents
    drv0, _ = resolve_method(method, "right", False)
    form = draw(st.sampled_from(forms_for(drv0 if method != "auto" else "svd")))
    driver, eff, caps, _ = plan(method, form, None, 0.0)
    if not form_supported(driver, eff):
        form = "auto"
        driver, eff, caps, _ = plan(method, form, None, 0.0)
    dtype = draw(st.sampled_from(A.DTYPES))
    if driver == "cholesky":
        m, n = draw(s_shape(square=True))
        kind = draw(st.sampled_from(PSD_KINDS))
    elif driver in HERMITIAN_ONLY:
        m, n = draw(s_shape(square=True))
        kind = draw(st.sampled_from(HERM_KINDS))
    elif driver == "qr:cholesky":
        m, n = draw(s_shape(orient="tall" if eff in ("right", "lorthog", "rfactor") else "wide"))
        kind = draw(st.sampled_from(WELL_KINDS))
    elif driver.startswith("polar"):
        m, n = draw(s_shape(square=True))  # non-square polar: finding C05-d, owned by `table`
        kind = draw(st.sampled_from(GENERAL_KINDS))
    elif driver in LOSSY:
        m, n = draw(s_shape())
        # exactly rank-deficient inputs only in double: the zero values come back as sqrt(eps) * smax (3.4e-4 in single),
        # too close to the single-precision tolerance class for a 100x margin
        kind = draw(st.sampled_from(WELL_KINDS + (("zeros",) if is_single(dtype) else ("rank_k", "zeros"))))
    else:
        m, n = draw(s_shape())
        kind = draw(st.sampled_from(GENERAL_KINDS))
    return {"method": method, "form": form, "dtype": dtype, "m": m, "n": n, "kind": kind, "seed": draw(A.seeds),
            "rank": draw(st.integers(1, 3)), "cutoff_none": draw(st.booleans()),
            "scale_e": draw(st.sampled_from(SCALES32 if is_single(dtype) else SCALES64))}


def run_untruncated(case):
    method, form = case["method"], case["form"]
    driver, eff, caps, _ = plan(method, form, None, 0.0)
    x = scaled(make_input(case["seed"], case["kind"], case["m"], case["n"], case["dtype"], rank=case["rank"]), case.get("scale_e", 0))
    if not in_domain(driver, eff, *x.shape):
        raise Reject("outside documented domain")
    info = std_info(case, x, driver, eff)
    s0 = np.linalg.svd(x.astype(np.complex128), compute_uv=False)
    info["rankdef"] = bool(s0[-1] <= 1e-7 * max(s0[0], 1e-300))
    if driver in HERMITIAN_ONLY:
        # "has a (numerically) non-positive eigenvalue" must be judged at the working precision: the eigenvalues quimb
        # sees carry the backward error of an eigh in x's own dtype (~ n * eps * |w|max), so an exact +3e-9 of a float32
        # matrix is computed as -5e-8 there (thorough tier, seed 1).  Full-rank generated psd kinds stay far above this.
        w = np.linalg.eigvalsh(x.astype(np.complex128))
        margin = max(1e-12, 10 * x.shape[0] * float(np.finfo(np.dtype(real_dtype(x.dtype))).eps))
        info["nonpos_eig"] = bool(w.min() <= margin * max(abs(w).max(), 1e-300))
        info["sqrt_form"] = eff in SQRT_FORMS
    opts = dict(max_bond=None, cutoff=None if case["cutoff_none"] else 0.0)
    if driver == "lu":
        opts["mode"] = "rel"  # lu documents abs / rel only
    try:
        out = guarded_cell(x, method, form, info, **opts)
    except CellReject as r:
        raise Reject("refused:" + r.why)
    return {"nt": is_nt(case, out, x), "cls": std_classes(case, out, x), "err": out["err"]}


# ---------------------------------------------------------------------------
# 3. truncated: full-spectrum methods, documented rule / optimality / honesty / renormalisation
# ---------------------------------------------------------------------------

@st.composite
def s_truncated(draw, tier):
    reg = registry()
    method = draw(st.sampled_from(["svd", "svd", "svd:eig", "eigh", "auto"]))
    form = draw(st.sampled_from(["auto"] + list(ALL_FORMS)))
    driver, eff, caps, _ = plan(method, form, 1, 1.0)
    dtype = draw(st.sampled_from(A.DTYPES))
    if driver == "svd:eig":
        m, n = draw(s_shape(lo=2))
        kind = draw(st.sampled_from(WELL_KINDS))  # rank-deficient + svd:eig: finding C05-g, owned by `untruncated`
    elif driver == "eigh":
        m, n = draw(s_shape(square=True, lo=2))
        kind = draw(st.sampled_from(("psd_geo", "psd_wc", "psd") if eff in SQRT_FORMS else ("herm_geo", "herm_indef", "psd_geo", "hermitian")))
    else:
        m, n = draw(s_shape())
        kind = draw(st.sampled_from(GENERAL_KINDS))
    style = draw(st.sampled_from(["gap", "gap", "raw", "cap-only"]))
    return {"method": method, "form": form, "dtype": dtype, "m": m, "n": n, "kind": kind, "seed": draw(A.seeds),
            "rank": draw(st.integers(1, 4)), "mode": draw(st.sampled_from(reg["modes"])), "style": style,
            "kt": draw(st.integers(1, 7)), "jitter": draw(st.sampled_from([1.0, 1.0, 0.7, 1.3])),
            "raw": draw(st.floats(-12.0, 0.3)), "max_bond": draw(st.sampled_from([None, None, 1, 2, 3, 4, 6, 9])),
            "renorm": draw(st.sampled_from([None, 0, False, True, 1, 2])), "want_info": draw(st.booleans()),
            "scale_e": draw(st.sampled_from(SCALES32 if is_single(dtype) else SCALES64))}


def run_truncated(case):
    method, form, mode = case["method"], case["form"], case["mode"]
    x = scaled(make_input(case["seed"], case["kind"], case["m"], case["n"], case["dtype"], rank=case["rank"]), case.get("scale_e", 0))
    s0 = np.linalg.svd(x.astype(np.complex128), compute_uv=False)
    d = len(s0)
    mb = case["max_bond"]
    if case["style"] == "cap-only":
        co = 0.0
        mb = mb or max(1, d - 1)
    elif case["style"] == "raw" or d < 2 or s0[0] == 0.0:
        co = 10.0 ** case["raw"]
    else:
        kt = 1 + (case["kt"] - 1) % (d - 1)
        co = cutoff_for(s0, mode, kt) * case["jitter"]
        if not np.isfinite(co) or co <= 0:
            co = 10.0 ** case["raw"]
    driver, eff, caps, _ = plan(method, form, mb, co)
    info = std_info(case, x, driver, eff)
    info.update(mode=mode, renorm=repr(case["renorm"]))
    try:
        out = guarded_cell(x, method, form, info, max_bond=mb, cutoff=co, mode=mode, renorm=case["renorm"],
                           want_info=case["want_info"] and caps["info"])
    except CellReject as r:
        raise Reject("refused:" + r.why)
    cls = std_classes(case, out, x) + ["mode=" + mode, "renorm=" + repr(case["renorm"]), "style=" + case["style"]]
    if mb and out["k"] == mb:
        cls.append("cap-binds")
    return {"nt": is_nt(case, out, x), "cls": cls, "err": out["err"]}


# ---------------------------------------------------------------------------
# 4. iterative / randomised drivers on exactly low-rank inputs
# ---------------------------------------------------------------------------

@st.composite
def s_iterative(draw, tier):
    reg = registry()
    method = draw(st.sampled_from([mth for mth in reg["drivers"] if mth in ITERATIVE]))
    form = draw(st.sampled_from(["auto"] + list(ALL_FORMS)))
    herm_ = method in HERMITIAN_ONLY
    m, n = draw(s_shape(square=herm_, lo=3, hi=12))  # scipy's interpolative estimate_rank fails on 2-row inputs
    r = draw(st.integers(1, min(3, m, n)))
    req = draw(st.sampled_from(["cap", "cap", "cap+cutoff", "cutoff", "dense-trunc"]))
    if not registry()["caps"][method]["cutoff"]:
        req = "cap"
    if req == "dense-trunc" and not uses_choose_k(method):
        req = "cap"  # only the drivers with a dense fallback (decomp._choose_k -> 'full') are exact under a binding cap
    kind = "psd_lowrank" if herm_ else "lowrank"
    if req == "dense-trunc":
        # a cap above d//2 sends the driver to its dense fallback: a plain full-spectrum decomposition of a full-rank
        # input, so rule / optimality / renormalisation are promised exactly as for svd / eigh
        kind = "psd_geo" if herm_ else "geometric"
    return {"method": method, "form": form, "dtype": draw(st.sampled_from(A.DTYPES)), "m": m, "n": n, "rank": r,
            "kind": kind, "seed": draw(A.seeds), "req": req, "slack": draw(st.integers(0, 2)),
            "mode": draw(st.sampled_from(reg["modes"])), "renorm": draw(st.sampled_from([None, None, True, 1, 2]))}


def run_iterative(case):
    method, form = case["method"], case["form"]
    x = make_input(case["seed"], case["kind"], case["m"], case["n"], case["dtype"], rank=case["rank"])
    d = min(x.shape)
    single = is_single(case["dtype"])
    mb = min(d, case["rank"] + case["slack"]) if "cap" in case["req"] else None
    co = (1e-3 if single else 1e-8) if "cutoff" in case["req"] else 0.0
    renorm = None
    if case["req"] == "dense-trunc":
        mb = min(d - 1, d // 2 + 1 + case["slack"])  # d >= 3: d//2 < mb < d
        renorm = case.get("renorm")
    driver, eff, caps, _ = plan(method, form, mb, co)
    if driver in HERMITIAN_ONLY and eff in SQRT_FORMS and case["req"] == "cap":
        mb = min(d, case["rank"])  # sqrt of a kept (numerically) zero eigenvalue: finding C05-i, owned by `untruncated`
    info = std_info(case, x, driver, eff)
    # rank the driver will target: with a cutoff _choose_k estimates the numerical rank (capped), otherwise the cap
    k_req = min(case["rank"], mb or d) if co > 0 else mb
    info["sparse_branch"] = bool(uses_choose_k(driver) and k_req <= d // 2)
    info["req"] = case["req"]
    info["renorm_on"] = bool(renorm)
    extra = {"seed": case["seed"] % 1000} if driver == "svd:rand" else None
    try:
        out = guarded_cell(x, method, form, info, max_bond=mb, cutoff=co, mode=case["mode"], renorm=renorm, extra=extra)
    except CellReject as r:
        raise Reject("refused:" + r.why)
    cls = std_classes(case, out, x) + ["req=" + case["req"]] + (["sparse-branch"] if info["sparse_branch"] else ["dense-branch"])
    if renorm:
        cls.append("renorm=" + repr(renorm))
    return {"nt": True, "cls": cls, "err": out["err"]}


# ---------------------------------------------------------------------------
# 4b. every documented spelling of every form, at array level and at tensor level (exhaustive)
# ---------------------------------------------------------------------------

SPELL_METHODS = ("svd", "svd:eig", "qr", "eigh", "auto")


def enum_spellings(tier):
    reg = registry()
    for word, names in sorted(reg["spellings"].items(), key=lambda kv: str(kv[0])):
        if word == "auto":
            continue
        for name in names:
            for method in SPELL_METHODS:
                drv, eff, caps, _ = plan(method, name, None, 0.0)
                if not form_supported(drv, eff):
                    continue
                for dtype in ("float64", "complex64") if drv not in LOSSY else ("float64", "complex128"):
                    for trunc in ("none", "cap"):
                        if trunc == "cap" and not caps["max_bond"]:
                            continue
                        yield {"level": "array", "spelling": name, "method": method, "dtype": dtype, "trunc": trunc}
                        if word in TS_FORMS:
                            two = FORM_RETURNS[word][0] and FORM_RETURNS[word][2]
                            for get in ([None, "tensors", "arrays"] if two else ["tensors", "arrays"]):
                                yield {"level": "tensor", "spelling": name, "method": method, "dtype": dtype, "trunc": trunc, "get": get}


def run_spellings(case):
    name, method, dtype = case["spelling"], case["method"], case["dtype"]
    drv, eff, caps, _ = plan(method, name, None, 0.0)
    herm_ = drv in HERMITIAN_ONLY
    kind = ("psd_geo" if eff in SQRT_FORMS else "herm_geo") if herm_ else "geometric"
    if case["level"] == "array":
        x = make_input(5, kind, 4 if herm_ else 6, 4, dtype)
        info = dict(method=method, form=str(name), canonical=str(eff), level="array", single=is_single(dtype), dclass=dclass(drv))
        try:
            out = guarded_cell(x, method, name, info, max_bond=2 if case["trunc"] == "cap" else None, cutoff=0.0)
        except CellReject as r:
            raise Reject("refused:" + r.why)
        return {"nt": name != eff, "cls": ["level=array", "form=" + str(eff), "alias" if name != eff else "canonical"], "err": out["err"]}
    tcase = {"method": method, "form": name, "dtype": dtype, "kind": kind, "seed": 5, "dims_l": [2, 2] if herm_ else [3, 2], "dims_r": [2, 2],
             "store": [2, 0, 3, 1], "lorder": [1, 0], "get": case["get"], "trunc": "cap" if case["trunc"] == "cap" else "zero-cutoff",
             "max_bond": 2, "bond": None, "msv": False, "tags": True, "give_right": "no", "rank": 2, "entry": "method"}
    try:
        out = run_tensor_split(tcase)
    except Violation as v:
        raise Violation(v.reason, **dict(v.info, level="tensor", canonical=str(eff))) from v
    return {"nt": name != eff, "cls": ["level=tensor", "get=" + str(case["get"]), "form=" + str(eff), "alias" if name != eff else "canonical"],
            "err": out["err"]}


# ---------------------------------------------------------------------------
# 5. Tensor.split / tensor_split: labels, bond, tags, isometry flags on the wrapped tensors
# ---------------------------------------------------------------------------

def qtn():
    import quimb.tensor as qtn_

    return qtn_


# forms the docstring of tensor_split lists
TS_FORMS = ("auto", "both", "left", "right", None, "lorthog", "rorthog", "lfactor", "rfactor")
TS_METHODS = ("svd", "svd", "qr", "lq", "auto", "svd:eig", "eigh", "polar_right", "polar_left", "cholesky", "qr:cholesky", "lu")


@st.composite
def s_tensor_split(draw, tier):
    method = draw(st.sampled_from([mth for mth in TS_METHODS if mth in registry()["methods"]]))
    drv0, _ = resolve_method(method, "right", False)
    square = drv0 in HERMITIAN_ONLY or drv0 == "cholesky" or drv0.startswith("polar")
    if square:
        d0 = draw(st.sampled_from([1, 2, 2, 3]))
        dims_l = dims_r = [d0] * draw(st.integers(1, 2))
    else:
        rank = draw(st.integers(2, 5))
        dims = draw(st.lists(st.sampled_from([1, 2, 2, 3, 3, 4]), min_size=rank, max_size=rank))
        nl = draw(st.integers(1, rank - 1))
        dims_l, dims_r = dims[:nl], dims[nl:]
    nl, nr = len(dims_l), len(dims_r)
    form = draw(st.sampled_from([f for f in forms_for(drv0 if method != "auto" else "svd") if f in TS_FORMS]))
    driver, eff, caps, _ = plan(method, form, None, 0.0)
    if not form_supported(driver, eff) or (driver == "qr:cholesky"):
        form = "auto"
        driver, eff, caps, _ = plan(method, form, None, 0.0)
    dtype = draw(st.sampled_from(A.DTYPES64 if driver in LOSSY else A.DTYPES))
    if driver == "cholesky":
        kind = "psd_wc"
    elif driver in HERMITIAN_ONLY:
        kind = draw(st.sampled_from(("psd_wc", "psd_geo") if eff in SQRT_FORMS else ("herm_indef", "herm_geo", "psd_wc")))
    elif driver in LOSSY:
        kind = "wellcond"
    elif driver == "lu":
        kind = draw(st.sampled_from(("gauss", "rank_k", "wellcond")))  # zero input + lu: finding C05-p, owned by `untruncated`
    else:
        kind = draw(st.sampled_from(("gauss", "gauss", "rank_k", "zeros", "degenerate", "wellcond")))
    two = FORM_RETURNS[eff if caps["absorb"] else default_form(driver)][0] and FORM_RETURNS[eff if caps["absorb"] else default_form(driver)][2]
    get = draw(st.sampled_from([None, "tensors", "arrays"] if two else ["tensors", "arrays"]))
    if driver in SVD_TYPE and draw(st.integers(0, 5)) == 0:
        get = "values"
    trunc = draw(st.sampled_from(["zero-cutoff", "zero-cutoff", "default", "cap"]))
    return {"method": method, "form": form, "dtype": dtype, "kind": kind, "seed": draw(A.seeds), "dims_l": dims_l, "dims_r": dims_r,
            "store": draw(st.permutations(list(range(nl + nr)))), "lorder": draw(st.permutations(list(range(nl)))),
            "get": get, "trunc": trunc, "max_bond": draw(st.integers(1, 4)), "bond": draw(st.sampled_from([None, "bnd", "k"])),
            "msv": draw(st.booleans()), "tags": draw(st.booleans()), "give_right": draw(st.sampled_from(["no", "no", "yes", "only"])),
            "rank": draw(st.integers(1, 3)), "entry": draw(st.sampled_from(["method", "function"]))}


def run_tensor_split(case):
    Q = qtn()
    method, form = case["method"], case["form"]
    dl, dr = case["dims_l"], case["dims_r"]
    nl, nr = len(dl), len(dr)
    labels_l = [f"l{i}" for i in range(nl)]
    labels_r = [f"r{i}" for i in range(nr)]
    size = dict(zip(labels_l + labels_r, dl + dr))
    order = labels_l + labels_r
    stored = [order[i] for i in case["store"]]
    # the bipartition as quimb will see it: rows = left labels in the order given (stored order when only
    # right_inds is passed), columns = right labels in stored order (or in the order of right_inds when given)
    right = [l for l in stored if l in labels_r]
    if case["give_right"] != "no":
        right = list(reversed(right))
    if case["give_right"] == "only":
        left = [l for l in stored if l in labels_l]
    else:
        left = [labels_l[i] for i in case["lorder"]]
    M, N = int(np.prod(dl)), int(np.prod(dr))
    # contents are defined on that matrix (so Hermitian / positive inputs are Hermitian for the split under test)
    xm = make_input(case["seed"], case["kind"], M, N, case["dtype"], rank=case["rank"])
    full = xm.reshape([size[l] for l in left + right])
    T = Q.Tensor(np.ascontiguousarray(np.transpose(full, [(left + right).index(l) for l in stored])), inds=stored, tags=["T0", "X"])
    order = left + right
    mb = case["max_bond"] if case["trunc"] == "cap" else None
    kw = dict(method=method, absorb=form, get=case["get"])
    mode = "rel"  # documented default of tensor_split
    if case["trunc"] == "default":
        co = 1e-10
    else:
        co = 0.0
        kw["cutoff"] = 0.0
    if mb:
        kw["max_bond"] = mb
    driver, eff, caps, _ = plan(method, form, mb, co)
    if not in_domain(driver, eff, M, N):
        raise Reject("outside documented domain")
    if driver == "lu":
        kw["cutoff_mode"] = "rel"
    if driver.startswith("polar") and M != N:
        raise Reject("non-square polar (finding C05-d is owned by `table`)")
    cform = canon(form)
    if case["bond"] is not None and case["get"] in (None, "tensors"):
        kw["bond_ind"] = (case["bond"] + "L", case["bond"] + "R") if (case["msv"] and cform is None) else case["bond"]
    if case["msv"] and cform is None:
        kw["matrix_svals"] = True
    if case["tags"]:
        kw.update(ltags=["LT"], rtags=["RT"], stags=["ST"])
    info = dict(method=method, form=str(form), single=is_single(case["dtype"]), shp=shape_class(M, N), dclass=dclass(driver),
                get=str(case["get"]), zero_input=not bool(np.any(xm)))
    if case["give_right"] == "yes":
        kw["right_inds"] = right
    if case["give_right"] == "only":
        kw["right_inds"] = right
        left_arg = None
    else:
        left_arg = left
    T0 = T.copy()

    def call():
        if case["entry"] == "method":
            return T.split(left_arg, **kw)
        return Q.tensor_split(T, left_arg, **kw)

    try:
        res = call_quimb(call, info)
    except CellReject as r:
        raise Reject("refused:" + r.why)
    if not (np.array_equal(T.data, T0.data) and T.inds == T0.inds):
        raise Violation("input-mutated", **info)
    s0 = np.linalg.svd(xm.astype(np.complex128), compute_uv=False)
    tol = tol_class(driver, case["dtype"])
    if case["get"] == "values":
        v = np.asarray(res, dtype=np.float64)
        if kw.get("matrix_svals") and v.ndim == 2:
            v = np.diag(v)
        if v.shape != s0.shape:
            raise Violation("values-shape", got=list(v.shape), **info)
        e = rel_err(np.sort(v)[::-1], s0, floor=max(s0[0], 1e-300))
        if not e <= tol:
            raise Violation("values", err=e, tol=tol, **info)
        return {"nt": True, "cls": ["get=values", "method=" + method], "err": e}
    sep = cform is None
    parts = list(res.tensors) if isinstance(res, Q.TensorNetwork) else list(res)
    if case["get"] is None:
        if not isinstance(res, Q.TensorNetwork):
            raise Violation("return-type", got=repr(type(res)), **info)
        # a network: find the factors by their labels
        Tl = next((t for t in parts if set(left) <= set(t.inds)), None)
        Tr = next((t for t in parts if set(right) <= set(t.inds)), None)
        Ts = next((t for t in parts if t is not Tl and t is not Tr), None)
        if len(parts) != (3 if sep else 2):
            raise Violation("parts-returned", n=len(parts), **info)
        if Tl is None or Tr is None:
            raise Violation("network-parts", n=len(parts), **info)
    else:
        if len(parts) != (3 if sep else 2):
            raise Violation("parts-returned", n=len(parts), **info)
        Tl, Tr = parts[0], parts[-1]
        Ts = parts[1] if sep else None
    msv = bool(kw.get("matrix_svals"))
    if case["get"] == "arrays":
        La, Ra = Tl, Tr
        sa = Ts
    else:
        # ---- labels, bond, tags, flags of the wrapped tensors -----------------------------
        b_l = b_r = None
        if Tl is not None:
            if tuple(Tl.inds[:-1]) != tuple(left):
                raise Violation("left-labels", got=list(Tl.inds), want=left, **info)
            b_l = Tl.inds[-1]
        if Tr is not None:
            if tuple(Tr.inds[1:]) != tuple(right):
                raise Violation("right-labels", got=list(Tr.inds), want=right, **info)
            b_r = Tr.inds[0]
        if Tl is not None and Tr is not None and not msv and b_l != b_r:
            raise Violation("bond-label", got=[b_l, b_r], **info)
        if "bond_ind" in kw:
            wantb = kw["bond_ind"] if msv else (kw["bond_ind"], kw["bond_ind"])
            if (b_l is not None and b_l != wantb[0]) or (b_r is not None and b_r != wantb[1]):
                raise Violation("bond-name", got=[b_l, b_r], want=list(wantb), **info)
        for b in (b_l, b_r):
            if b is not None and b in order:
                raise Violation("bond-collides", got=b, **info)
        if Ts is not None:
            wants = (b_l, b_r) if msv else (b_l,)
            if tuple(Ts.inds) != tuple(wants):
                raise Violation("values-labels", got=list(Ts.inds), want=list(wants), **info)
        base_tags = {"T0", "X"}
        for t, extra_ in ((Tl, "LT"), (Ts, "ST"), (Tr, "RT")):
            if t is not None:
                want_tags = base_tags | ({extra_} if case["tags"] else set())
                if set(t.tags) != want_tags:
                    raise Violation("tags", got=sorted(t.tags), want=sorted(want_tags), **info)
        # flagged isometries, straight from the tensors
        for t, side, lab in ((Tl, "left", left), (Tr, "right", right)):
            if t is not None and t.left_inds is not None:
                if set(t.left_inds) != set(lab):
                    raise Violation("left_inds-labels", side=side, got=list(t.left_inds), **info)
                dfc = iso_defect(t.data, t.inds, t.left_inds)
                if not dfc <= 10 * tol * max(1.0, math.sqrt(t.shape[-1 if side == "left" else 0])):
                    raise Violation("isometry-flag", side=side, defect=round(dfc, 4), level="tensor", **info)
        La = Tl.data if Tl is not None else None
        Ra = Tr.data if Tr is not None else None
        sa = Ts.data if Ts is not None else None
        if case["get"] is None:
            # the returned network denotes the (truncated) tensor: evaluated below through the fused factors as well
            arrs = [(np.asarray(t.data).astype(np.complex128), tuple(t.inds)) for t in parts]
            val = einsum_value(arrs, left + right).reshape(M, N)
    # ---- unfused factors -> matrices, then the array-level oracle ------------------------------------
    if La is not None:
        La = np.asarray(La)
        if tuple(La.shape[:-1]) != tuple(size[l] for l in left):
            raise Violation("factor-shape", which="left", got=list(La.shape), **info)
        La = La.reshape(M, La.shape[-1])
    if Ra is not None:
        Ra = np.asarray(Ra)
        if tuple(Ra.shape[1:]) != tuple(size[l] for l in right):
            raise Violation("factor-shape", which="right", got=list(Ra.shape), **info)
        Ra = Ra.reshape(Ra.shape[0], N)
    if sa is not None:
        sa = np.asarray(sa)
        if msv:
            if sa.ndim != 2 or np.any(sa - np.diag(np.diag(sa)) != 0):
                raise Violation("matrix-svals-not-diagonal", **info)
            sa = np.diag(sa)
    out = verify(xm, La, sa, Ra, None, method, form, max_bond=mb, cutoff=co, mode=mode, renorm=None, info=info)
    err = out["err"]
    if case["get"] is None:
        prod = (La.astype(np.complex128) * sa[None, :]) @ Ra if sa is not None else La.astype(np.complex128) @ Ra
        e = rel_err(val, prod, floor=max(core.fro(xm), 1e-300))
        if not e <= tol:
            raise Violation("network-value", err=e, **info)
        err = max(err, e)
    cls = ["method=" + method, "form=" + str(form), "get=" + str(case["get"]), "trunc=" + case["trunc"], f"rank={nl + nr}",
           "kind=" + case["kind"], "give_right=" + case["give_right"]]
    if out["removed"]:
        cls.append("removed>=1")
    return {"nt": bool(out["removed"] or out["rankdef"] or 1 in (M, N) or is_single(case["dtype"]) or nl + nr > 2), "cls": cls, "err": err}


# ---------------------------------------------------------------------------
# 6. generic (batched) implementation vs accelerated 2-D implementation of the same method
# ---------------------------------------------------------------------------

BATCH_METHODS = ("svd", "svd", "svd:eig", "eigh", "qr", "lq", "cholesky", "qr:cholesky", "polar_right", "polar_left", "svd:rand")


@st.composite
def s_batch(draw, tier):
    reg = registry()
    method = draw(st.sampled_from([mth for mth in BATCH_METHODS if mth in reg["methods"]]))
    drv0, _ = resolve_method(method, "right", False)
    form = draw(st.sampled_from(forms_for(drv0)))
    driver, eff, caps, _ = plan(method, form, None, 0.0)
    dtype = draw(st.sampled_from(A.DTYPES64 if driver in LOSSY else A.DTYPES))
    if driver == "cholesky":
        m, n = draw(s_shape(square=True, lo=1, hi=6))
        kind = "psd_wc"
    elif driver in HERMITIAN_ONLY:
        m, n = draw(s_shape(square=True, lo=2, hi=6))
        kind = draw(st.sampled_from(("psd_geo", "psd_wc") if eff in SQRT_FORMS else ("herm_geo", "herm_indef", "psd_geo")))
    elif driver == "qr:cholesky":
        m, n = draw(s_shape(orient="tall" if eff in ("right", "lorthog", "rfactor") else "wide", hi=6))
        kind = draw(st.sampled_from(WELL_KINDS))
    elif driver.startswith("polar"):
        m, n = draw(s_shape(square=True, hi=6))
        kind = draw(st.sampled_from(WELL_KINDS + ("gauss",)))
    elif driver in LOSSY:
        m, n = draw(s_shape(lo=2, hi=6))
        kind = draw(st.sampled_from(WELL_KINDS))
    else:
        m, n = draw(s_shape(hi=6))
        kind = draw(st.sampled_from(("gauss", "geometric", "degenerate", "wellcond", "rank_k")))
    nb = draw(st.sampled_from([1, 1, 1, 2, 3]))
    can_dyn = caps["cutoff"]
    if nb == 1:
        trunc = draw(st.sampled_from(TRUNCS if can_dyn else ("none", "max_bond")))
    else:
        trunc = draw(st.sampled_from(("none", "max_bond")))  # a batch keeps the maximum count over its members (undocumented): static only
    if not caps["max_bond"]:
        trunc = "none"
    return {"method": method, "form": form, "dtype": dtype, "m": m, "n": n, "kind": kind, "seed": draw(A.seeds), "nb": nb,
            "trunc": trunc, "mode": draw(st.sampled_from(reg["modes"])), "kt": draw(st.integers(1, 5)),
            "renorm": draw(st.sampled_from([None, None, 0, True, 1, 2])) if nb == 1 else None,
            "want_info": draw(st.booleans()), "lead": draw(st.sampled_from([1, 1, 2]))}


def run_batch(case):
    D = dmod()
    method, form, mode = case["method"], case["form"], case["mode"]
    nb = case["nb"]
    xs = [make_input(case["seed"] + 7 * i, case["kind"], case["m"], case["n"], case["dtype"], rank=2) for i in range(nb)]
    s0 = np.linalg.svd(xs[0].astype(np.complex128), compute_uv=False)
    d = len(s0)
    mb, co = None, 0.0
    kt = 1 + (case["kt"] - 1) % max(d - 1, 1)
    if case["trunc"] in ("max_bond", "both"):
        mb = kt if case["trunc"] == "max_bond" else kt + 1
    if case["trunc"] in ("cutoff", "both") and d >= 2 and s0[0] > 0:
        co = cutoff_for(s0, mode, kt)
    driver, eff, caps, _ = plan(method, form, mb, co)
    renorm = case["renorm"] if caps["renorm"] else None
    p_on = any(p > 0 for p in renorm_power(renorm, mode)) and renorm not in (None, 0, False)
    info = dict(method=method, form=str(form), single=is_single(case["dtype"]), shp=shape_class(case["m"], case["n"]),
                dclass=dclass(driver), family=family(driver), batched=True, renorm_on=bool(p_on), nb=nb)
    want_info = case["want_info"] and caps["info"]
    opts = dict(max_bond=mb, cutoff=co, mode=mode, renorm=renorm)
    extra = {"seed": 3} if driver == "svd:rand" else None
    # accelerated 2-D path on every member (its own correctness is the business of the other sub-checks)
    accepted2d = True
    try:
        for x in xs:
            split_call(x, method, form, want_info=want_info, extra=extra, info=dict(info, batched=False), **opts)
    except CellReject:
        accepted2d = False
    xb = np.stack(xs).reshape((1,) * (case["lead"] - 1) + (nb,) + xs[0].shape)
    try:
        L, s, R, idict = split_call(xb, method, form, want_info=want_info, extra=extra, info=info, **opts)
    except CellReject as r:
        if accepted2d:
            raise Violation("differential-acceptance", generic="refused:" + r.why, **info)
        raise Reject("both refuse")
    if not accepted2d:
        raise Violation("differential-acceptance", generic="accepted", **info)
    lead = xb.shape[:-2]
    errs = [0.0]
    removed = 0
    rep = None
    if idict is not None:
        rep = idict.get("error")
        if rep is None:
            raise Violation("info-error-missing", **info)
        rep = np.broadcast_to(np.asarray(rep, dtype=np.float64), lead).reshape(-1)
    for i, x in enumerate(xs):
        def member(a):
            if a is None:
                return None
            a = np.asarray(a)
            if a.shape[:len(lead)] != lead:
                raise Violation("batch-shape", got=list(a.shape), **info)
            return a.reshape((nb,) + a.shape[len(lead):])[i]
        out = verify(x, member(L), member(s), member(R), idict, method, form, info=info, count_rule=(nb == 1),
                     report=None if rep is None else rep[i], **opts)
        errs.append(out["err"])
        removed = max(removed, out["removed"])
    cls = ["method=" + method, "form=" + str(form), f"nb={nb}", "trunc=" + case["trunc"], "renorm=" + repr(renorm), f"lead={case['lead']}"]
    if removed:
        cls.append("removed>=1")
    return {"nt": True, "cls": cls, "err": max(errs)}


# ---------------------------------------------------------------------------
# 7. history independence of the memoised option parser
# ---------------------------------------------------------------------------

TWIN = {True: 1, 1: True, False: 0, 0: False}
H_RENORM = (None, False, 0, True, 1, 2)
H_CUTOFF = (0.0, 0, 1e-2, 0.3)
H_MAXBOND = (None, 1, 2, 3)


@st.composite
def s_history(draw, tier):
    reg = registry()

    def opts():
        return {"method": draw(st.sampled_from(["svd", "svd", "auto", "eigh", "svd:eig"])),
                "absorb": draw(st.sampled_from([None, "s", "both", "left", "auto"])),
                "max_bond": draw(st.sampled_from(H_MAXBOND)), "cutoff": draw(st.sampled_from(H_CUTOFF)),
                "cutoff_mode": draw(st.sampled_from(reg["modes"])), "renorm": draw(st.sampled_from(H_RENORM))}

    b = opts()
    how = draw(st.sampled_from(["twin", "twin", "random", "same"]))
    if how == "twin":
        a = dict(b)
        keys = [k for k in ("renorm", "cutoff") if type(b[k]) in (bool, int) and b[k] in TWIN and not (k == "cutoff" and b[k] != 0)]
        if keys:
            k = draw(st.sampled_from(keys))
            a[k] = TWIN[b[k]]
            if k == "cutoff" and b[k] == 0:
                a[k] = 0.0 if isinstance(b[k], int) else 0
        else:
            how = "random"
            a = opts()
    elif how == "random":
        a = opts()
    else:
        a = dict(b)
    # driver-specific extra keywords passed ONLY to the earlier call A (they travel through **kwargs of array_split);
    # a later call without them must not inherit them from any memo table
    extra = {}
    if draw(st.integers(0, 2)) == 0:
        pool = {"eigh": [{"shift": 0.25}, {"positive": 1}, {"shift": 0.5, "positive": 1}], "svd": [{"info": "dict"}],
                "auto": [{"info": "dict"}], "svd:eig": [{"info": "dict"}]}
        extra = draw(st.sampled_from(pool[a["method"]]))
        if draw(st.booleans()):
            a = dict(b, method=a["method"]) if a["method"] == b["method"] else dict(b)  # same six basic options as B
            extra = draw(st.sampled_from(pool[a["method"]]))
    return {"a": _enc(a), "b": _enc(b), "how": how, "m": draw(st.integers(2, 7)), "n": draw(st.integers(2, 7)), "seed": draw(A.seeds),
            "dtype": draw(st.sampled_from(A.DTYPES64)), "a_extra": extra}


class Refused:
    def __init__(self, why):
        self.why = why


def _enc(o):
    # JSON cannot tell True from 1 apart after a round trip through some tools; keep the Python type explicit
    return {k: (["bool", v] if isinstance(v, bool) else v) for k, v in o.items()}


def _dec(o):
    return {k: (bool(v[1]) if isinstance(v, list) and v and v[0] == "bool" else v) for k, v in o.items()}


def run_history(case):
    D = dmod()
    a, b = _dec(case["a"]), _dec(case["b"])
    herm_ = "eigh" in (a["method"], b["method"])
    m = case["m"]
    n = m if herm_ else case["n"]
    x = make_input(case["seed"], "psd_geo" if herm_ else "geometric", m, n, case["dtype"])  # psd: sqrt forms stay finite (C05-i)
    info = dict(how=case["how"], method=b["method"], renorm=repr(b["renorm"]), mode=b["cutoff_mode"],
                differs=sorted(k for k in b if a[k] is not b[k] and not (a[k] == b[k] and type(a[k]) is type(b[k]))),
                equal_keys=all(a[k] == b[k] for k in b))

    def call(o):
        try:
            return call_quimb(lambda: D.array_split(x.copy(), **o), info)
        except CellReject as r:
            return Refused(r.why)

    core.reset_quimb_state()
    a_extra = {k: ({} if v == "dict" else v) for k, v in (case.get("a_extra") or {}).items()}
    call(dict(a, **a_extra))
    info["a_extra"] = sorted(a_extra)
    after_a = call(b)
    core.reset_quimb_state()
    fresh = call(b)
    if isinstance(fresh, Refused):
        if not isinstance(after_a, Refused):
            raise Violation("history-dependent", what="acceptance", **info)
        raise Reject("refused:" + fresh.why)
    if isinstance(after_a, Refused):
        raise Violation("history-dependent", what="acceptance", **info)
    err = 0.0
    for nm, u, v in zip(("left", "s", "right"), after_a, fresh):
        if (u is None) != (v is None):
            raise Violation("history-dependent", what="parts", **info)
        if u is None:
            continue
        u, v = np.asarray(u), np.asarray(v)
        if u.shape != v.shape:
            raise Violation("history-dependent", what="kept-count", which=nm, **info)
        e = rel_err(u, v, floor=max(core.fro(x), 1e-300))
        err = max(err, e)
        if not e <= 1e-12:
            raise Violation("history-dependent", what="values", which=nm, err=e, **info)
    return {"nt": case["how"] != "same", "cls": ["how=" + case["how"], "method=" + b["method"], "renorm=" + repr(b["renorm"])], "err": err}


SUBCHECKS = [
    SubCheck("table", run_table, enum=enum_table, exhaustive=True, shards=(16, 16), soft_budget=(600.0, 1800.0), hard_timeout=(1500.0, 3000.0),
             rule="every registered method + parser alias x every form + auto x dtype x 2 shapes x {none, max_bond, cutoff, both} as one case "
                  "= 24 cells (6 cutoff modes x renorm in {0, True, 1, 2}); inputs in each driver's documented domain, cutoffs placed "
                  "inside a gap of the reference spectrum; cells refused with ValueError/NotImplementedError are counted as rejected cells; "
                  "nt cell: >= 1 value removed or single precision or rank-deficient input"),
    SubCheck("untruncated", run_untruncated, s_untruncated, examples=(600, 8000), shards=(2, 6),
             rule="direct / Gram-based methods x the forms each documents, shapes 1..8 x 1..8, kinds incl. exact rank k, zeros, degenerate, "
                  "Hermitian indefinite / psd / rank-deficient psd, cutoff 0.0 or None and no cap; nt: rank-deficient or dimension 1 or single"),
    SubCheck("truncated", run_truncated, s_truncated, examples=(400, 8000), shards=(3, 8),
             rule="svd / svd:eig / eigh / auto x all forms x 6 modes x cutoff (inside a gap +- jitter, or raw 10**u) x cap x renorm x info: "
                  "kept count == documented rule (ambiguity band), best rank-k, reported error == distance, renormalisation; nt: removed >= 1 etc."),
    SubCheck("iterative", run_iterative, s_iterative, examples=(400, 6000), shards=(1, 4),
             rule="svds / isvd / rsvd / eigsh / svd:rand on exactly rank-r inputs (3..12) with cap >= r and/or a tiny cutoff, sparse and dense "
                  "branches; all nt (rank-deficient by construction)"),
    SubCheck("spellings", run_spellings, enum=enum_spellings, exhaustive=True, shards=(2, 2),
             rule="every string spelling registered in decomp._ABSORB_MAP (long 'U,s,VH' / 'Us,VH' / ... and short 'left' / 'lorthog' / ...) + None "
                  "x {svd, svd:eig, qr, eigh, auto} x 2 dtypes x {none, cap}, at array level (array_split) and, for the forms tensor_split documents, "
                  "at tensor level for every `get`; same oracle as for the canonical word; nt: the spelling is an alias"),
    SubCheck("tensor_split", run_tensor_split, s_tensor_split, examples=(400, 6000), shards=(2, 6),
             rule="Tensor.split / tensor_split on rank 2-5 tensors, random bipartition, stored axis order, left order, right_inds, get in "
                  "{None, tensors, arrays, values}, bond_ind, matrix_svals, tags: labels, bond, tags, left_inds flags (iso_defect), value of the "
                  "returned network (einsum) and the array-level oracle on the unfused factors; nt: rank > 2 or removed >= 1 or single ..."),
    SubCheck("batch", run_batch, s_batch, examples=(400, 6000), shards=(2, 6),
             rule="array_split on a batch (1-3 members, 1-2 leading axes: generic implementation) vs the same call on each 2-D member "
                  "(accelerated implementation): same acceptance, every member satisfies the full oracle; all nt"),
    SubCheck("history", run_history, s_history, examples=(300, 5000), shards=(1, 4),
             rule="array_split(A) then array_split(B) vs array_split(B) after core.reset_quimb_state(), A an equal-but-differently-typed twin of B "
                  "(True/1, False/0, 0/0.0), a random option set, or B itself; results must be identical; nt: A is not B"),
]
