"""C05 - tensor decomposition: exact when untruncated, optimal and honest when truncated.

Everything is observed through the public entry points ``array_split`` /
``array_svals`` (quimb.tensor.decomp) and ``Tensor.split`` / ``tensor_split``.
The method, absorb-form and cutoff-mode tables are *read from the code under
test* (``_SPLIT_FNS``, ``_ABSORB_MAP``, ``_CUTOFF_MODE_MAP`` and the parser's own
``startswith("lq")`` alias rule); what each cell must return is decided here,
from the documented contract only:

* which of (left, s, right) is returned for a form (docstring of array_split),
* defining products of every form, all gauge invariant (so no assumption on
  phases / bases of degenerate subspaces is made):
    two factors        L . diag(s)? . R                == x_k
    lorthog  (U)       U^H U = 1 and (1 - U U^H) x_k   == 0
    rorthog  (VH)      VH VH^H = 1 and x_k (1 - VH^H VH) == 0
    lfactor  (Us)      A A^H                           == x_k x_k^H
    rfactor  (sVH)     A^H A                           == x_k^H x_k
    lsqrt    (Usq)     (A A^H)^2                       == x_k x_k^H
    rsqrt    (sqVH)    (A^H A)^2                       == x_k^H x_k
    s                  values                          == kept singular values
  where x_k = x when nothing is truncated, and the best rank-k approximation of x
  (numpy.linalg.svd, Eckart-Young) with the kept values rescaled by the
  documented renormalisation factor otherwise,
* factors that ``parse_split_left_right_isom`` (the function tensor_split uses
  to set ``left_inds``) reports isometric are isometric,
* the kept count is the one of the documented cut-off rule evaluated on numpy
  singular values (with an ambiguity band), never 0, never above max_bond,
* info['error'] equals the actual Frobenius distance (renorm off) / the norm of
  the discarded values.
"""
from __future__ import annotations

import inspect
import itertools
import math

import numpy as np
from hypothesis import strategies as st

from .. import arrays as A
from .. import core
from ..core import EXACT32, EXACT64, INV32, INV64, Reject, SubCheck, Violation, rel_err
from ..oracle import einsum_value, iso_defect

RULE = ("matrices 1..8 x 1..8 (tall/wide/square/dimension 1; gauss, exact rank k, degenerate and geometric spectra, zeros, "
        "hermitian, psd; 4 dtypes) and tensors of rank 2-5 with a random bipartition and stored axis order, split by every "
        "registered method x form x cutoff mode x truncation x renorm (tables read from quimb.tensor.decomp); oracle = "
        "numpy.linalg.svd + documented cut-off rules + gauge-invariant defining products; non-trivial = truncation removed >= 1 "
        "value, or rank-deficient / dimension-1 input, or single precision")
ASSUMPTIONS = [
    "numpy.linalg.svd / eigvalsh are the trusted reference for singular values and best rank-k approximations",
    "a kept count anywhere inside the ambiguity band of a cut-off threshold is accepted (1e-9 relative for double, 1e-4 for single, "
    "sqrt(eps)-scaled for the documented lossy methods svd:eig / qr:cholesky)",
    "methods documented lossy (svd:eig, qr:cholesky) and the iterative / randomised drivers are held to INV64/INV32, on well "
    "conditioned inputs only; eigh/eigsh get Hermitian, cholesky positive definite, qr:cholesky full-rank inputs of the documented orientation",
    "renorm=True with cutoff_mode abs/rel has no documented power: any of 0, 1, 2 is accepted there",
    "exception types ValueError / NotImplementedError raised by array_split are documented refusals (counted as rejected cells); "
    "any other exception out of quimb is a crash",
]


# ---------------------------------------------------------------------------
# tables read from the code under test
# ---------------------------------------------------------------------------

def dmod():
    from quimb.tensor import decomp

    return decomp


_REG = None


def registry():
    """(methods, forms, cutoff_modes, caps) discovered from quimb.tensor.decomp.

    methods: registered drivers + the aliases the parser itself resolves ('auto',
    and 'lq' + suffix for every registered 'qr' + suffix);
    forms: one preferred spelling per distinct absorb code + 'auto';
    caps[method]: which of absorb/max_bond/cutoff/cutoff_mode/renorm/info the
    driver's signature takes (the same reflection parse_split_opts performs)."""
    global _REG
    if _REG is not None:
        return _REG
    D = dmod()
    drivers = sorted(D._SPLIT_FNS)
    aliases = ["auto"] + ["lq" + m[2:] for m in drivers if m.startswith("qr")]
    by_code = {}
    for key, code in D._ABSORB_MAP.items():
        if key is None or isinstance(key, str):
            by_code.setdefault(code, []).append(key)
    forms = []
    for code, names in by_code.items():
        if None in names:
            forms.append(None)
        else:
            # the last registered alias is the descriptive word ('left', 'lorthog', ...)
            forms.append(names[-1])
    forms = ["auto"] + forms
    modes = [k for k in D._CUTOFF_MODE_MAP if isinstance(k, str)]
    caps = {}
    for m in drivers:
        ps = inspect.signature(D._SPLIT_FNS[m]).parameters
        caps[m] = {k: (k in ps) for k in ("absorb", "max_bond", "cutoff", "cutoff_mode", "renorm", "info")}
    _REG = {"drivers": drivers, "methods": drivers + aliases, "forms": forms, "modes": modes, "caps": caps,
            "codes": {(n if n is not None else None): c for c, ns in by_code.items() for n in ns}}
    return _REG


def form_code(form):
    return registry()["codes"][form]


# documented meaning of each form (docstring of array_split): what is returned
FORM_RETURNS = {
    # name: (left?, s?, right?)
    None: (True, True, True), "both": (True, False, True), "left": (True, False, True), "right": (True, False, True),
    "lorthog": (True, False, False), "rorthog": (False, False, True), "lfactor": (True, False, False),
    "rfactor": (False, False, True), "s": (False, True, False), "lsqrt": (True, False, False), "rsqrt": (False, False, True),
}

LOSSY = ("svd:eig", "qr:cholesky")
ITERATIVE = ("svds", "isvd", "rsvd", "eigsh", "svd:rand")
HERMITIAN_ONLY = ("eigh", "eigsh")
SVD_TYPE = ("svd", "svd:eig")  # full-spectrum methods for which rule / optimality / error are promised exactly


def resolve_method(method, form, truncation):
    """The driver documentation says a (method, form) request resolves to.
    'auto': svd when truncating; otherwise qr for the forms that need no singular
    values and svd for the rest.  'lq...' is 'qr...' with default form 'left'."""
    if method == "auto":
        if truncation or form == "auto":
            return "svd", form
        if form in ("right", "lorthog", "rfactor", "left", "lfactor", "rorthog"):
            return "qr", form
        return "svd", form
    if method.startswith("lq"):
        return "qr" + method[2:], ("left" if form == "auto" else form)
    return method, form


def default_form(driver):
    """Default form of a driver, as documented: qr-like -> 'right', polar_left -> 'left', the rest 'both'.
    Read from the registry and translated to the word form."""
    D = dmod()
    code = D._DEFAULT_ABSORB[driver]
    for f in registry()["forms"]:
        if f != "auto" and form_code(f) == code:
            return f
    raise core.HarnessError(f"no form for default code {code}")


# ---------------------------------------------------------------------------
# inputs
# ---------------------------------------------------------------------------

def is_single(dt):
    return core.is_single(dt)


def real_dtype(dt):
    return {"float32": "float32", "complex64": "float32"}.get(str(dt), "float64")


def make_input(seed, kind, m, n, dtype, rank=None):
    """Matrix m x n with constructed structure.  Extra kinds on top of vf.arrays.make_matrix:
    'wellcond' (singular values in [0.5, 2]), 'herm_indef' (hermitian, both signs, |eig| separated),
    'psd_wc' (positive definite, eigenvalues in [0.5, 2])."""
    rng = np.random.default_rng(int(seed))
    cplx = "complex" in str(dtype)

    def g(*s):
        x = rng.normal(size=s)
        if cplx:
            x = x + 1j * rng.normal(size=s)
        return x

    k = min(m, n)
    if kind == "wellcond":
        u, _ = np.linalg.qr(g(m, k))
        v, _ = np.linalg.qr(g(n, k))
        s = np.sort(rng.uniform(0.5, 2.0, size=k))[::-1]
        x = (u * s) @ v.conj().T
    elif kind == "geometric":
        u, _ = np.linalg.qr(g(m, k))
        v, _ = np.linalg.qr(g(n, k))
        s = 1.7 ** (-np.arange(k))
        x = (u * s) @ v.conj().T
    elif kind in ("herm_indef", "psd_wc", "herm_geo", "psd_geo"):
        u, _ = np.linalg.qr(g(m, m))
        if kind == "psd_wc":
            w = np.sort(rng.uniform(0.5, 2.0, size=m))[::-1]
        elif kind == "herm_indef":
            w = np.linspace(2.0, 0.6, m) * np.where(np.arange(m) % 2 == 0, 1.0, -1.0)
        elif kind == "psd_geo":
            w = 1.7 ** (-np.arange(m))
        else:
            w = 1.7 ** (-np.arange(m)) * np.where(np.arange(m) % 2 == 0, 1.0, -1.0)
        x = (u * w) @ u.conj().T
        x = (x + x.conj().T) / 2
    else:
        x = A.make_matrix(seed, kind, m, n, "complex128" if cplx else "float64", rank=rank)
    if not cplx:
        x = np.real(x)
    x = np.array(x, dtype=np.dtype(dtype), order="C")
    if kind in ("herm_indef", "psd_wc", "herm_geo", "psd_geo", "hermitian", "psd"):
        # exactly Hermitian after the cast as well
        x = ((x + x.conj().T) / 2).astype(np.dtype(dtype))
    return x


def shape_class(m, n):
    if m == 1 or n == 1:
        return "dim1"
    return "tall" if m > n else ("wide" if m < n else "square")


# ---------------------------------------------------------------------------
# the documented truncation rule (on numpy singular values)
# ---------------------------------------------------------------------------

def rule_count(s, cutoff, mode, max_bond, band):
    """(kmin, kmax): the kept counts the documented rule allows, given reference
    values s (descending, float64) and an ambiguity band (relative to the scale
    of the quantity that is compared with the threshold)."""
    d = len(s)
    if cutoff is not None and cutoff > 0.0:
        if mode in ("abs", "rel"):
            thr = cutoff * (s[0] if mode == "rel" else 1.0)
            tolv = band * max(s[0], thr)
            kmin = int(np.sum(s > thr + tolv))
            kmax = int(np.sum(s >= thr - tolv))
        else:
            p = 2 if mode in ("sum2", "rsum2") else 1
            sp = s ** p
            tot = float(np.sum(sp))
            target = cutoff * (tot if mode.startswith("r") else 1.0)
            # tail[k] = sum of the values discarded when k are kept
            tail = np.array([float(np.sum(sp[k:])) for k in range(d + 1)])
            tolv = band * max(tot, target)
            ok_loose = [k for k in range(d + 1) if tail[k] <= target + tolv]
            ok_strict = [k for k in range(d + 1) if tail[k] < target - tolv]
            kmin = min(ok_loose) if ok_loose else d
            kmax = min(ok_strict) if ok_strict else d
        kmin, kmax = max(kmin, 1), max(kmax, 1)
    else:
        kmin = kmax = d
    if max_bond is not None and max_bond > 0:
        kmin, kmax = min(kmin, max_bond), min(kmax, max_bond)
    return min(kmin, d), min(kmax, d)


def renorm_power(renorm, mode):
    """Documented powers: 0/False/None off; True -> 2 for (r)sum2, 1 for (r)sum1; an int is the power itself.
    Returns a tuple of acceptable powers (abs/rel with True is undocumented)."""
    if renorm is True:
        if mode in ("sum2", "rsum2"):
            return (2,)
        if mode in ("sum1", "rsum1"):
            return (1,)
        return (0, 1, 2)
    if not renorm:
        return (0,)
    return (int(renorm),)


def renorm_factor(s, k, p):
    if p == 0 or k >= len(s):
        return 1.0
    tot, kept = float(np.sum(s ** p)), float(np.sum(s[:k] ** p))
    return (tot / kept) ** (1.0 / p) if kept > 0 else 1.0


# ---------------------------------------------------------------------------
# one cell: call array_split and check everything the contract says
# ---------------------------------------------------------------------------

class CellReject(Exception):
    """array_split refused the cell with a documented exception type."""

    def __init__(self, why):
        super().__init__(why)
        self.why = why


def call_quimb(fn, info):
    """Call fn(); ValueError / NotImplementedError -> CellReject; any other exception whose traceback passes
    through quimb -> crash Violation carrying the cell description."""
    try:
        return fn()
    except (ValueError, NotImplementedError) as e:
        raise CellReject(f"{type(e).__name__}") from e
    except (Violation, Reject, core.HarnessError):
        raise
    except Exception as e:
        frames = core.quimb_frames(e.__traceback__)
        if not frames:
            raise
        fr = frames[-1]
        raise Violation("crash", exc=type(e).__name__, where=f"{fr[0]}:{fr[1]}", msg=str(e)[:120].replace("\n", " "), **info) from e


def tol_class(driver, dtype):
    lossy = driver in LOSSY or driver in ITERATIVE
    if is_single(dtype):
        return INV32 if lossy else EXACT32
    return INV64 if lossy else EXACT64


def band_for(driver, dtype):
    if driver in LOSSY or driver in ITERATIVE:
        return 2e-2 if is_single(dtype) else 1e-6
    return 1e-4 if is_single(dtype) else 1e-9


def fro(x):
    return core.fro(x)


def herm(x):
    return np.conj(np.swapaxes(x, -2, -1))


def check_cell(x, method, form, *, max_bond=None, cutoff=0.0, mode="rsum2", renorm=None, want_info=False,
               extra=None, signed_values=False, info=None):
    """Run one array_split cell on the 2-D array x and check it.  Returns dict(k, removed, err, cls).
    `info`: classification dict merged into every Violation raised here."""
    D = dmod()
    reg = registry()
    info = dict(info or {})
    m, n = x.shape
    dt = str(x.dtype)
    d = min(m, n)
    mb = max_bond
    truncation = ((mb or -1) > 0) or ((cutoff if cutoff is not None else -1.0) > 0.0)
    driver, rform = resolve_method(method, form, truncation)
    caps = reg["caps"][driver]
    eff_form = rform if rform != "auto" else default_form(driver)
    kw = dict(method=method, absorb=form, max_bond=mb, cutoff=cutoff, cutoff_mode=mode, renorm=renorm)
    if extra:
        kw.update(extra)
    idict = None
    if want_info:
        idict = {}
        kw["info"] = idict
    xin = x.copy()
    out = call_quimb(lambda: D.array_split(xin, **kw), info)
    if not (isinstance(out, tuple) and len(out) == 3):
        raise Violation("return-shape", got=repr(type(out)), **info)
    L, s, R = out
    if not np.array_equal(xin, x):
        raise Violation("input-mutated", **info)
    # ---- which parts are returned -------------------------------------------------
    if caps["absorb"]:
        wl, ws, wr = FORM_RETURNS[eff_form]
    else:
        # driver takes no form: it returns its documented (left, None, right)
        wl, ws, wr = True, False, True
        if form not in ("auto", default_form(driver)):
            # the request names a form the driver cannot produce and that was not refused
            info = dict(info, form_ignored=True)
            eff_form = default_form(driver)
    got = (L is not None, s is not None, R is not None)
    if got != (wl, ws, wr):
        raise Violation("parts-returned", got=list(got), want=[wl, ws, wr], **info)
    # ---- shapes, dtypes, bond ---------------------------------------------------------
    ks = set()
    if L is not None:
        L = np.asarray(L)
        if L.ndim != 2 or L.shape[0] != m:
            raise Violation("factor-shape", which="left", got=list(L.shape), **info)
        ks.add(L.shape[1])
    if R is not None:
        R = np.asarray(R)
        if R.ndim != 2 or R.shape[1] != n:
            raise Violation("factor-shape", which="right", got=list(R.shape), **info)
        ks.add(R.shape[0])
    if s is not None:
        s = np.asarray(s)
        if s.ndim != 1:
            raise Violation("factor-shape", which="s", got=list(s.shape), **info)
        ks.add(s.shape[0])
    if len(ks) != 1:
        raise Violation("bond-mismatch", got=sorted(ks), **info)
    k = ks.pop()
    for nm, arr in (("left", L), ("right", R)):
        if arr is not None and str(arr.dtype) != dt:
            raise Violation("dtype", which=nm, got=str(arr.dtype), want=dt, **info)
    if s is not None and str(s.dtype) not in (real_dtype(dt), dt):
        raise Violation("dtype", which="s", got=str(s.dtype), want=real_dtype(dt), **info)
    for nm, arr in (("left", L), ("right", R), ("s", s)):
        if arr is not None and not np.all(np.isfinite(arr)):
            raise Violation("non-finite", which=nm, **info)
    polar = driver.startswith("polar")
    if k < 1 and d >= 1:
        raise Violation("kept-zero", **info)
    if not polar and k > d:
        raise Violation("bond-too-large", k=k, d=d, **info)
    if mb is not None and mb > 0 and caps["max_bond"] and k > mb:
        raise Violation("bond-above-cap", k=k, max_bond=mb, **info)
    # ---- reference spectrum and expected kept count --------------------------------------
    x128 = x.astype(np.complex128)
    U0, s0, V0 = np.linalg.svd(x128, full_matrices=False)
    nx = fro(x128)
    tol = tol_class(driver, dt)
    band = band_for(driver, dt)
    cls = []
    exact_rule = driver in SVD_TYPE or driver == "eigh"
    powers = renorm_power(renorm, mode) if caps["renorm"] else (0,)
    p_on = any(p > 0 for p in powers)
    if polar or not (caps["max_bond"] or caps["cutoff"]):
        # no truncation support: options are documented as ignored
        removed = 0
        if not polar and k != d:
            raise Violation("bond-size", k=k, want=d, **info)
        kref = d
    else:
        cm = mode if caps["cutoff_mode"] else "rsum2"
        co = cutoff if caps["cutoff"] else 0.0
        if driver == "lu":
            kmin, kmax = 1, d  # documented "not rank optimal": only the bounds are promised
        else:
            kmin, kmax = rule_count(s0, co, cm, mb if caps["max_bond"] else None, band)
            if p_on and not (co and co > 0):
                # renormalisation with no cutoff: dropping exact zeros is harmless (no value is lost)
                kmin = min(kmin, max(1, int(np.sum(s0 > band * max(s0[0], 1e-300)))))
        if exact_rule or driver in ITERATIVE:
            if not (kmin <= k <= kmax):
                raise Violation("kept-count", k=k, kmin=kmin, kmax=kmax, **info)
        removed = d - k
        kref = k
    # ---- expected kept values (renorm) and the target x_k -----------------------------------
    xk_opts = []
    for p in powers:
        f = renorm_factor(s0, kref, p) if (kref < d) else 1.0
        sk = s0[:kref] * f
        xk_opts.append((p, sk, (U0[:, :kref] * sk) @ V0[:kref, :]))
    if removed == 0:
        xk_opts = [(powers[0], s0[:kref], x128)]
    # a truncation is only well defined when the cut does not fall inside a degenerate cluster
    gap_ok = removed == 0 or kref >= d or (s0[kref - 1] - s0[kref]) > 1e3 * band * max(s0[0], 1e-300)
    errs = [0.0]

    def close(a, b, floor, reason, t=tol, **kw2):
        e = rel_err(a, b, floor=floor)
        errs.append(e if np.isfinite(e) else 1e300)
        if not e <= t:
            raise Violation(reason, err=float(e), tol=t, **kw2, **info)
        return e

    def best(fn):
        """fn(sk, xk) -> (got, want, floor); pass if any documented renorm power matches."""
        last = None
        for p, sk, xk in xk_opts:
            a, b, fl = fn(sk, xk)
            e = rel_err(a, b, floor=fl)
            if e <= tol:
                errs.append(e)
                return p
            last = e
        return ("fail", last)

    def require(fn, reason, **kw2):
        r = best(fn)
        if isinstance(r, tuple):
            raise Violation(reason, err=float(r[1]) if np.isfinite(r[1]) else 1e300, tol=tol, **kw2, **info)
        return r

    Lc = L.astype(np.complex128) if L is not None else None
    Rc = R.astype(np.complex128) if R is not None else None
    sc = s.astype(np.complex128) if s is not None else None
    lossless_check = gap_ok and (driver != "lu" or removed == 0)
    value_driver = exact_rule or driver in ITERATIVE or removed == 0
    if driver in HERMITIAN_ONLY and sc is not None and not signed_values:
        pass
    if lossless_check and value_driver:
        if polar:
            close(Lc @ Rc, x128, nx, "reconstruction", form=eff_form)
        elif eff_form in (None, "both", "left", "right"):
            if eff_form is None:
                prod = (Lc * sc[None, :]) @ Rc
                # separate values: non-negative, descending (eigh: by modulus)
                sv = np.abs(s.astype(np.float64)) if driver in HERMITIAN_ONLY else s.astype(np.float64)
                if driver not in HERMITIAN_ONLY and np.any(s.astype(np.float64) < -tol * max(s0[0], 1e-300)):
                    raise Violation("negative-singular-value", **info)
                if np.any(np.diff(sv) > tol * max(s0[0], 1e-300) * 10):
                    raise Violation("values-not-descending", **info)
                require(lambda sk, xk: (sv, sk, max(s0[0], 1e-300)), "values", form="full")
            else:
                prod = Lc @ Rc
            require(lambda sk, xk: (prod, xk, nx), "reconstruction" if removed == 0 else "not-best-rank-k", form=str(eff_form))
        elif eff_form == "lorthog":
            require(lambda sk, xk: (Lc @ (herm(Lc) @ xk), xk, nx), "single-factor-range", form=eff_form)
        elif eff_form == "rorthog":
            require(lambda sk, xk: ((xk @ herm(Rc)) @ Rc, xk, nx), "single-factor-range", form=eff_form)
        elif eff_form == "lfactor":
            require(lambda sk, xk: (Lc @ herm(Lc), xk @ herm(xk), nx * nx), "single-factor-gram", form=eff_form)
        elif eff_form == "rfactor":
            require(lambda sk, xk: (herm(Rc) @ Rc, herm(xk) @ xk, nx * nx), "single-factor-gram", form=eff_form)
        elif eff_form == "lsqrt":
            def f(sk, xk):
                g = Lc @ herm(Lc)
                return g @ g, xk @ herm(xk), nx * nx
            require(f, "single-factor-gram", form=eff_form)
        elif eff_form == "rsqrt":
            def f(sk, xk):
                g = herm(Rc) @ Rc
                return g @ g, herm(xk) @ xk, nx * nx
            require(f, "single-factor-gram", form=eff_form)
        elif eff_form == "s":
            sv = np.abs(s.astype(np.float64)) if driver in HERMITIAN_ONLY else s.astype(np.float64)
            require(lambda sk, xk: (np.sort(sv)[::-1], sk, max(s0[0], 1e-300)), "values", form="s")
    # ---- isometry of the factors the library reports isometric -------------------------------------
    li, ri = D.parse_split_left_right_isom(method, form)
    iso_tol = tol * 10
    if li and L is not None:
        e = float(np.linalg.norm(herm(Lc) @ Lc - np.eye(Lc.shape[1])))
        errs.append(e / 10)
        if not e <= iso_tol * max(1.0, math.sqrt(k)):
            raise Violation("isometry-flag", side="left", defect=round(e, 6), **info)
    if ri and R is not None:
        e = float(np.linalg.norm(Rc @ herm(Rc) - np.eye(Rc.shape[0])))
        errs.append(e / 10)
        if not e <= iso_tol * max(1.0, math.sqrt(k)):
            raise Violation("isometry-flag", side="right", defect=round(e, 6), **info)
    # ---- reported truncation error ---------------------------------------------------------------------
    if want_info:
        if "error" not in idict or idict["error"] is None:
            raise Violation("info-error-missing", **info)
        rep = float(np.asarray(idict["error"]))
        disc = float(np.sqrt(np.sum(s0[k:] ** 2))) if k < d else 0.0
        close(np.array(rep), np.array(disc), nx, "info-error-vs-discarded")
        if not p_on and eff_form in (None, "both", "left", "right") and not polar:
            prod = (Lc * sc[None, :]) @ Rc if eff_form is None else Lc @ Rc
            close(np.array(rep), np.array(fro(prod - x128)), nx, "info-error-vs-distance")
    if removed:
        cls.append("truncated")
    return {"k": int(k), "removed": int(removed), "err": float(max(errs)), "cls": cls, "d": d,
            "rankdef": bool(d > 0 and (s0[-1] <= 1e-7 * max(s0[0], 1e-300) if d else False))}
