"""C11 — TEBD equals its documented Trotter product and converges at the stated order.

Oracles (numpy / scipy only):
  * dense Hamiltonian  H = sum embed(H2[where], where) + sum embed(H1[site], site)
    built from the generator's own copies of the supplied arrays (`oracle.embed`),
  * local exponentials by `numpy.linalg.eigh` (`oracle.expm_herm`; quimb calls
    `scipy.linalg.expm`, a different algorithm),
  * the product formulas of order 1, 2 (palindromic) and 4 (Suzuki, s = 1/(4-4^(1/3)))
    written here from the docstring of `trotter_schedule` / `TEBD.sweep` ("right is
    even bonds, left is odd"), applied to the dense initial state,
  * exact evolution `scipy.linalg.expm(-i H T) psi0` for the convergence order.
States are read from the MPS by `numpy.einsum` over its tensors (`oracle.tn_value`),
never by a quimb contraction.
"""
from __future__ import annotations

import math

import numpy as np
from hypothesis import strategies as st

from .. import arrays as A
from ..core import EXACT64, Reject, SubCheck, Violation, rel_err
from ..oracle import embed, expm_herm, tn_value

RULE = ("cases are (chain length 2-7 odd/even, open/periodic, site dependent random Hermitian non-exchange-symmetric "
        "two-site terms keyed in either orientation / default term + overrides, H1 none/default/per-site/mixed, all "
        "arrays passed as temporaries) x (Trotter order 1/2/4, dt or tol, t0, real/imaginary time) x a history of "
        "update_to / at_times / step calls with target times that are multiples, non-multiples and repeats of dt; "
        "oracle = dense product formula written from the docstrings and scipy expm; non-trivial = site dependent "
        "non-symmetric terms and (>= 2 evolution calls or a target time that is not a multiple of dt)")
ASSUMPTIONS = [
    "numpy.linalg.eigh exponentials of the (Hermitian) local terms and scipy.linalg.expm of the dense Hamiltonian are trusted",
    "the per-bond terms used in the product formula are read from the documented attribute `ham.terms` (keys site_a < "
    "site_b) after the same case has verified that they sum to the supplied Hamiltonian; how single-site terms are "
    "shared among bonds is not pinned, only that the sum is unchanged",
    "update_to(T) with step dt = as many full steps as fit strictly before T - dt, then one final step of T - t "
    "(a remainder within 1e-12 dt of a full step is equivalent to 1e-12)",
    "in tol mode the step is the documented choose_time_step formula (tol / (T * mean term norm)) ** (1 / order), "
    "recomputed here from ham.terms with numpy",
    "periodic chains are evolved with split cutoff 1e-13 (cutoff 0 grows bonds exponentially) and compared at 1e-8",
    "odd periodic chains: only time book-keeping, norm and first-order convergence are required (property text); the slope "
    "bound there is 0.5, not 0.6: queue merging joins n-2 or n-1 of the non-commuting right sweeps, so the first order "
    "coefficient is (2n-2)/n^2 .. (2n-1)/n^2 and the fitted slope over n = 1, 2, 4 is 0.596-0.71 on correct code",
    "split_opts method='eig' (singular values from an eigen-decomposition) is judged at 1e-5 instead of EXACT64",
    "TEBDGen / get_trotter_gates: the ordering in force is read back from the object (`tebd.ordering`, "
    "`get_auto_ordering`) after checking it is a permutation of the pairs; the product over it is the oracle",
]

TOL_STATE = EXACT64
TOL_STATE_CYC = 1e-8
T_TOL = 1e-12
NORM_TOL = 1e-10
S4 = 1.0 / (4.0 - 4.0 ** (1.0 / 3.0))


def qtn():
    import quimb.tensor as qtn

    return qtn


# ---------------------------------------------------------------------------
# product formulas (written from the docstrings)
# ---------------------------------------------------------------------------

def my_schedule(nlayers, order):
    """[(layer, fraction)] of one step: order 1 = every layer once; order 2 =
    palindromic (half steps of all but the last layer, full last layer, half
    steps back); order 4 = Suzuki S2(s)^2 S2(1-4s) S2(s)^2."""
    if order == 1:
        return [(k, 1.0) for k in range(nlayers)]
    if nlayers == 0:
        return []
    s2 = [(k, 0.5) for k in range(nlayers - 1)] + [(nlayers - 1, 1.0)] + [(k, 0.5) for k in reversed(range(nlayers - 1))]
    if order == 2:
        return s2
    if order == 4:
        return [(k, f * c) for c in (S4, S4, 1.0 - 4.0 * S4, S4, S4) for k, f in s2]
    raise AssertionError(order)


def flip2(x, d):
    return np.asarray(x).reshape(d, d, d, d).transpose(1, 0, 3, 2).reshape(d * d, d * d)


def herm_check(m):
    m = np.asarray(m)
    return float(np.linalg.norm(m - m.conj().T)) <= 1e-12 * max(1.0, float(np.linalg.norm(m)))


def expm_term(h, x):
    """exp(x h) for a Hermitian h (eigh); general h falls back to scipy."""
    h = np.asarray(h, dtype=np.complex128)
    if herm_check(h):
        return expm_herm(h, x)
    import scipy.linalg as sla

    return sla.expm(x * h)


class DenseLayers:
    """Dense action of layers of site-disjoint two-site exponentials."""

    def __init__(self, dims, terms, layers):
        self.dims = list(dims)
        self.terms = {tuple(k): np.asarray(v, dtype=np.complex128) for k, v in terms.items()}
        self.layers = [list(map(tuple, l)) for l in layers]
        self.cache = {}

    def layer(self, k, x):
        key = (k, complex(x))
        if key not in self.cache:
            D = int(np.prod(self.dims))
            U = np.eye(D, dtype=np.complex128)
            for where in self.layers[k]:
                U = embed(expm_term(self.terms[where], x), self.dims, where) @ U
            if len(self.cache) > 64:
                self.cache.clear()
            self.cache[key] = U
        return self.cache[key]

    def step(self, psi, order, x):
        """psi -> S_order(x) psi, x the full exponent of the step (-i dt or -dt)."""
        for k, f in my_schedule(len(self.layers), order):
            psi = self.layer(k, x * f) @ psi
        return psi

    def step_matrix(self, order, x):
        D = int(np.prod(self.dims))
        U = np.eye(D, dtype=np.complex128)
        for k, f in my_schedule(len(self.layers), order):
            U = self.layer(k, x * f) @ U
        return U


def chain_layers(L, cyclic):
    """'right is even bonds, left is odd' (bond i joins sites i and i+1 mod L)."""
    even = [(i, i + 1) for i in range(0, L - 1, 2)]
    odd = [(i, i + 1) for i in range(1, L - 1, 2)]
    if cyclic:
        ((even if (L - 1) % 2 == 0 else odd)).append((0, L - 1))
    return [even, odd]


# ---------------------------------------------------------------------------
# Hamiltonian descriptions
# ---------------------------------------------------------------------------

H2_MODES = ["dict", "dict", "array", "default+over", "shared"]
H1_MODES = ["none", "array", "dict_all", "dict_some", "dict_default"]
NMAX = 9


@st.composite
def s_ham1d(draw, Ls=(2, 3, 4, 5, 6, 7), cyclic=(False,), ds=(2, 2, 2, 3), bsym=(False,), dmax_dense=256):
    L = draw(st.sampled_from(Ls))
    cyc = draw(st.sampled_from(cyclic))
    if cyc and L < 3:
        L = 3
    d = draw(st.sampled_from(ds))
    if d ** L > dmax_dense:
        d = 2
    bs = bool(cyc and draw(st.sampled_from(bsym)))
    h1 = draw(st.sampled_from(["none", "array"] if bs else H1_MODES))
    return {
        "L": L, "cyclic": bool(cyc), "d": d, "seed": draw(A.seeds),
        "dtype": draw(st.sampled_from(["complex128", "complex128", "float64"])),
        "h2": draw(st.sampled_from(H2_MODES)),
        "orient": draw(st.lists(st.integers(0, 1), min_size=NMAX, max_size=NMAX)),
        "over": draw(st.lists(st.integers(0, 1), min_size=NMAX, max_size=NMAX)),
        "dup": draw(st.sampled_from([-1, -1, -1, 0, 1, 2, 3])),
        "h1": h1,
        "h1sites": draw(st.lists(st.integers(0, 1), min_size=NMAX, max_size=NMAX)),
        "bsym": bs,
        "scale": draw(st.sampled_from([1.0, 1.0, 0.3, 2.5])),
    }


def _herm(rng, n, cplx, scale):
    a = rng.normal(size=(n, n))
    if cplx:
        a = a + 1j * rng.normal(size=(n, n))
    return (a + a.conj().T) * (0.5 * scale)


def ham1d_inputs(spec, allow_dup=True):
    """(H2, H1, ref) - H2/H1 exactly as they will be handed to quimb (fresh
    arrays nobody else references), ref = {"two": [(where, M)], "one": [(site, M)]}
    holding *copies* in the orientation of the key they were given under."""
    L, d, cyc = spec["L"], spec["d"], spec["cyclic"]
    rng = np.random.default_rng(spec["seed"])
    cplx = spec["dtype"].startswith("complex")
    sc = float(spec["scale"])
    nb = L if cyc else L - 1
    bonds = [(i, (i + 1) % L) for i in range(nb)]
    mode = spec["h2"]
    over = [bool(spec["over"][i % NMAX]) for i in range(nb)]
    if cyc and spec["bsym"] and mode in ("array", "default+over", "shared"):
        mode = "default+over"
        over[nb - 1] = True
    two = []
    sym_boundary = False

    def explicit(i, H2):
        b = bonds[i]
        key = b if spec["orient"][i % NMAX] == 0 else (b[1], b[0])
        M = _herm(rng, d * d, cplx, sc)
        if cyc and spec["bsym"] and i == nb - 1:
            M = 0.5 * (M + flip2(M, d))
        H2[key] = M
        two.append((key, M.copy()))
        if allow_dup and mode == "dict" and spec["dup"] == i and not (cyc and spec["bsym"] and i == nb - 1):
            # the same pair supplied a second time under the reversed key: both are "terms for that pair"
            M2 = _herm(rng, d * d, cplx, sc)
            H2[(key[1], key[0])] = M2
            two.append(((key[1], key[0]), M2.copy()))

    if mode == "array":
        D = _herm(rng, d * d, cplx, sc)
        two = [(b, D.copy()) for b in bonds]
        H2 = D
    elif mode == "shared":
        # the `{(i, i + 1): h for i in ...}` idiom: ONE array object under every key (keys in either orientation,
        # optionally one pair named a second time in the other direction with its own array)
        D = _herm(rng, d * d, cplx, sc)
        H2 = {}
        for i in range(nb):
            b = bonds[i]
            key = b if spec["orient"][i % NMAX] == 0 else (b[1], b[0])
            H2[key] = D
            two.append((key, D.copy()))
            if allow_dup and spec["dup"] == i:
                M2 = _herm(rng, d * d, cplx, sc)
                H2[(key[1], key[0])] = M2
                two.append(((key[1], key[0]), M2.copy()))
    elif mode == "dict":
        H2 = {}
        for i in range(nb):
            explicit(i, H2)
    else:
        D = _herm(rng, d * d, cplx, sc)
        H2 = {None: D}
        for i in range(nb):
            if over[i]:
                explicit(i, H2)
            else:
                two.append((bonds[i], D.copy()))
    one = []
    h1 = spec["h1"]
    pick = [bool(spec["h1sites"][i % NMAX]) for i in range(L)]
    if h1 == "none":
        H1 = None
    elif h1 == "array":
        a = _herm(rng, d, cplx, sc)
        H1 = a
        one = [(i, a.copy()) for i in range(L)]
    elif h1 == "dict_all":
        H1 = {}
        for i in range(L):
            a = _herm(rng, d, cplx, sc)
            H1[i] = a
            one.append((i, a.copy()))
    elif h1 == "dict_some":
        H1 = {}
        for i in range(L):
            if pick[i]:
                a = _herm(rng, d, cplx, sc)
                H1[i] = a
                one.append((i, a.copy()))
    else:
        a0 = _herm(rng, d, cplx, sc)
        H1 = {None: a0}
        for i in range(L):
            if pick[i]:
                a = _herm(rng, d, cplx, sc)
                H1[i] = a
                one.append((i, a.copy()))
            else:
                one.append((i, a0.copy()))
    if cyc and spec["bsym"]:
        sym_boundary = True
    ref = {"two": two, "one": one, "dims": [d] * L, "bonds": bonds, "bsym": sym_boundary, "mode": mode}
    return H2, H1, ref


def dense_from_ref(ref):
    dims = ref["dims"]
    D = int(np.prod(dims))
    H = np.zeros((D, D), dtype=np.complex128)
    mag = 0.0
    for where, M in ref["two"]:
        H = H + embed(M, dims, list(where))
        mag += float(np.linalg.norm(M))
    for site, M in ref["one"]:
        H = H + embed(M, dims, [site])
        mag += float(np.linalg.norm(M))
    return H, mag


def site_dependent(ref):
    """the supplied two-site terms are not all one matrix, or single-site terms are present"""
    base = ref["two"][0][1]
    return any(not np.array_equal(M, base) for _, M in ref["two"][1:]) or len(ref["one"]) > 0


def ham_classes(spec, ref):
    c = ["L=%d" % spec["L"], "cyclic" if spec["cyclic"] else "open", "d=%d" % spec["d"], "h2=" + ref["mode"],
         "h1=" + spec["h1"], spec["dtype"]]
    if any(w[0] > w[1] for w, _ in ref["two"]):
        c.append("reversed-key")
    if len(ref["two"]) > len(ref["bonds"]):
        c.append("dup-key")
    if spec["cyclic"]:
        c.append("bsym" if ref["bsym"] else "bnonsym")
    return c


def hold_inputs(H2, H1):
    """[(array as supplied, copy)] - to see afterwards whether quimb wrote into the caller's arrays"""
    arrs = []
    for H in (H2, H1):
        if H is None:
            continue
        vals = list(H.values()) if isinstance(H, dict) else [H]
        for v in vals:
            if not any(v is a for a, _ in arrs):
                arrs.append((v, v.copy()))
    return arrs


def check_inputs_untouched(held, info):
    for a, c in held:
        if not np.array_equal(a, c):
            raise Violation("input-mutated", err=float(np.linalg.norm(a - c)), **info)


def build_ham1d(spec, allow_dup=True):
    Q = qtn()
    H2, H1, ref = ham1d_inputs(spec, allow_dup=allow_dup)
    ham = Q.LocalHam1D(spec["L"], H2=H2, H1=H1, cyclic=spec["cyclic"])
    del H2, H1
    return ham, ref


def check_terms_sum(terms, ref, info, names=None):
    """sum embed(terms) == supplied Hamiltonian; keys sorted; one term per pair.
    ref holds site *positions*; names[i] is the node the library knows position i by."""
    dims = ref["dims"]
    Hd, mag = dense_from_ref(ref)
    name = (lambda i: i) if names is None else (lambda i: names[i])
    pos = None if names is None else {names[i]: i for i in range(len(names))}
    keys = list(terms)
    for k in keys:
        if not (isinstance(k, tuple) and len(k) == 2 and k[0] < k[1]):
            raise Violation("term-key-not-sorted", key=repr(k), **info)
    want_pairs = {tuple(sorted((name(a), name(b)))) for (a, b), _ in ref["two"]}
    if set(keys) != want_pairs or len(keys) != len(want_pairs):
        raise Violation("term-keys", got=sorted(map(repr, keys)), want=sorted(map(repr, want_pairs)), **info)
    Hs = np.zeros_like(Hd)
    for k, v in terms.items():
        w = [pos[x] for x in k] if pos is not None else list(k)
        Hs = Hs + embed(np.asarray(v), dims, w)
    e = rel_err(Hs, Hd, floor=mag)
    if not e <= EXACT64:
        raise Violation("terms-sum", err=e, **info)
    return e, Hd, mag


# ---------------------------------------------------------------------------
# 1. LocalHam1D: sum of terms, get_gate orientation, get_gate_expm
# ---------------------------------------------------------------------------

XS = [[0.0, -0.1], [-0.05, 0.0], [0.3, -0.2], [1.0, 0.0], [0.0, -0.7], [0.013, 0.0]]


def as_x(x):
    """[re, im] -> python scalar (a real float when im == 0, so real exponents stay real)"""
    re_, im_ = float(x[0]), float(x[1])
    return re_ if im_ == 0.0 else complex(re_, im_)


@st.composite
def s_ham1d_terms(draw, tier):
    spec = draw(s_ham1d(cyclic=(False, False, True), bsym=(False, False, True)))
    return {"ham": spec, "xs": draw(st.lists(st.sampled_from(XS), min_size=1, max_size=3)),
            "which": draw(st.lists(st.integers(0, 11), min_size=1, max_size=4)),
            "rev": draw(st.lists(st.booleans(), min_size=4, max_size=4)), "ask_rev": draw(st.sampled_from([False, False, True])),
            "hold": draw(st.sampled_from([False, False, True]))}


def check_gates(ham, terms_ref, d, case, info, floor):
    """get_gate / get_gate_expm for pairs in both orientations.  terms_ref: the
    library's own per-pair term (sorted key) - the *orientation* and the
    exponential are what is checked here."""
    keys = sorted(terms_ref)
    err = 0.0
    nrev = 0
    for j, wi in enumerate(case["which"]):
        a, b = keys[wi % len(keys)]
        rev = bool(case.get("ask_rev", True)) and case["rev"][j % len(case["rev"])]
        where = (b, a) if rev else (a, b)
        nrev += rev
        want = np.asarray(terms_ref[(a, b)])
        if rev:
            want = flip2(want, d)
        got = np.asarray(ham.get_gate(where))
        e = rel_err(got, want, floor=floor)
        if not e <= EXACT64:
            raise Violation("gate-orientation" if rev else "gate-value", err=e, reversed=bool(rev), call="get_gate", **info)
        err = max(err, e)
        for x in case["xs"]:
            x = as_x(x)
            U = np.asarray(ham.get_gate_expm(where, x))
            ref = expm_term(want, x)
            e = rel_err(U, ref, floor=float(np.linalg.norm(ref)))
            if not e <= EXACT64:
                raise Violation("gate-orientation" if rev else "gate-expm", err=e, reversed=bool(rev), call="get_gate_expm", **info)
            err = max(err, e)
            # asked again: the cached answer must be the same matrix
            U2 = np.asarray(ham.get_gate_expm(where, x))
            if not np.array_equal(U, U2):
                raise Violation("gate-expm-cache", reversed=bool(rev), **info)
    return err, nrev


def run_ham1d_terms(case):
    Q = qtn()
    spec = case["ham"]
    H2, H1, ref = ham1d_inputs(spec)
    # a third of the cases keep the supplied arrays (the caller inspects them afterwards), the rest pass temporaries
    held = hold_inputs(H2, H1) if case.get("hold") else []
    ham = Q.LocalHam1D(spec["L"], H2=H2, H1=H1, cyclic=spec["cyclic"])
    del H2, H1
    info = dict(cls="LocalHam1D", cyclic=spec["cyclic"])
    check_inputs_untouched(held, info)
    e, Hd, mag = check_terms_sum(ham.terms, ref, info)
    terms = {k: np.array(v) for k, v in ham.terms.items()}
    e2, nrev = check_gates(ham, terms, spec["d"], case, info, floor=mag)
    check_inputs_untouched(held, info)
    return {"nt": site_dependent(ref) and spec["L"] >= 3,
            "cls": ham_classes(spec, ref) + (["asked-reversed"] if nrev else []) + (["inputs-held"] if held else []),
            "err": max(e, e2)}


# ---------------------------------------------------------------------------
# 2. LocalHamGen on small graphs (+ orderings, needs networkx for colourings)
# ---------------------------------------------------------------------------

NODE_KINDS = ["int", "str", "tuple"]


@st.composite
def s_hamgen(draw, tier):
    n = draw(st.integers(2, 6))
    # connected graph by construction: random tree + extra edges
    edges = []
    for i in range(1, n):
        edges.append((draw(st.integers(0, i - 1)), i))
    for _ in range(draw(st.integers(0, 3))):
        a = draw(st.integers(0, n - 1))
        b = draw(st.integers(0, n - 1))
        if a != b and (a, b) not in edges and (b, a) not in edges:
            edges.append((a, b))
    edges = [list(e) if draw(st.booleans()) else [e[1], e[0]] for e in edges]
    return {"n": n, "edges": edges, "nodes": draw(st.sampled_from(NODE_KINDS)), "seed": draw(A.seeds),
            "dtype": draw(st.sampled_from(["complex128", "complex128", "float64"])),
            "h1": draw(st.sampled_from(H1_MODES)), "h1sites": draw(st.lists(st.integers(0, 1), min_size=NMAX, max_size=NMAX)),
            "dup": draw(st.sampled_from([-1, -1, 0, 1])), "shared": draw(st.sampled_from([False, False, True])),
            "hold": draw(st.sampled_from([False, False, True])),
            "xs": draw(st.lists(st.sampled_from(XS), min_size=1, max_size=2)),
            "which": draw(st.lists(st.integers(0, 11), min_size=1, max_size=4)),
            "rev": draw(st.lists(st.booleans(), min_size=4, max_size=4)), "ask_rev": draw(st.sampled_from([False, False, True])),
            "ordering": draw(st.sampled_from(["sort", None, "random", "random-ungrouped", "smallest_last", "largest_first",
                                              "random_sequential"])),
            "order": draw(st.sampled_from([1, 2, 4])), "steps": draw(st.integers(1, 3)),
            "fuse": draw(st.booleans()), "alternate": draw(st.booleans()), "x": draw(st.sampled_from(XS)),
            "group": draw(st.booleans())}


def node_name(kind, i):
    if kind == "int":
        return i
    if kind == "str":
        return "abcdefgh"[i]
    return (i // 2, i % 2)


def hamgen_inputs(case, d=2):
    rng = np.random.default_rng(case["seed"])
    cplx = case["dtype"].startswith("complex")
    n = case["n"]
    names = [node_name(case["nodes"], i) for i in range(n)]
    pos = {names[i]: i for i in range(n)}
    H2, two = {}, []
    shared = _herm(rng, d * d, cplx, 1.0) if case.get("shared") else None  # one array object under every key
    for j, (a, b) in enumerate(case["edges"]):
        M = shared if shared is not None else _herm(rng, d * d, cplx, 1.0)
        H2[(names[a], names[b])] = M
        two.append(((a, b), M.copy()))
        if case["dup"] == j:
            M2 = _herm(rng, d * d, cplx, 1.0)
            H2[(names[b], names[a])] = M2
            two.append(((b, a), M2.copy()))
    one = []
    h1 = case["h1"]
    pick = [bool(case["h1sites"][i % NMAX]) for i in range(n)]
    if h1 == "none":
        H1 = None
    elif h1 == "array":
        a = _herm(rng, d, cplx, 1.0)
        H1 = a
        one = [(i, a.copy()) for i in range(n)]
    elif h1 in ("dict_all", "dict_some"):
        H1 = {}
        for i in range(n):
            if h1 == "dict_all" or pick[i]:
                a = _herm(rng, d, cplx, 1.0)
                H1[names[i]] = a
                one.append((i, a.copy()))
    else:
        a0 = _herm(rng, d, cplx, 1.0)
        H1 = {None: a0}
        for i in range(n):
            if pick[i]:
                a = _herm(rng, d, cplx, 1.0)
                H1[names[i]] = a
                one.append((i, a.copy()))
            else:
                one.append((i, a0.copy()))
    ref = {"two": two, "one": one, "dims": [d] * n, "bonds": sorted({tuple(sorted(w)) for w, _ in two}), "bsym": False,
           "mode": "dict", "pos": pos, "names": names}
    return H2, H1, ref


def check_layers(layers, terms, info):
    flat = [tuple(p) for l in layers for p in l]
    if sorted(map(repr, flat)) != sorted(map(repr, terms)):
        raise Violation("ordering-not-a-permutation", got=len(flat), want=len(terms), **info)
    for l in layers:
        seen = set()
        for a, b in l:
            if a in seen or b in seen:
                raise Violation("layer-not-commuting", **info)
            seen.update((a, b))


def run_hamgen(case):
    Q = qtn()
    import random

    random.seed(case["seed"])  # get_auto_ordering('random') draws from the global `random` module
    d = 2
    H2, H1, ref = hamgen_inputs(case, d)
    held = hold_inputs(H2, H1) if case.get("hold") else []
    ham = Q.LocalHamGen(H2=H2, H1=H1)
    del H2, H1
    names, pos = ref["names"], ref["pos"]
    info = dict(cls="LocalHamGen", nodes=case["nodes"])
    check_inputs_untouched(held, info)
    e, Hd, mag = check_terms_sum(ham.terms, ref, info, names=names)
    if set(ham.sites) != set(names) or ham.nsites != len(names):
        raise Violation("sites", got=repr(ham.sites), **info)
    terms = {k: np.array(v) for k, v in ham.terms.items()}
    e2, nrev = check_gates(ham, terms, d, case, info, floor=mag)
    # orderings: a permutation of all pairs; grouped layers are site-disjoint
    ordering = case["ordering"]
    o_info = dict(info, ordering=str(ordering))
    flat = ham.get_auto_ordering(ordering, group=False)
    if sorted(map(repr, map(tuple, flat))) != sorted(map(repr, terms)):
        raise Violation("ordering-not-a-permutation", group=False, **o_info)
    layers = ham.get_auto_ordering(ordering, group=True)
    check_layers(layers, terms, o_info)
    # Trotter gate sequence == product formula over the layers it was given
    layers = [[tuple(p) for p in l] for l in layers]
    x = as_x(case["x"])
    order, steps = case["order"], case["steps"]
    gates = ham.get_trotter_gates(x, order=order, steps=steps, ordering=layers, fuse_adjacent=case["fuse"],
                                  alternate=case["alternate"])
    dims = ref["dims"]
    D = int(np.prod(dims))
    U = np.eye(D, dtype=np.complex128)
    fr = {}
    for g in gates:
        Ug, where = g
        where = tuple(where)
        a, b = where
        want_t = terms[(a, b)] if (a, b) in terms else flip2(terms[(b, a)], d)
        refU = expm_term(want_t, g.frac * x)
        eg = rel_err(np.asarray(Ug), refU, floor=float(np.linalg.norm(refU)))
        if not eg <= EXACT64:
            raise Violation("trotter-gate-value", err=eg, order=order, **info)
        U = embed(np.asarray(Ug), dims, [pos[a], pos[b]]) @ U
        fr[where] = fr.get(where, 0.0) + g.frac
    for w, f in fr.items():
        if abs(f - steps) > 1e-12 * steps:
            raise Violation("trotter-fractions", got=f, want=steps, order=order, **info)
    # node names are ordered like their positions (by construction), so sorted-by-name == sorted-by-position
    tpos = {(pos[a], pos[b]): v for (a, b), v in terms.items()}
    lpos = [[(pos[a], pos[b]) for a, b in l] for l in layers]
    dl = DenseLayers(dims, tpos, lpos)
    Uref = np.eye(D, dtype=np.complex128)
    S = dl.step_matrix(order, x)
    for _ in range(steps):
        Uref = S @ Uref
    floor = float(np.linalg.norm(Uref))
    e3 = rel_err(U, Uref, floor=floor)
    if not e3 <= 1e-8:
        raise Violation("trotter-gates-product", err=e3, order=order, steps=steps, fuse=case["fuse"], **info)
    nl = len(layers)
    return {"nt": len(terms) >= 3 and nl >= 2, "cls": ["n=%d" % case["n"], "nodes=" + case["nodes"], "h1=" + case["h1"],
                                                        "ordering=" + str(ordering), "order=%d" % order, "layers=%d" % nl,
                                                        "steps=%d" % steps, "fuse" if case["fuse"] else "nofuse"]
            + (["asked-reversed"] if nrev else []) + (["dup-key"] if len(ref["two"]) > len(terms) else [])
            + (["shared-array"] if case.get("shared") else []) + (["inputs-held"] if held else []),
            "err": max(e, e2, e3)}


# ---------------------------------------------------------------------------
# 3. LocalHam2D / LocalHam3D represent the sum of the supplied terms
# ---------------------------------------------------------------------------

SHAPES2 = [(1, 2), (2, 2), (2, 3), (3, 2), (1, 4), (3, 3)]
SHAPES3 = [(1, 1, 2), (1, 2, 2), (2, 2, 2), (2, 1, 3), (1, 3, 2)]


@st.composite
def s_ham_nd(draw, tier):
    nd = draw(st.sampled_from([2, 2, 3]))
    shape = list(draw(st.sampled_from(SHAPES2 if nd == 2 else SHAPES3)))
    # periodic only along directions of length >= 3 (length 2 doubles the bond: not pinned by the docs)
    cyc = [bool(s >= 3 and draw(st.booleans())) for s in shape]
    return {"nd": nd, "shape": shape, "cyclic": cyc, "cyc_form": draw(st.sampled_from(["tuple", "bool"])),
            "seed": draw(A.seeds), "dtype": draw(st.sampled_from(["complex128", "float64"])),
            "h2": draw(st.sampled_from(["array", "default+over", "dict"])),
            "orient": draw(st.lists(st.integers(0, 1), min_size=32, max_size=32)),
            "over": draw(st.lists(st.integers(0, 1), min_size=32, max_size=32)),
            "h1": draw(st.sampled_from(H1_MODES)),
            "h1sites": draw(st.lists(st.integers(0, 1), min_size=NMAX, max_size=NMAX)),
            "xs": draw(st.lists(st.sampled_from(XS), min_size=1, max_size=2)),
            "which": draw(st.lists(st.integers(0, 30), min_size=1, max_size=3)),
            "rev": draw(st.lists(st.booleans(), min_size=4, max_size=4)), "ask_rev": draw(st.sampled_from([False, False, True]))}


def lattice_bonds(shape, cyc):
    """nearest neighbour bonds (coo, coo + e_k), wrapped where periodic."""
    import itertools

    nd = len(shape)
    bonds = []
    for coo in itertools.product(*[range(s) for s in shape]):
        for k in range(nd):
            c2 = list(coo)
            c2[k] += 1
            if c2[k] >= shape[k]:
                if not cyc[k]:
                    continue
                c2[k] = 0
            c2 = tuple(c2)
            if c2 != coo:
                bonds.append((coo, c2))
    return bonds


def run_ham_nd(case):
    import itertools

    Q = qtn()
    shape, nd = case["shape"], case["nd"]
    cyc = list(case["cyclic"])
    if case["cyc_form"] == "bool":
        # a single flag means every direction: only usable when that is what was drawn
        if len(set(cyc)) != 1 or (cyc[0] and min(shape) < 3):
            cyc_arg = tuple(cyc)
        else:
            cyc_arg = cyc[0]
    else:
        cyc_arg = tuple(cyc)
    d = 2
    rng = np.random.default_rng(case["seed"])
    cplx = case["dtype"].startswith("complex")
    sites = list(itertools.product(*[range(s) for s in shape]))
    pos = {s: i for i, s in enumerate(sites)}
    bonds = lattice_bonds(shape, cyc)
    if not bonds:
        raise Reject("no bonds")
    mode = case["h2"]
    two = []
    if mode == "array":
        D0 = _herm(rng, d * d, cplx, 1.0)
        H2 = D0
        two = [(b, D0.copy()) for b in bonds]
    else:
        H2 = {}
        D0 = None
        if mode == "default+over":
            D0 = _herm(rng, d * d, cplx, 1.0)
            H2[None] = D0
        for i, b in enumerate(bonds):
            if mode == "dict" or case["over"][i % 32]:
                key = b if case["orient"][i % 32] == 0 else (b[1], b[0])
                M = _herm(rng, d * d, cplx, 1.0)
                H2[key] = M
                two.append((key, M.copy()))
            else:
                two.append((b, D0.copy()))
    one = []
    h1 = case["h1"]
    pick = [bool(case["h1sites"][i % NMAX]) for i in range(len(sites))]
    if h1 == "none":
        H1 = None
    elif h1 == "array":
        a = _herm(rng, d, cplx, 1.0)
        H1 = a
        one = [(s, a.copy()) for s in sites]
    elif h1 in ("dict_all", "dict_some"):
        H1 = {}
        for i, s in enumerate(sites):
            if h1 == "dict_all" or pick[i]:
                a = _herm(rng, d, cplx, 1.0)
                H1[s] = a
                one.append((s, a.copy()))
    else:
        a0 = _herm(rng, d, cplx, 1.0)
        H1 = {None: a0}
        for i, s in enumerate(sites):
            if pick[i]:
                a = _herm(rng, d, cplx, 1.0)
                H1[s] = a
                one.append((s, a.copy()))
            else:
                one.append((s, a0.copy()))
    covered = {s for w, _ in two for s in w}
    if any(s not in covered for s, _ in one):
        raise Reject("single-site term on an uncoupled site (documented ValueError)")
    if nd == 2:
        ham = Q.LocalHam2D(shape[0], shape[1], H2=H2, H1=H1, cyclic=cyc_arg)
    else:
        ham = Q.LocalHam3D(shape[0], shape[1], shape[2], H2=H2, H1=H1, cyclic=cyc_arg)
    del H2, H1
    ref = {"two": [((pos[a], pos[b]), M) for (a, b), M in two], "one": [(pos[s], M) for s, M in one], "dims": [d] * len(sites),
           "bonds": bonds, "bsym": False, "mode": mode}
    info = dict(cls="LocalHam%dD" % nd)
    Hd, mag = dense_from_ref(ref)
    terms = ham.terms
    for k in terms:
        if not (isinstance(k, tuple) and len(k) == 2 and k[0] < k[1]):
            raise Violation("term-key-not-sorted", key=repr(k), **info)
    want_pairs = {tuple(sorted(w)) for w, _ in two}
    if set(terms) != want_pairs:
        raise Violation("term-keys", got=len(terms), want=len(want_pairs), **info)
    Hs = np.zeros_like(Hd)
    for (a, b), v in terms.items():
        Hs = Hs + embed(np.asarray(v), ref["dims"], [pos[a], pos[b]])
    e = rel_err(Hs, Hd, floor=mag)
    if not e <= EXACT64:
        raise Violation("terms-sum", err=e, cyclic=any(cyc), h1=h1, **info)
    tcopy = {k: np.array(v) for k, v in terms.items()}
    e2, nrev = check_gates(ham, tcopy, d, case, info, floor=mag)
    return {"nt": len(terms) >= 3 and (mode != "array" or h1 != "none"),
            "cls": ["%dD" % nd, "shape=" + "x".join(map(str, shape)), "h2=" + mode, "h1=" + h1,
                    "cyclic" if any(cyc) else "open"] + (["asked-reversed"] if nrev else []), "err": max(e, e2)}


# ---------------------------------------------------------------------------
# 4. trotter_schedule coefficients (finite table)
# ---------------------------------------------------------------------------

def enum_schedule(tier):
    for order in (1, 2, 4):
        for nl in range(0, 7 if tier == "quick" else 12):
            yield {"order": order, "nlayers": nl}
    yield {"order": 3, "nlayers": 2}
    yield {"order": 0, "nlayers": 2}


def run_schedule(case):
    from quimb.tensor.tnag.tebd import trotter_schedule

    order, nl = case["order"], case["nlayers"]
    if order not in (1, 2, 4):
        try:
            trotter_schedule(nl, order=order)
        except ValueError:
            return {"nt": False, "cls": ["unsupported-order-rejected"], "err": 0.0}
        raise Violation("unsupported-order-accepted", order=order)
    got = [(int(k), float(f)) for k, f in trotter_schedule(nl, order=order)]
    want = my_schedule(nl, order)
    if [k for k, _ in got] != [k for k, _ in want]:
        raise Violation("schedule-layers", order=order, nlayers=nl, got=[k for k, _ in got])
    err = max([abs(a[1] - b[1]) for a, b in zip(got, want)], default=0.0)
    if err > 1e-15:
        raise Violation("schedule-fractions", order=order, nlayers=nl, err=err)
    # independent of my_schedule: every layer sums to one step, symmetric formulas are palindromes
    tot = {}
    for k, f in got:
        tot[k] = tot.get(k, 0.0) + f
    if sorted(tot) != list(range(nl)) or any(abs(v - 1.0) > 1e-14 for v in tot.values()):
        raise Violation("schedule-sum", order=order, nlayers=nl)
    if order in (2, 4) and got != got[::-1]:
        raise Violation("schedule-not-palindromic", order=order, nlayers=nl)
    if order == 4 and nl >= 1:
        # the order condition of the Suzuki recursion: 4 s^3 + (1 - 4 s)^3 == 0
        k0 = nl - 1
        fr = [f for k, f in got if k == k0]
        c = 4 * fr[0] ** 3 + fr[2] ** 3
        if len(fr) != 5 or abs(c) > 1e-14:
            raise Violation("suzuki-order-condition", got=c, nlayers=nl)
    return {"nt": nl >= 2, "cls": ["order=%d" % order], "err": err}


# ---------------------------------------------------------------------------
# TEBD histories
# ---------------------------------------------------------------------------

KS = [0.0, 0.25, 0.5, 1.0, 1.0, 1.5, 2.0, 2.3, 3.0, 0.37]
# split options that never truncate (open chains): documented tensor_split methods / cut-off modes with cutoff 0
SPLITS = ["svd", "svd", "svd", "eig", "qr", "abs", "rsum2", "renorm", "maxbond"]


@st.composite
def s_ops(draw, max_ops, orders, allow_step, no_zero=False):
    ops = []
    n = draw(st.integers(1, max_ops))
    kinds = ["update_to", "update_to", "update_to", "at_times"] + ([] if no_zero else ["repeat"]) + (["step"] if allow_step else [])
    ks = [k for k in KS if k > 0] if no_zero else KS
    for _ in range(n):
        kind = draw(st.sampled_from(kinds))
        op = {"op": kind, "order": draw(st.sampled_from(orders)),
              # per call override of the step (factor of the base step) or, in tolerance form, of the tolerance
              "dtf": draw(st.sampled_from([None, None, None, 0.5, 2.0, 0.7])),
              "nsteps": draw(st.sampled_from([1, 2, 3]))}
        if kind == "update_to":
            op["k"] = draw(st.sampled_from(ks))
        elif kind == "at_times":
            op["ks"] = draw(st.lists(st.sampled_from(KS), min_size=1, max_size=3))
            op["reverse"] = draw(st.booleans())
            op["take"] = draw(st.integers(1, 3))
        elif kind == "step":
            op["queue"] = draw(st.sampled_from([False, False, True]))
        ops.append(op)
    return ops


@st.composite
def s_history(draw, tier, Ls, cyclic, imag=(False,), orders=(1, 2, 4), max_ops=4, kmax=8.0, bonds=(1, 2, 3), bsym=(False,),
              allow_tol=True, allow_step=True, ds=(2, 2, 2, 3)):
    # 60 % of the histories are built clear of the trigger classes of the open findings (C11-a: imaginary time at
    # order 1, C11-b: non-symmetric periodic boundary term, C11-d: tolerance form with a zero span, C11-f: imaginary
    # time on a ring) so that the search goes on behind them; the rest is unrestricted.
    clean = draw(st.integers(0, 9)) < 6
    if clean:
        if cyclic:
            bsym = (True,)
            imag = (False,)
        if True in imag:
            orders = tuple(o for o in orders if o != 1) or orders
    ham = draw(s_ham1d(Ls=Ls, cyclic=(cyclic,), bsym=bsym, ds=ds, dmax_dense=128))
    mode = draw(st.sampled_from(["dt", "dt", "tol", "percall"] if allow_tol else ["dt"]))
    return {
        "ham": ham,
        "psi": {"bond": draw(st.sampled_from(bonds)), "seed": draw(A.seeds),
                "dtype": draw(st.sampled_from(["complex128", "complex128", "complex128", "float64"])),
                "scale": draw(st.sampled_from([1.0, 1.0, 1.7]))},
        "mode": mode, "tol_order": draw(st.sampled_from(orders)),
        "dt": draw(st.sampled_from([0.1, 0.05, 0.13])), "t0": draw(st.sampled_from([0.0, 0.0, -0.7, 0.35])),
        "imag": draw(st.sampled_from(imag)), "kmax": kmax,
        "split": draw(st.sampled_from(SPLITS)), "pass_array": draw(st.booleans()),
        "ops": draw(s_ops(max_ops, orders, allow_step and mode == "dt", no_zero=clean and mode != "dt")),
    }


def fold_value(tensors, output):
    """einsum of a long list of tensors folded in left to right (numpy.einsum alone is limited to 52 labels):
    a label is summed as soon as no later tensor and not the output carries it."""
    cur_a, cur_l = None, None
    for n, (a, l) in enumerate(tensors):
        if cur_a is None:
            cur_a, cur_l = np.asarray(a), list(l)
            continue
        later = set(output)
        for _, l2 in tensors[n + 1:]:
            later.update(l2)
        keep = [x for x in dict.fromkeys(list(cur_l) + list(l)) if x in later]
        ids = {}
        cur_a = np.einsum(cur_a, [ids.setdefault(x, len(ids)) for x in cur_l], np.asarray(a),
                          [ids.setdefault(x, len(ids)) for x in l], [ids.setdefault(x, len(ids)) for x in keep])
        cur_l = keep
    ids = {}
    return np.einsum(cur_a, [ids.setdefault(x, len(ids)) for x in cur_l], [ids.setdefault(x, len(ids)) for x in output])


def mps_dense(psi, L):
    return np.asarray(tn_value(psi, [psi.site_ind(i) for i in range(L)]), dtype=np.complex128).reshape(-1)


def build_state(case, L, d, cyclic):
    Q = qtn()
    ps = case["psi"]
    psi = Q.MPS_rand_state(L, ps["bond"], phys_dim=d, cyclic=cyclic, dtype=ps["dtype"], seed=ps["seed"] % (2 ** 31))
    if ps["scale"] != 1.0:
        psi[0].modify(data=psi[0].data * ps["scale"])
    return psi


def round_sig(x, n=3):
    if x == 0:
        return 0.0
    return float(f"{x:.{n}g}")


class Hist:
    """Model of one TEBD object: dense state advanced by the product formula.

    mode 'dt'      : TEBD(dt=dt0); calls use the default or pass dt=
    mode 'tol'     : TEBD(tol=tol0); calls use the default or pass tol=
    mode 'percall' : TEBD(); every call passes dt= or tol=
    """

    def __init__(self, case):
        Q = qtn()
        self.case = case
        spec = case["ham"]
        self.L, self.d, self.cyc = spec["L"], spec["d"], spec["cyclic"]
        H2, H1, self.ref = ham1d_inputs(spec, allow_dup=True)
        # "H : LocalHam1D or array_like": a bare two-site array may be handed to TEBD itself
        self.as_array = bool(case.get("pass_array")) and isinstance(H2, np.ndarray) and H1 is None
        self.ham = None if self.as_array else Q.LocalHam1D(self.L, H2=H2, H1=H1, cyclic=self.cyc)
        self.imag = bool(case["imag"])
        self.info = dict(cyclic=self.cyc, imag=self.imag, odd=bool(self.L % 2), bsym=bool(self.ref["bsym"]))
        psi0 = build_state(case, self.L, self.d, self.cyc)
        self.psi0 = mps_dense(psi0, self.L)
        self.n0 = float(np.linalg.norm(self.psi0))
        self.t0 = float(case["t0"])
        self.mode = case["mode"]
        self.tol_order = int(case["tol_order"])
        # mean Frobenius norm of the local terms: from the supplied arrays when there are no single-site terms to share
        if self.as_array:
            hn0 = float(np.linalg.norm(H2))
        else:
            hn0 = float(np.mean([np.linalg.norm(np.asarray(v)) for v in self.ham.terms.values()]))
        # base step scaled to the coupling strength (dt0 * mean term norm = 0.05 .. 0.13)
        self.dt0 = round_sig(float(case["dt"]) / max(hn0, 1e-3), 3)
        kw = {}
        if self.mode == "dt":
            kw["dt"] = self.dt0
        elif self.mode == "tol":
            # the documented step formula then gives dt0 / k**(1/order) for a span of k * dt0
            self.tol0 = round_sig(self.dt0 ** (self.tol_order + 1) * hn0, 6)
            kw["tol"] = self.tol0
        so = {"cutoff": 1e-13 if self.cyc else 0.0}
        self.tol_state = TOL_STATE_CYC if self.cyc else TOL_STATE
        self.tol_norm = NORM_TOL
        self.split = "svd"
        if not self.cyc:
            self.split = split = case.get("split", "svd")
            if split == "eig":
                so["method"] = "eig"  # singular values from an eigen-decomposition: half the digits
                self.tol_state, self.tol_norm = 1e-5, 1e-8
            elif split == "qr":
                so["method"] = "qr"
            elif split in ("abs", "rsum2"):
                so["cutoff_mode"] = split
            elif split == "renorm":
                so["renorm"] = True
            elif split == "maxbond":
                so["max_bond"] = self.d ** (self.L // 2)  # the largest Schmidt rank an open chain can have
        self.tebd = Q.TEBD(psi0, H2 if self.as_array else self.ham, t0=self.t0, imag=self.imag, progbar=False,
                           split_opts=so, **kw)
        del H2, H1
        if self.as_array:
            self.ham = self.tebd.H
        e, self.Hd, self.mag = check_terms_sum(self.ham.terms, self.ref, dict(cls="LocalHam1D", cyclic=self.cyc))
        self.terms = {k: np.array(v, dtype=np.complex128) for k, v in self.ham.terms.items()}
        self.hn = float(np.mean([np.linalg.norm(v) for v in self.terms.values()]))
        self.dl = DenseLayers([self.d] * self.L, self.terms, chain_layers(self.L, self.cyc))
        # odd periodic chains have no symmetric splitting: only book-keeping is required there
        self.exact_product = not (self.cyc and self.L % 2 == 1)
        self.t = self.t0
        self.psi = self.psi0.copy()
        self.cur_dt = self.dt0 if self.mode == "dt" else None  # the step an argument-less step() takes
        self.pending = False  # a queued half sweep is outstanding: pt lags behind the model
        self.budget = float(case["kmax"])
        self.ncalls = 0
        self.nonmult = False
        self.repeat = False
        self.maxerr = 0.0
        self.cls = set()
        self.check("init")

    # -- model -------------------------------------------------------------
    def x_of(self, tau):
        return (-1.0 if self.imag else -1.0j) * tau

    def advance(self, T, dt, order):
        """documented update_to: full steps while more than dt away, then one final step."""
        if self.exact_product:
            eps = 1e-12 * dt
            t = self.t
            while t < T - dt - eps:
                self.psi = self.dl.step(self.psi, order, self.x_of(dt))
                t += dt
            self.psi = self.dl.step(self.psi, order, self.x_of(T - t))
            if self.imag:
                # keep the model state O(1); only its direction is compared
                self.psi = self.psi / np.linalg.norm(self.psi)
        self.t = T

    # -- checks ------------------------------------------------------------
    def check_time(self, what):
        t = float(self.tebd.t)
        if not abs(t - self.t) <= T_TOL * max(1.0, abs(self.t)):
            raise Violation("time", got=t, want=self.t, after=what, **self.info)

    def check_state(self, pt, what, order=None):
        got = mps_dense(pt, self.L)
        nrm = float(np.linalg.norm(got))
        info = dict(self.info, after=what)
        if order is not None:
            info["order"] = order
        normalised = self.imag and self.ncalls > 0
        if self.exact_product:
            if normalised:
                e = rel_err(got / nrm if nrm > 0 else got, self.psi / np.linalg.norm(self.psi), floor=1.0)
            else:
                e = rel_err(got, self.psi, floor=self.n0)
            if not e <= self.tol_state:
                raise Violation("state", err=e, **info)
            self.maxerr = max(self.maxerr, e)
        if normalised:
            if not abs(nrm - 1.0) <= self.tol_norm:
                raise Violation("imag-norm", got=nrm, **info)
        elif not abs(nrm - self.n0) <= self.tol_norm * self.n0:
            raise Violation("norm", got=nrm, want=self.n0, **info)

    def check(self, what, order=None):
        self.check_time(what)
        if not self.pending:
            self.check_state(self.tebd.pt, what, order)

    # -- operations ----------------------------------------------------------
    def weight(self, order):
        # periodic chains: an order 4 step is 15 sweeps, each multiplying the bond dimension
        return 4.0 if (self.cyc and order == 4) else 1.0

    def spend(self, k, order):
        k = k * self.weight(order)
        if k > self.budget + 1e-9:
            return False
        self.budget -= k
        return True

    def call_kwargs(self, op, span):
        """(kwargs for quimb, order, the step the documentation says is then used or None if undefined)"""
        order = op["order"]
        kw = {}
        form = "dt"
        if self.mode == "dt":
            if op.get("dtf") is not None:
                kw["dt"] = round_sig(self.dt0 * op["dtf"], 3)
        elif self.mode == "tol":
            form = "tol"
            if op.get("dtf") is None:
                order = self.tol_order
        else:
            form = "dt" if op.get("dtf") is not None else "tol"
            if form == "dt":
                kw["dt"] = round_sig(self.dt0 * op["dtf"], 3)
        kw["order"] = order
        if form == "dt":
            dt = kw.get("dt", self.dt0)
            return kw, order, dt, form
        if self.mode == "tol" and op.get("dtf") is None:
            tol = self.tol0
        else:
            # a per call tolerance aimed at about `nsteps` steps over the span
            sp = span if span > 0 else self.dt0
            tol = round_sig((sp / int(op["nsteps"])) ** order * sp * self.hn, 6)
            kw["tol"] = tol
        if span <= 0:
            return kw, order, None, form
        # documented: dt = (tol / (T * mean term norm)) ** (1 / order)
        return kw, order, (tol / (span * self.hn)) ** (1.0 / order), form

    def op_update_to(self, op, repeat=False):
        if repeat:
            k = 0.0
        else:
            k = float(op["k"])
        f = op.get("dtf") if (self.mode in ("dt", "percall") and op.get("dtf") is not None) else 1.0
        T = self.t + k * self.dt0
        span = T - self.t
        kw, order, dt, form = self.call_kwargs(op, span)
        if not self.spend(k / f, order):
            return
        info = dict(self.info, order=order, form=form)
        if k == 0.0:
            self.repeat = True
        elif abs(k / f - round(k / f)) > 1e-9:
            self.nonmult = True
        if dt is None:
            # tolerance form with nothing left to evolve: must leave (t, state) alone
            self.cls.add("tol-zero-span")
            try:
                self.tebd.update_to(T, **kw)
                self.ncalls += 1
                self.check("update_to", order)
            except Violation as v:
                raise Violation("tol-zero-span", inner=v.reason, call="update_to", **info)
            except (ZeroDivisionError, FloatingPointError, ValueError, np.linalg.LinAlgError) as e:
                raise Violation("tol-zero-span", inner=type(e).__name__, call="update_to", **info)
            return
        if span / dt > 60:
            raise Reject("too many steps")
        self.tebd.update_to(T, **kw)
        self.advance(T, dt, order)
        self.cur_dt = dt if form == "dt" else None
        self.ncalls += 1
        self.cls.add("order=%d" % order)
        self.cls.add("form=" + form)
        self.check("update_to", order)

    def op_at_times(self, op):
        ks = [float(k) for k in op["ks"]]
        f = op.get("dtf") if (self.mode in ("dt", "percall") and op.get("dtf") is not None) else 1.0
        ts = [self.t + k * self.dt0 for k in ks]
        if op.get("reverse"):
            ts = ts[::-1]
        span = max(ts) - self.t
        kw, order, dt, form = self.call_kwargs(op, span)
        if not self.spend(max(ks) / f, order):
            return
        if dt is None:
            return  # tolerance form and zero span: covered by the update_to spelling
        if span / dt > 60:
            raise Reject("too many steps")
        if any(abs(k / f - round(k / f)) > 1e-9 for k in ks):
            self.nonmult = True
        if len(set(ks)) < len(ks) or 0.0 in ks:
            self.repeat = True
        it = self.tebd.at_times(ts, progbar=False, **kw)
        for T in sorted(ts)[: max(1, int(op["take"]))]:
            pt = next(it)
            self.ncalls += 1
            self.advance(T, dt, order)
            self.check_time("at_times")
            self.check_state(pt, "at_times", order)
            self.check_state(self.tebd.pt, "at_times", order)
        it.close()
        self.cur_dt = dt if form == "dt" else None
        self.cls.add("at_times")
        self.cls.add("order=%d" % order)
        self.cls.add("form=" + form)

    def op_step(self, op):
        """step(): one step of the default dt (only asked while no call has overridden it), or of an explicit dt"""
        order = op["order"]
        kw = {"order": order}
        if op.get("dtf") is not None:
            dt = round_sig(self.dt0 * op["dtf"], 3)
            kw["dt"] = dt
        else:
            dt = self.dt0
        if self.cur_dt != self.dt0 or not self.spend(dt / self.dt0, order):
            return
        queue = bool(op.get("queue"))
        if queue:
            kw["queue"] = True
        self.tebd.step(**kw)
        self.ncalls += 1
        if self.exact_product:
            self.psi = self.dl.step(self.psi, order, self.x_of(dt))
        self.t = self.t + dt
        self.pending = self.pending or queue
        if self.pending and not queue:
            self.pending = False  # an unqueued sweep drains the queue first
        self.cls.add("step-queued" if queue else "step")
        self.cls.add("order=%d" % order)
        self.check("step", order)

    def drain(self):
        """a plain (unqueued) zero-length evolution flushes the queued half sweep"""
        if self.pending:
            self.tebd.update_to(self.t, order=2)
            self.pending = False
            self.ncalls += 1
            self.check("drain", 2)

    def run_ops(self):
        for op in self.case["ops"]:
            kind = op["op"]
            if kind != "step":
                self.drain()
            if kind == "update_to":
                self.op_update_to(op)
            elif kind == "repeat":
                self.op_update_to(op, repeat=True)
            elif kind == "at_times":
                self.op_at_times(op)
            elif kind == "step" and self.mode == "dt":
                self.op_step(op)
        self.drain()

    def outcome(self):
        spec = self.case["ham"]
        nt = site_dependent(self.ref) and self.L >= 3 and (self.ncalls >= 2 or self.nonmult)
        cls = ham_classes(spec, self.ref) + sorted(self.cls) + ["mode=" + self.mode, "t0=0" if self.t0 == 0 else "t0!=0",
                                                               "calls>=2" if self.ncalls >= 2 else "calls<2"]
        if self.nonmult:
            cls.append("non-multiple")
        if self.repeat:
            cls.append("repeat")
        if self.case["psi"]["dtype"] == "float64":
            cls.append("real-state")
        if not self.exact_product:
            cls.append("bookkeeping-only")
        if not self.cyc:
            cls.append("split=" + self.split)
        if self.as_array:
            cls.append("H-as-array")
        # the eig route is judged at 1e-6: report its error on the scale of the other routes' tolerance
        return {"nt": bool(nt), "cls": cls, "err": self.maxerr * (TOL_STATE / self.tol_state)}


def run_history(case):
    h = Hist(case)
    h.run_ops()
    return h.outcome()


def strat_hist(**kw):
    def f(tier):
        return s_history(tier, **kw)

    return f


# ---------------------------------------------------------------------------
# convergence order
# ---------------------------------------------------------------------------

@st.composite
def s_conv(draw, tier, Ls, cyclic, orders=(1, 2, 4), bsym=(False,), bonds=(1, 2, 3)):
    ham = draw(s_ham1d(Ls=Ls, cyclic=(cyclic,), bsym=bsym, ds=(2,), dmax_dense=128))
    ham["scale"] = 1.0
    order = draw(st.sampled_from(orders))
    if cyclic and order == 4 and ham["L"] <= 4:
        order = 2  # 11-31 sweeps on a 3/4 site ring take bond dimensions into the hundreds (minutes)
    return {"ham": ham, "psi": {"bond": draw(st.sampled_from(bonds)), "seed": draw(A.seeds), "dtype": "complex128", "scale": 1.0},
            "order": order, "route": draw(st.sampled_from(["update_to", "update_to", "at_times"])),
            "t0": draw(st.sampled_from([0.0, 0.4])), "imag": False}


DT_REF = {1: 0.02, 2: 0.06, 4: 0.2}


def fit_slope(ns, errs):
    x = np.log(1.0 / np.asarray(ns, dtype=float))
    y = np.log(np.asarray(errs, dtype=float))
    return float(np.polyfit(x, y, 1)[0])


def run_conv(case):
    import scipy.linalg as sla

    Q = qtn()
    spec = case["ham"]
    L, d, cyc = spec["L"], spec["d"], spec["cyclic"]
    order = case["order"]
    ham, ref = build_ham1d(spec, allow_dup=False)
    info = dict(cyclic=cyc, odd=bool(L % 2), order=order, bsym=bool(ref["bsym"]))
    e, Hd, mag = check_terms_sum(ham.terms, ref, dict(cls="LocalHam1D", cyclic=cyc))
    hmax = max(float(np.linalg.norm(np.asarray(v), 2)) for v in ham.terms.values())
    psi0 = build_state(case, L, d, cyc)
    p0 = mps_dense(psi0, L)
    odd_cyc = cyc and L % 2 == 1
    # base step in units of the strongest local term; periodic chains: few sweeps (bond growth)
    dt_ref = DT_REF[order] / hmax
    if cyc:
        n0 = 1
        ns = [1, 2, 3] if order == 4 else [1, 2, 4]
    else:
        n0 = 2
        ns = [2, 4, 8]
    T = round_sig(n0 * dt_ref, 3)
    t0 = float(case["t0"])
    exact = sla.expm(-1j * Hd * T) @ p0
    errs = []
    for n in ns:
        dt = T / n
        tebd = Q.TEBD(psi0, ham, dt=dt, t0=t0, progbar=False, split_opts={"cutoff": 1e-13 if cyc else 0.0})
        if case["route"] == "update_to":
            tebd.update_to(t0 + T, order=order)
            pt = tebd.pt
        else:
            pt = list(tebd.at_times([t0 + T], order=order, progbar=False))[-1]
        if not abs(tebd.t - (t0 + T)) <= T_TOL * max(1.0, abs(t0 + T)):
            raise Violation("time", got=float(tebd.t), want=t0 + T, after="conv", **info)
        got = mps_dense(pt, L)
        if not abs(np.linalg.norm(got) - 1.0) <= NORM_TOL:
            raise Violation("norm", got=float(np.linalg.norm(got)), want=1.0, **info)
        errs.append(float(np.linalg.norm(got - exact)))
    floor = 1e-11 if cyc else 1e-13
    cls = ["L=%d" % L, "cyclic" if cyc else "open", "order=%d" % order, "route=" + case["route"]]
    if cyc:
        cls.append("bsym" if ref["bsym"] else "bnonsym")
    if max(errs) <= floor * 10:
        # a single layer (L == 2) or commuting layers: the formula is exact, no order to measure
        return {"nt": False, "cls": cls + ["exact-no-slope"], "err": 0.0}
    if min(errs) <= floor:
        raise Reject("error reaches the rounding floor")
    slope = fit_slope(ns, errs)
    # odd rings: queue merging joins n-2 or n-1 (float round-off in `t < T - dt`) of the non-commuting right sweeps, so the
    # first order coefficient depends on n: predicted slopes 0.60-0.71 for order 2 at n = 1, 2, 4 (observed 0.595-0.74)
    need = 0.5 if odd_cyc else order - 0.35
    if not slope >= need:
        raise Violation("slope", slope=round(slope, 3), need=need, errs=["%.3e" % x for x in errs], **info)
    cls.append("slope-excess=%+.1f" % (round((slope - (1 if odd_cyc else order)) * 5) / 5))
    return {"nt": L >= 3, "cls": cls, "err": max(0.0, (1.0 if odd_cyc else float(order)) - slope)}


def strat_conv(**kw):
    def f(tier):
        return s_conv(tier, **kw)

    return f


# ---------------------------------------------------------------------------
# id()-keyed caches: a history of gate requests on one Hamiltonian object
# ---------------------------------------------------------------------------

@st.composite
def s_cache(draw, tier):
    spec = draw(s_ham1d(Ls=(3, 4, 5, 6), cyclic=(False, False, True), ds=(2, 2, 3)))
    if draw(st.booleans()):
        # the supplied arrays themselves become the stored terms (nothing else keeps them alive)
        spec.update(h1="none", h2="dict", orient=[0] * NMAX, dup=-1)
    ops = draw(st.lists(st.one_of(
        st.fixed_dictionaries({"op": st.just("expm"), "w": st.integers(0, 11), "x": st.sampled_from(XS)}),
        st.fixed_dictionaries({"op": st.just("expm_all"), "x": st.sampled_from(XS[:3])}),
        st.fixed_dictionaries({"op": st.just("gate"), "w": st.integers(0, 11)}),
        st.fixed_dictionaries({"op": st.just("apply"), "fn": st.sampled_from(["scale", "conj", "astype", "copy"])}),
        st.fixed_dictionaries({"op": st.just("second"), "seed": A.seeds}),
    ), min_size=2, max_size=10))
    return {"ham": spec, "ops": ops}


def run_cache(case):
    spec = case["ham"]
    ham, ref = build_ham1d(spec)
    e, Hd, mag = check_terms_sum(ham.terms, ref, dict(cls="LocalHam1D", cyclic=spec["cyclic"]))
    model = {k: np.array(v, dtype=np.complex128) for k, v in ham.terms.items()}
    keys = sorted(model)
    napply = 0
    nexp = 0
    err = 0.0
    others = []
    for op in case["ops"]:
        if op["op"] == "apply":
            fn = {"scale": lambda x: 2.0 * x, "conj": lambda x: x.conj(), "astype": lambda x: x.astype("complex128"),
                  "copy": lambda x: x.copy()}[op["fn"]]
            ham.apply_to_arrays(fn)
            model = {k: np.array(fn(v), dtype=np.complex128) for k, v in model.items()}
            napply += 1
            continue
        if op["op"] == "second":
            # another Hamiltonian built (and dropped) in between: fresh temporaries recycle ids
            s2 = dict(spec, seed=op["seed"])
            h2, _ = build_ham1d(s2)
            for k in list(h2.terms)[:2]:
                h2.get_gate_expm(k, -0.1j)
            others.append(None)
            del h2
            continue
        info = dict(after_apply=napply > 0, cls="LocalHam1D")
        if op["op"] == "gate":
            k = keys[op["w"] % len(keys)]
            got = np.asarray(ham.get_gate(k))
            ee = rel_err(got, model[k], floor=mag)
            if not ee <= EXACT64:
                raise Violation("gate-value", err=ee, call="get_gate", **info)
            err = max(err, ee)
            continue
        x = as_x(op["x"])
        for k in (keys if op["op"] == "expm_all" else [keys[op["w"] % len(keys)]]):
            got = np.asarray(ham.get_gate_expm(k, x))
            want = expm_term(model[k], x)
            ee = rel_err(got, want, floor=float(np.linalg.norm(want)))
            if not ee <= EXACT64:
                raise Violation("gate-expm", err=ee, call="get_gate_expm", **info)
            nexp += 1
            err = max(err, ee)
    return {"nt": nexp >= 2, "cls": ham_classes(spec, ref) + (["after-apply"] if napply else []) + (["second-ham"] if others else []),
            "err": err}


# ---------------------------------------------------------------------------
# MPO propagator built from the same product formula
# ---------------------------------------------------------------------------

@st.composite
def s_mpo_prop(draw, tier):
    spec = draw(s_ham1d(Ls=(2, 3, 4, 5), cyclic=(False,), ds=(2,)))
    order = draw(st.sampled_from([1, 2, 4]))
    cs = draw(st.booleans()) and not (order == 4 and spec["L"] > 3)  # fused bonds 4**10: seconds per case
    # several tensors per site + a `shape` to permute to is finding C11-e: keep it to a quarter of those cases
    shape = draw(st.sampled_from(["default", "default", "none", "lrdu"] if cs else ["none", "none", "none", "default"]))
    return {"ham": spec, "order": order, "x": draw(st.sampled_from(XS)), "contract_sites": cs, "shape": shape}


def run_mpo_prop(case):
    spec = case["ham"]
    L, d = spec["L"], spec["d"]
    ham, ref = build_ham1d(spec)
    e, Hd, mag = check_terms_sum(ham.terms, ref, dict(cls="LocalHam1D", cyclic=False))
    terms = {k: np.array(v, dtype=np.complex128) for k, v in ham.terms.items()}
    x = as_x(case["x"])
    order = case["order"]
    kw = {}
    if case["shape"] == "none":
        kw["shape"] = None
    elif case["shape"] != "default":
        kw["shape"] = case["shape"]
    mpo = ham.build_mpo_propagator_trotterized(x, order=order, contract_sites=case["contract_sites"], cutoff=0.0, **kw)
    up = ["k%d" % i for i in range(L)]  # documented default upper_ind_id / lower_ind_id
    lo = ["b%d" % i for i in range(L)]
    tens = []
    for i in range(L):
        # site by site so that the running tensor stays small
        tens += [(np.asarray(t.data), tuple(t.inds)) for t in mpo.select_tensors("I%d" % i)]
    if len(tens) != mpo.num_tensors or float(getattr(mpo, "exponent", 0.0)) != 0.0:
        raise Violation("mpo-site-tags", got=len(tens), want=mpo.num_tensors)
    got = np.asarray(fold_value(tens, up + lo), dtype=np.complex128).reshape(d ** L, d ** L)
    # default ordering 'sort' greedily groups the sorted pairs: for a chain that is even bonds then odd bonds
    dl = DenseLayers([d] * L, terms, chain_layers(L, False) if L > 2 else [[(0, 1)]])
    want = dl.step_matrix(order, x)
    e2 = rel_err(got, want, floor=float(np.linalg.norm(want)))
    if not e2 <= 1e-8:
        raise Violation("mpo-propagator", err=e2, order=order)
    return {"nt": L >= 3 and site_dependent(ref), "cls": ham_classes(spec, ref) + ["order=%d" % order], "err": max(e, e2)}


# ---------------------------------------------------------------------------
# arbitrary geometry TEBD: a sweep is the documented ordered product of local exponentials
# ---------------------------------------------------------------------------

@st.composite
def s_tebdgen(draw, tier):
    n = draw(st.integers(2, 5))
    edges = [(draw(st.integers(0, i - 1)), i) for i in range(1, n)]
    for _ in range(draw(st.integers(0, 2))):
        a, b = draw(st.integers(0, n - 1)), draw(st.integers(0, n - 1))
        if a != b and (a, b) not in edges and (b, a) not in edges:
            edges.append((a, b))
    edges = [list(e) if draw(st.booleans()) else [e[1], e[0]] for e in edges]
    reflect = draw(st.booleans())
    return {"n": n, "edges": edges, "nodes": draw(st.sampled_from(NODE_KINDS)), "seed": draw(A.seeds),
            "dtype": draw(st.sampled_from(["complex128", "float64"])), "dup": -1,
            "h1": draw(st.sampled_from(H1_MODES)), "h1sites": draw(st.lists(st.integers(0, 1), min_size=NMAX, max_size=NMAX)),
            "ordering": draw(st.sampled_from(["sort", "explicit", "explicit", "random"])),
            # an explicit ordering may name a pair in either direction (a fifth of the cases: finding C11-b)
            "rev_pairs": draw(st.sampled_from([False, False, False, False, True])),
            "perm_seed": draw(st.integers(0, 10 ** 6)), "reflect": reflect,
            "steps": draw(st.integers(1, 2 if reflect else 3)),
            "taus": draw(st.lists(st.sampled_from([0.1, 0.05, 0.2]), min_size=1, max_size=2, unique=True)),
            "tau_form": draw(st.sampled_from(["ctor", "evolve", "list"])), "bond": draw(st.sampled_from([1, 2])),
            "two_calls": draw(st.sampled_from([False, False, True]))}


def run_tebdgen(case):
    import random

    Q = qtn()
    random.seed(case["seed"])  # get_auto_ordering('random') shuffles with the global `random` module
    d, n = 2, case["n"]
    H2, H1, ref = hamgen_inputs(case, d)
    names, pos = ref["names"], ref["pos"]
    ham = Q.LocalHamGen(H2=H2, H1=H1)
    del H2, H1
    info = dict(cls="TEBDGen", reflect=bool(case["reflect"]))
    e, Hd, mag = check_terms_sum(ham.terms, ref, info, names=names)
    terms = {k: np.array(v, dtype=np.complex128) for k, v in ham.terms.items()}
    named_edges = [(names[a], names[b]) for a, b in case["edges"]]
    psi0 = Q.TN_from_edges_rand(named_edges, D=case["bond"], phys_dim=d, seed=case["seed"] % (2 ** 31), dtype=case["dtype"])
    p0 = np.asarray(tn_value(psi0, [psi0.site_ind(s) for s in names]), dtype=np.complex128).reshape(-1)
    rev_pairs = False
    if case["ordering"] == "explicit":
        rng = np.random.default_rng(case["perm_seed"])
        keys = sorted(terms)
        ordering = [keys[i] for i in rng.permutation(len(keys))]
        if case["rev_pairs"]:
            flips = rng.integers(0, 2, size=len(ordering))
            flips[int(rng.integers(len(ordering)))] = 1
            ordering = [(b, a) if f else (a, b) for (a, b), f in zip(ordering, flips)]
            rev_pairs = True
        arg = list(ordering)
    else:
        arg = case["ordering"]
    taus = [float(x) for x in case["taus"]]
    steps = int(case["steps"])
    kw = {}
    if case["tau_form"] == "ctor":
        kw["tau"] = taus[0]
    tebd = Q.TEBDGen(psi0, ham, D=4096, cutoff=0.0, ordering=arg, second_order_reflect=bool(case["reflect"]),
                     compute_energy_final=False, progbar=False, **kw)
    seq = [tuple(w) for w in tebd.ordering]
    if sorted(map(repr, (tuple(sorted(w)) for w in seq))) != sorted(map(repr, terms)):
        raise Violation("ordering-not-a-permutation", ordering=str(case["ordering"]), **info)
    if case["ordering"] == "explicit" and seq != [tuple(w) for w in arg]:
        raise Violation("ordering-not-kept", **info)
    info["rev_pairs"] = rev_pairs
    dims = ref["dims"]

    def sweep(psi, tau):
        full = seq + seq[::-1] if case["reflect"] else seq
        f = 2.0 if case["reflect"] else 1.0
        for a, b in full:
            h = terms[(a, b)] if (a, b) in terms else flip2(terms[(b, a)], d)
            psi = embed(expm_term(h, -tau / f), dims, [pos[a], pos[b]]) @ psi
        return psi

    ref_psi = p0.copy()
    ncall = 2 if (case["two_calls"] and steps * (2 if case["reflect"] else 1) <= 2) else 1  # bonds double per gate
    total = 0
    err = 0.0
    for c in range(ncall):
        if case["tau_form"] == "ctor":
            tebd.evolve(steps)
            used = [taus[0]] * steps
        elif case["tau_form"] == "evolve":
            tebd.evolve(steps, tau=taus[c % len(taus)])
            used = [taus[c % len(taus)]] * steps
        else:
            # a sequence gives one step size per sweep, the last one repeating
            tebd.evolve(steps, tau=list(taus))
            used = [taus[min(i, len(taus) - 1)] for i in range(steps)]
        for tau in used:
            ref_psi = sweep(ref_psi, tau)
        total += steps
        if tebd.n != total:
            raise Violation("sweep-count", got=int(tebd.n), want=total, **info)
        pt = tebd.state
        got = np.asarray(tn_value(pt, [pt.site_ind(s) for s in names]), dtype=np.complex128).reshape(-1)
        ee = rel_err(got, ref_psi, floor=float(np.linalg.norm(ref_psi)))
        if not ee <= 1e-8:
            raise Violation("state", err=ee, after="evolve", **info)
        err = max(err, ee)
    return {"nt": len(terms) >= 2 and (total >= 2 or case["reflect"]),
            "cls": ["n=%d" % n, "nodes=" + case["nodes"], "ordering=" + case["ordering"], "reflect" if case["reflect"] else "plain",
                    "tau=" + case["tau_form"], "h1=" + case["h1"], "sweeps=%d" % total]
            + (["tau-list-shorter-than-steps"] if case["tau_form"] == "list" and len(taus) < steps else []) + (["rev-pairs"] if rev_pairs else []),
            "err": max(e, err)}


SUBCHECKS = [
    SubCheck("ham1d_terms", run_ham1d_terms, s_ham1d_terms, examples=(200, 2000), shards=(1, 4),
             rule="LocalHam1D open/periodic: sum embed(terms) == supplied H (EXACT64), sorted keys, get_gate in both orientations, get_gate_expm == eigh exponential; nt: L>=3 and site dependent"),
    SubCheck("hamgen_terms", run_hamgen, s_hamgen, examples=(200, 2000), shards=(1, 4), needs_deps=True,
             rule="LocalHamGen on connected graphs of 2-6 nodes (int/str/tuple names): sum of terms, gates, every auto ordering is a permutation into site-disjoint layers, get_trotter_gates product == product formula; nt: >=3 terms and >=2 layers"),
    SubCheck("ham_nd_terms", run_ham_nd, s_ham_nd, examples=(120, 1500), shards=(1, 4),
             rule="LocalHam2D/3D (default term, overrides, reversed keys, periodic directions of length>=3): sum of terms, gates; nt: >=3 terms and not the bare default"),
    SubCheck("trotter_schedule", run_schedule, enum=enum_schedule, exhaustive=True,
             rule="orders 1/2/4 x 0-6 layers: equals the docstring formula, fractions per layer sum to 1, palindromic, Suzuki order condition; unsupported orders raise"),
    SubCheck("tebd_open_real", run_history, strat_hist(Ls=(2, 3, 4, 5, 6, 7), cyclic=False, imag=(False,)), examples=(150, 2000),
             shards=(2, 6), rule="open chain, cutoff 0, real time: after every call t == T (1e-12), dense state == product formula (EXACT64), norm preserved (1e-10); nt as RULE"),
    SubCheck("tebd_open_imag", run_history, strat_hist(Ls=(2, 3, 4, 5, 6, 7), cyclic=False, imag=(True,)), examples=(150, 1500),
             shards=(1, 4), rule="open chain, imaginary time: state == normalised product formula, norm == 1 (1e-10), t == T; nt as RULE"),
    SubCheck("tebd_cyclic_even", run_history,
             strat_hist(Ls=(4, 6), cyclic=True, imag=(False, True), max_ops=2, kmax=3.0, bonds=(1, 2),
                        bsym=(False, True), ds=(2,)),
             examples=(80, 800), shards=(1, 4),
             rule="even periodic chain, cutoff 1e-13, <= 2.5 steps: state == product formula with the boundary bond in the odd layer (1e-8), t, norm; nt as RULE"),
    SubCheck("tebd_cyclic_odd", run_history,
             strat_hist(Ls=(3, 5), cyclic=True, imag=(False, True), max_ops=2, kmax=3.0, bonds=(1, 2),
                        bsym=(False, True), ds=(2,)),
             examples=(50, 500), shards=(1, 4),
             rule="odd periodic chain: time book-keeping and norm only (no symmetric splitting exists); nt as RULE"),
    SubCheck("conv_open", run_conv, strat_conv(Ls=(3, 4, 5, 6), cyclic=False), examples=(50, 500), shards=(1, 4),
             rule="open chain: error vs expm(-iHT) psi0 at 2/4/8 steps, fitted slope >= order - 0.35; nt: L>=3"),
    SubCheck("conv_cyclic", run_conv, strat_conv(Ls=(3, 4, 5, 6), cyclic=True, bsym=(False, True, True, True), bonds=(1,)), examples=(50, 400),
             shards=(1, 4),
             rule="periodic chain: 1/2/4 steps (order 4: 1/2/3), slope >= order - 0.35 (even L), >= 0.5 (odd L); nt: all"),
    SubCheck("gate_cache_history", run_cache, s_cache, examples=(150, 1500), shards=(1, 4),
             rule="sequence of get_gate / get_gate_expm / apply_to_arrays / unrelated Hamiltonians on one object built from temporaries: every answer == exponential of the current term; nt: >=2 exponentials"),
    SubCheck("tebdgen_sweeps", run_tebdgen, s_tebdgen, examples=(100, 1000), shards=(1, 4), needs_deps=True,
             rule="TEBDGen (no truncation: D=4096, cutoff 0) on connected graphs of 2-5 nodes: after evolve() the dense state == the ordered product of exp(-tau h) over the ordering in force (explicit / sort / random, optional reflection at tau/2), n counts sweeps; nt: >=2 terms and (>=2 sweeps or reflection)"),
    SubCheck("mpo_propagator", run_mpo_prop, s_mpo_prop, examples=(60, 600), shards=(1, 4),
             rule="build_mpo_propagator_trotterized(x, order) dense == product formula matrix (even then odd bonds); nt: L>=3 site dependent"),
]
