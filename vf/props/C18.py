"""C18 — exact time evolution follows the Schroedinger / von Neumann equation.

Code under test: ``quimb.evo.Evolution`` (methods 'integrate' with both
steppers, 'solve', 'expm'; ``update_to``, ``at_times``, compute callbacks,
``int_stop``, time dependent callable Hamiltonians).

Oracle: ``scipy.linalg.expm(-1j * H * (t - t0))`` on dense numpy arrays
(applied two-sided to density operators), always from the *initial* state, so
it does not depend on the history of requested times.  Time dependent
``H(t) = H0 + f(t) H1``: closed form when ``[H0, H1] = 0``, otherwise an ordered
product of 4th order Magnus steps that is self-validated by step halving.

Tolerances (relative, floor = norm of the initial state):
  * 'solve' / 'expm':  1e-10
  * 'integrate':       1e-6 * max(1, 20 * ||G|| * |t - t0|), ||G|| = ||H||_2 for kets and 2||H||_2 (norm of the
    commutator) for density operators.  scipy's dopri5 /
    dop853 are run by quimb with their default *local* tolerance rtol=1e-6; the
    flow is unitary so the global error is the sum of the local ones; both
    steppers take fewer than 20 steps per unit of ||H|| t (measured: the error
    is <= 2e-7 per unit, see notes/C18.md).  A flat 1e-6 cannot be met with a
    100x margin by the unchanged code (observed 4e-6 at ||H|| t = 60).  For H(t) = H0 + f(t) H1 the
    frequency of the drive max|f'|/max|f| is added to ||G|| (the steppers must resolve it too).
The reported ``err`` is normalised: max over points of err / tol(point) times
the nominal tolerance of the method (1e-6 resp. 1e-10).
"""
from __future__ import annotations

import itertools
import os
import zlib

import numpy as np
import scipy.linalg as sla
from hypothesis import strategies as st

from .. import arrays as A
from ..core import HarnessError, MachineSpec, Reject, SubCheck, Violation, rel_err

RULE = ("cases are (Hermitian H 2-16 dim of 6 spectral kinds x representation, ket / pure / mixed density operator x "
        "dense / sparse / 1-d, t0, method, sequence of requested times); oracle scipy.linalg.expm(-iH(t-t0)) applied to "
        "the initial state (two-sided for density operators; Magnus product / closed form for H(t)); non-trivial = "
        "density operator or t0 != 0 or >= 3 requested times")
ASSUMPTIONS = [
    "scipy.linalg.expm (Pade) on dense <=16x16 matrices is the trusted propagator; quimb's paths use eigh, "
    "scipy.sparse.linalg.expm_multiply (Taylor) or scipy.integrate.complex_ode, none of which share code with it",
    "integrator accuracy is stated per unit of ||G|| t: tol = 1e-6*max(1, 20*||G||*|t-t0|), ||G|| = ||H||_2 (kets) or "
    "2||H||_2 (density operators) (scipy default local rtol=1e-6, unitary flow: global error = sum of local errors)",
    "time dependent oracle: 4th order Magnus steps h=0.01 and h=0.005 must agree to 1e-9 (else the case is rejected); "
    "for commuting H0, H1 the closed form is used and the Magnus product is cross-checked against it",
    "documented support pins which cells must be accepted: 'integrate' and 'solve' for kets and density operators, "
    "'expm' for kets, LinearOperator / callable only with 'integrate'; everything else may reject or must be right",
]

# progbar=True cases: keep tqdm from drawing (read when tqdm is first imported); quimb's own progress book-keeping
# (continuous_progbar.cupdate) still runs
os.environ.setdefault("TQDM_DISABLE", "1")

TOL_EXACT = 1e-10
TOL_INT = 1e-6
STEPS_PER_UNIT = 20.0
T_TOL = 1e-12
REJECT_TYPES = (TypeError, ValueError, NotImplementedError)


def _reject_types():
    try:
        from numba.core.errors import TypingError

        return REJECT_TYPES + (TypingError,)
    except Exception:  # pragma: no cover
        return REJECT_TYPES


# ---------------------------------------------------------------------------
# builders (pure functions of the JSON case)
# ---------------------------------------------------------------------------

HKINDS = ("cplx", "real", "diag", "degenerate", "banded", "shift")
HNORMS = (0.3, 1.0, 2.5)


def dense_ham(desc):
    """Hermitian matrix with spectral norm desc['norm']."""
    d, kind, nrm = int(desc["d"]), desc["kind"], float(desc["norm"])
    rng = np.random.default_rng(int(desc["seed"]))
    a = rng.normal(size=(d, d)) + 1j * rng.normal(size=(d, d))
    if kind == "real":
        h = a.real + a.real.T
    elif kind == "diag":
        h = np.diag(rng.normal(size=d)).astype(complex)
    elif kind == "degenerate":
        q, _ = np.linalg.qr(a)
        ev = rng.choice([-1.0, 0.0, 1.0], size=d)
        ev[0], ev[-1] = 1.0, -1.0
        h = (q * ev) @ q.conj().T
    elif kind == "banded":
        h = np.triu(np.tril(a + a.conj().T, 1), -1)
    elif kind == "shift":
        h = a + a.conj().T
        h = h + 2.0 * np.linalg.norm(h, 2) * np.eye(d)
    else:
        h = a + a.conj().T
    h = np.asarray(h, dtype=complex)
    h = 0.5 * (h + h.conj().T)
    n2 = float(np.linalg.norm(h, 2))
    if not n2 > 0:
        h = np.diag(np.arange(1, d + 1)).astype(complex)
        n2 = float(d)
    return h * (nrm / n2)


DENSE_LAYOUTS = ("C", "F", "H", "T", "strided", "rev")


def lay_out(x, layout):
    """The same matrix entries in another memory layout (the result may only depend on the entries)."""
    x = np.array(x, order="C")
    if layout == "C":
        y = x
    elif layout == "F":  # column major, owning
        y = np.asfortranarray(x)
    elif x.ndim == 1:
        if layout == "strided":
            big = np.zeros(2 * x.shape[0] + 1, dtype=x.dtype)
            big[1::2] = x
            y = big[1::2]
        elif layout == "rev":
            y = np.ascontiguousarray(x[::-1])[::-1]
        else:
            y = x
    elif layout == "H":  # what ``rho.H`` / ``qu.dag`` of a row major array hands back: conjugated copy, transposed view
        y = np.ascontiguousarray(x.conj().T).conj().T
    elif layout == "T":  # transposed view of a row major array
        y = np.ascontiguousarray(x.T).T
    elif layout == "strided":  # non contiguous view into a larger buffer
        big = np.zeros((2 * x.shape[0] + 1, 2 * x.shape[1] + 1), dtype=x.dtype)
        big[1::2, 1::2] = x
        y = big[1::2, 1::2]
    elif layout == "rev":  # negative strides
        y = np.ascontiguousarray(x[::-1, ::-1])[::-1, ::-1]
    else:
        raise AssertionError(layout)
    if y.shape != x.shape or not np.array_equal(y, x, equal_nan=True):
        raise HarnessError(f"layout {layout} changed the entries")
    return y


def as_container(v, container):
    import quimb as qu

    if container == "ndarray":
        return v
    if container == "list":  # array_like: Evolution converts p0 with qu()
        return v.tolist()
    q = v.view(qu.qarray) if v.ndim == 2 else v
    return q


def make_ham(Hd, rep, real_dtype=False, layout="C", container="qarray"):
    """The object handed to Evolution for a time independent Hamiltonian."""
    import quimb as qu
    import scipy.sparse.linalg as spla

    # Evolution estimates ||H|| of a LinearOperator with random probe vectors (norm_fro_approx) to choose its
    # first step: seed quimb's generator so that the case is a pure function of its description
    qu.seed_rand(0)
    kw = {}
    Hin = Hd
    if real_dtype and float(np.max(np.abs(Hd.imag))) == 0.0:
        kw["dtype"] = float
        Hin = Hd.real

    def dense(x=None):
        return as_container(lay_out(Hin if x is None else x, layout), container)

    if rep == "dense":
        return dense()
    if rep == "sparse":
        return qu.qu(Hin, sparse=True, **kw)
    if rep in ("csc", "coo", "bsr"):
        return qu.qu(Hin, sparse=True, stype=rep, **kw)
    if rep in ("tuple", "tuple_nd"):
        el, ev = np.linalg.eigh(Hd)
        return (el, as_container(lay_out(ev, layout), "qarray" if rep == "tuple" else "ndarray"))
    if rep == "linop":
        return spla.aslinearoperator(lay_out(Hin, layout))
    if rep == "linop_sparse":
        return spla.aslinearoperator(qu.qu(Hin, sparse=True, **kw))
    if rep == "callable":
        H = dense()
        return lambda t: H
    if rep == "callable_sparse":
        H = qu.qu(Hin, sparse=True, **kw)
        return lambda t: H
    raise AssertionError(rep)


def dense_state(desc, d):
    if desc["kind"] == "ket":
        return A.rand_state(desc["seed"], d).reshape(d, 1).astype(complex)
    return A.rand_rho(desc["seed"], d, rank=int(desc.get("rank") or d)).astype(complex)


def make_state(p0, form, layout="C", container="qarray", stype="csr"):
    import quimb as qu

    if form == "dense":
        return as_container(lay_out(p0, layout), container)
    if form == "sparse":
        return qu.qu(p0, sparse=True, stype=stype)
    if form == "1d":
        v = lay_out(np.array(p0).reshape(-1), layout)
        return v.tolist() if container == "list" else v
    raise AssertionError(form)


STRETCH = 0.4


def state_object(p0, sd, Hd=None, t0=0.0):
    """(object handed to Evolution, dense reference of its entries) for a state description.

    form 'stretch': the state is the ``pt`` handed back by an earlier Evolution of another method that ran from
    t0 - 0.4 to t0 (started from the exactly back-propagated p0); the reference is whatever entries that object
    holds, so the stretch's own (separately checked) error does not enter."""
    import quimb as qu

    form = sd["form"]
    if form != "stretch":
        obj = make_state(p0, form, sd.get("layout", "C"), sd.get("container", "qarray"), sd.get("stype", "csr"))
        return obj, p0
    start = propagate(Hd, p0, -STRETCH)
    first = qu.Evolution(qu.qu(start), qu.qu(Hd), t0=float(t0) - STRETCH, method=sd["stretch"])
    first.update_to(float(t0))
    obj = first.pt
    ref = to_dense(obj)
    e = rel_err(ref, p0, floor=float(np.linalg.norm(p0)))
    if not e <= 1e-5:
        raise Violation("state", err=e, tol=1e-5, where="first-stretch", method=sd["stretch"],
                        state="ket" if p0.shape[1] == 1 else "dop", sform="dense", hrep="dense", d=p0.shape[0])
    return obj, ref


def to_dense(x):
    if hasattr(x, "toarray"):
        x = x.toarray()
    return np.array(x, dtype=complex)


def propagate(Hd, p0, dt):
    U = sla.expm(-1j * Hd * float(dt))
    return U @ p0 if p0.shape[1] == 1 else U @ p0 @ U.conj().T


def apply_U(U, p0):
    return U @ p0 if p0.shape[1] == 1 else U @ p0 @ U.conj().T


class Ctx:
    """Everything the oracle needs about one evolution."""

    def __init__(self, Hd, p0, t0, method_eff, info, prop=None, hnorm=None, rate_extra=0.0):
        self.Hd = Hd
        self.p0 = p0
        self.t0 = float(t0)
        self.d = p0.shape[0]
        self.isdop = p0.shape[1] != 1
        self.meth = method_eff  # 'integrate' | 'solve' | 'expm'  (what actually runs)
        self.info = info  # small classification dict put into every Violation
        self.hnorm = float(np.linalg.norm(Hd, 2)) if hnorm is None else float(hnorm)
        self.n0 = float(np.linalg.norm(p0))
        self.rate_extra = float(rate_extra)  # rate of change of H(t) itself (time dependent case), same units as ||H||
        self.prop = prop  # optional t -> reference state (time dependent H)
        self.timeindep = prop is None
        self.worst = 0.0  # max err / tol
        self.npoints = 0
        if self.timeindep:
            self.c0 = self.conserved(p0)

    def nominal(self):
        return TOL_INT if self.meth == "integrate" else TOL_EXACT

    def tol(self, t):
        if self.meth == "integrate":
            # generator of the flow: -iH for kets, the commutator -i[H, .] (norm <= 2||H||) for density operators
            gen = self.hnorm * (2.0 if self.isdop else 1.0) + self.rate_extra
            return TOL_INT * max(1.0, STEPS_PER_UNIT * gen * abs(float(t) - self.t0))
        return TOL_EXACT

    def ref(self, t):
        if self.prop is not None:
            return self.prop(float(t))
        return propagate(self.Hd, self.p0, float(t) - self.t0)

    def conserved(self, g):
        if self.isdop:
            return {"trace": complex(np.trace(g)), "purity": complex(np.trace(g @ g)), "energy": complex(np.trace(self.Hd @ g))}
        v = g.reshape(-1)
        return {"norm": float(np.linalg.norm(v)), "energy": complex(np.vdot(v, self.Hd @ v))}

    def check(self, got, t, where):
        """got must be the state at time t; also norm/trace, purity, energy."""
        g = to_dense(got)
        want_shape = (self.d, self.d) if self.isdop else (self.d, 1)
        if g.shape != want_shape:
            raise Violation("shape", got=list(g.shape), want=list(want_shape), where=where, **self.info)
        ref = self.ref(t)
        tol = self.tol(t)
        e = rel_err(g, ref, floor=self.n0)
        self.npoints += 1
        self.worst = max(self.worst, e / tol)
        if not e <= tol:
            raise Violation("state", err=e, tol=tol, where=where, **self.info)
        # conservation laws (bounds implied by the state bound; separate clauses of the property)
        sd = float(np.sqrt(self.d))
        if self.isdop:
            tr = complex(np.trace(g))
            pur = complex(np.trace(g @ g))
            tr0 = self.c0["trace"] if self.timeindep else complex(np.trace(self.p0))
            pur0 = self.c0["purity"] if self.timeindep else complex(np.trace(self.p0 @ self.p0))
            if not abs(tr - tr0) <= 2 * tol * sd * self.n0:
                raise Violation("trace", got=tr, want=tr0, where=where, **self.info)
            if not abs(pur - pur0) <= 4 * tol * self.n0 ** 2:
                raise Violation("purity", got=pur, want=pur0, where=where, **self.info)
            if self.timeindep:
                en = complex(np.trace(self.Hd @ g))
                if not abs(en - self.c0["energy"]) <= 4 * tol * sd * self.hnorm * self.n0:
                    raise Violation("energy", got=en, want=self.c0["energy"], where=where, **self.info)
        else:
            nr = float(np.linalg.norm(g))
            if not abs(nr - self.n0) <= 2 * tol * self.n0:
                raise Violation("norm", got=nr, want=self.n0, where=where, **self.info)
            if self.timeindep:
                v = g.reshape(-1)
                en = complex(np.vdot(v, self.Hd @ v))
                if not abs(en - self.c0["energy"]) <= 4 * tol * self.hnorm * self.n0 ** 2:
                    raise Violation("energy", got=en, want=self.c0["energy"], where=where, **self.info)
        return e

    def check_time(self, got_t, want_t, repeated=False):
        if not abs(float(got_t) - float(want_t)) <= T_TOL * max(1.0, abs(float(want_t))):
            raise Violation("time-not-reached", got=float(got_t), want=float(want_t), repeated=bool(repeated), **self.info)

    def err(self):
        return self.worst * self.nominal()


# -- compute callbacks --------------------------------------------------------

class Held:
    """References to state objects quimb handed out (evo.pt, yielded states, callback arguments) with a copy of
    their entries at that moment: a reported state must not silently turn into a later one."""

    def __init__(self, cap=40):
        self.items = []
        self.cap = cap

    def add(self, obj, where):
        self.items.append((obj, to_dense(obj), where))
        if len(self.items) > self.cap:
            del self.items[1:len(self.items) - self.cap + 1]  # keep the very first (initial) one

    def check(self, info):
        for k, (obj, copy, where) in enumerate(self.items):
            now = to_dense(obj)
            if now.shape != copy.shape or not np.array_equal(now, copy):
                raise Violation("reported-state-changed", where=where, age=len(self.items) - k, **info)


class Recorder:
    """compute= callbacks that record what they are shown."""

    def __init__(self, mode):
        self.mode = mode
        self.ham_seen = []
        self.held = Held()

    def rec2(self, t, p):
        self.held.add(p, "callback")
        return ("r2", float(t), to_dense(p))

    def rec3(self, t, p, H):
        self.held.add(p, "callback")
        return ("r3", float(t), to_dense(p), self._ham_info(t, H))

    def tonly(self, t, p):
        return float(t)

    def _ham_info(self, t, H):
        from scipy.sparse.linalg import LinearOperator

        if callable(H) and not isinstance(H, LinearOperator):
            return ("callable", to_dense(H(t)))
        return ("object", H)

    def compute(self):
        if self.mode == "none":
            return None
        if self.mode == "single2":
            return self.rec2
        if self.mode == "single3":
            return self.rec3
        if self.mode == "dict":
            return {"a": self.rec2, "b": self.rec3, "t": self.tonly}
        if self.mode == "dict1":
            return {"only": self.rec3}
        raise AssertionError(self.mode)

    def entries(self, results):
        """results -> list of tuples of per-key entries (one tuple per callback event)."""
        if self.mode in ("single2", "single3"):
            if not isinstance(results, list):
                raise Violation("results-structure", got=type(results).__name__, mode=self.mode)
            return [(r,) for r in results]
        keys = {"dict": ["a", "b", "t"], "dict1": ["only"]}[self.mode]
        if not isinstance(results, dict) or sorted(results) != sorted(keys):
            raise Violation("results-structure", got=repr(type(results)), mode=self.mode)
        ls = [results[k] for k in keys]
        if len({len(l) for l in ls}) != 1:
            raise Violation("results-structure", lens=[len(l) for l in ls], mode=self.mode)
        return list(zip(*ls))


def check_ham_arg(ctx, hinfo, t, ham_obj, hfun=None):
    """The Hamiltonian handed to a 3-argument callback (documented: exactly as given; the solved
    system (evals, evecs) for 'solve'; for a callable the cached callable)."""
    kind, H = hinfo
    Ht = ctx.Hd if hfun is None else hfun(t)
    hn = max(ctx.hnorm, 1e-300)
    if kind == "callable":
        e = rel_err(H, Ht, floor=hn)
        if not e <= 1e-12:
            raise Violation("ham-arg", what="callable value", err=e, **ctx.info)
        return
    if ctx.meth == "solve":
        if not (isinstance(H, (tuple, list)) and len(H) == 2):
            raise Violation("ham-arg", what="solve expects (evals, evecs)", got=type(H).__name__, **ctx.info)
        el, ev = np.asarray(H[0]), to_dense(H[1])
        e = rel_err((ev * el) @ ev.conj().T, Ht, floor=hn)
        if not e <= 1e-10:
            raise Violation("ham-arg", what="solved system", err=e, **ctx.info)
        return
    if H is not ham_obj:
        raise Violation("ham-arg", what="not the object given", got=type(H).__name__, **ctx.info)


def check_entries(ctx, rec, entries, lo, hi, ham_obj, exact_times=None, hfun=None):
    """Every callback event in `entries` shows the oracle state of its own time.

    lo, hi: the events must lie in [lo, hi] in order (integrate);
    exact_times: the events must be exactly these times (solve / expm)."""
    if exact_times is not None and len(entries) != len(exact_times):
        raise Violation("results-count", got=len(entries), want=len(exact_times), **ctx.info)
    last = None
    for k, ev in enumerate(entries):
        times = []
        for r in ev:
            if isinstance(r, float):
                times.append(r)
                continue
            times.append(r[1])
            ctx.check(r[2], r[1], "results")
            if r[0] == "r3":
                check_ham_arg(ctx, r[3], r[1], ham_obj, hfun)
        if len(set(times)) != 1:
            raise Violation("results-times-differ", got=times, **ctx.info)
        t = times[0]
        if exact_times is not None:
            if t != float(exact_times[k]):
                raise Violation("results-time", got=t, want=float(exact_times[k]), **ctx.info)
        else:
            slack = T_TOL * max(1.0, abs(hi), abs(lo))
            if not (lo - slack <= t <= hi + slack) or (last is not None and t < last - slack):
                raise Violation("results-time", got=t, lo=lo, hi=hi, **ctx.info)
        last = t
    return last


# ---------------------------------------------------------------------------
# 1. exhaustive grid: method x state kind x Hamiltonian representation x t0
# ---------------------------------------------------------------------------

G_METHODS = [("integrate", False), ("integrate", True), ("solve", None), ("expm", None)]
G_STATES = ["ket", "ket1d", "ket_sp", "dop", "dop_sp"]
G_HREPS = ["dense", "sparse", "csc", "tuple", "linop", "linop_sparse", "callable", "callable_sparse"]
G_T0 = [0.0, 0.7, -0.7, 2000.0]
# instance axis: (dimension, sequence id)
G_INST = [(4, 0), (3, 1), (6, 2), (2, 0)]


def supported(method, state, hrep):
    """True: documented as supported (must be accepted and right); None: may reject or must be right."""
    if state in ("ket_sp", "dop_sp"):
        return None
    if hrep.startswith("tuple"):
        return True
    if method == "integrate":
        return True
    if hrep.startswith(("linop", "callable")):
        return None  # documented TypeError
    if method == "solve":
        return True
    return True if state.startswith("ket") else None  # expm: "only for pure states"


def enum_grid(tier):
    reps = 1 if tier == "quick" else 8
    for (m, small), s, h, t0, (d, q), r in itertools.product(G_METHODS, G_STATES, G_HREPS, G_T0, G_INST, range(reps)):
        key = f"{m}:{small}:{s}:{h}:{t0}:{d}:{q}:{r}"
        seed = zlib.crc32(key.encode())
        dd = d if r == 0 else [2, 3, 5, 7, 8, 11, 16, 4][(seed >> 3) % 8]
        yield {"method": m, "small": small, "state": s, "hrep": h, "t0": t0, "d": dd, "seq": q, "seed": seed,
               "hkind": HKINDS[seed % len(HKINDS)], "norm": HNORMS[(seed >> 5) % 3]}


def grid_times(q, solve):
    """(mode, offsets from t0)"""
    if q == 0:
        return "update", [0.3, 0.3, 1.1]
    if q == 1:
        return "update", ([0.0, 0.004, 0.5, -0.8, 2.0] if solve else [0.0, 0.004, 0.013, 0.5, 2.0])
    return "at_times", ([0.25, 0.5, 0.5, 1.75, 0.4, -0.6] if solve else [0.25, 0.5, 0.5, 1.75])


def run_grid(case):
    import quimb as qu

    m, s, h = case["method"], case["state"], case["hrep"]
    d, t0 = int(case["d"]), float(case["t0"])
    Hd = dense_ham({"d": d, "kind": case["hkind"], "seed": case["seed"], "norm": case["norm"]})
    sdesc = {"kind": "ket" if s.startswith("ket") else "dop", "seed": case["seed"] // 7, "rank": 1 + (case["seed"] >> 9) % d}
    p0 = dense_state(sdesc, d)
    form = {"ket": "dense", "ket1d": "1d", "ket_sp": "sparse", "dop": "dense", "dop_sp": "sparse"}[s]
    meth_eff = "solve" if h.startswith("tuple") else m
    info = dict(method=m, state=sdesc["kind"], sform=form, hrep=h, d=d)
    if m == "integrate":
        info["stepper"] = "dopri5" if case["small"] else "dop853"
    ctx = Ctx(Hd, p0, t0, meth_eff, info)
    pin = supported(m, s, h)
    mode, offs = grid_times(case["seq"], meth_eff == "solve")
    times = [t0 + x for x in offs]
    cls = [f"m={m}" + ("/dopri5" if case["small"] else ""), f"s={s}", f"h={h}", f"t0={t0}"]
    ham = make_ham(Hd, h)
    kw = {"int_small_step": True} if case["small"] else {}
    rej = _reject_types()
    first = True  # nothing but the initial state has been reported yet
    try:
        held = Held()
        evo = qu.Evolution(make_state(p0, form), ham, t0=t0, method=m, **kw)
        ctx.check_time(evo.t, t0)
        ctx.check(evo.pt, t0, "initial")
        held.add(evo.pt, "initial")
        if mode == "update":
            prev = None
            for t in times:
                evo.update_to(t)
                first = False
                ctx.check_time(evo.t, t, repeated=(prev == t))
                pt = evo.pt
                ctx.check(pt, t, "pt")
                held.add(pt, "pt")
                prev = t
        else:
            it = evo.at_times(times)
            prev = None
            for t in times:
                pt = next(it)
                first = False
                ctx.check_time(evo.t, t, repeated=(prev == t))
                ctx.check(pt, t, "yield")
                ctx.check(evo.pt, t, "pt")
                held.add(pt, "yield")
                prev = t
        held.check(info)
    except rej as e:
        # a refusal (at construction or at any request, everything reported before having been right) is how an
        # unsupported combination must end; a documented-supported cell must be served
        if pin:
            raise Violation("supported-rejected", exc=type(e).__name__, msg=str(e)[:80].replace("\n", " "),
                            presolved=h.startswith("tuple"), **info) from e
        return {"nt": False, "cls": cls + ["cell=rejected" if first else "cell=rejected-late", "rej=" + type(e).__name__], "err": ctx.err()}
    return {"nt": True, "cls": cls + ["cell=ok"] + (["pinned"] if pin else ["unpinned-accepted"]), "err": ctx.err()}


# ---------------------------------------------------------------------------
# 1b. exhaustive grid of memory layouts / containers: the result depends on the matrix entries only
# ---------------------------------------------------------------------------

L_STATES = ([{"form": "dense", "layout": l, "container": "qarray"} for l in DENSE_LAYOUTS]
            + [{"form": "dense", "layout": l, "container": "ndarray"} for l in ("C", "F", "strided")]
            + [{"form": "sparse", "stype": t} for t in ("csr", "csc", "coo", "bsr")]
            + [{"form": "stretch", "stretch": m} for m in ("solve", "expm", "integrate")]
            + [{"form": "1d", "layout": l} for l in ("C", "strided", "rev")]
            + [{"form": "dense", "layout": "C", "container": "list"}, {"form": "1d", "layout": "C", "container": "list"}])
L_HAMS = ([("dense", l, "qarray") for l in DENSE_LAYOUTS] + [("dense", "F", "ndarray"), ("dense", "strided", "ndarray")]
          + [(r, "C", "qarray") for r in ("sparse", "csc", "coo", "bsr")]
          + [("tuple", "F", "qarray"), ("tuple", "strided", "qarray"), ("tuple_nd", "F", "qarray"), ("linop", "F", "qarray"),
             ("linop", "strided", "qarray"), ("callable", "F", "qarray"), ("callable", "H", "qarray")])


def enum_layouts(tier):
    reps = 1 if tier == "quick" else 5
    for (m, small), kind, si, hi, t0, r in itertools.product(G_METHODS, ("ket", "dop"), range(len(L_STATES)), range(len(L_HAMS)),
                                                             (0.0, 0.7), range(reps)):
        sd = dict(L_STATES[si])
        hrep, hlay, hcont = L_HAMS[hi]
        if sd["form"] == "1d" and kind == "dop":
            continue
        if m == "solve" and hcont == "ndarray" and hrep == "dense":
            continue  # plain ndarray Hamiltonian + 'solve': outside the documented type (see ham_kwargs)
        seed = zlib.crc32(f"L:{m}:{small}:{kind}:{si}:{hi}:{t0}:{r}".encode())
        d = 4 if r == 0 else [2, 3, 5, 6, 8][(seed >> 3) % 5]
        sd.update(kind=kind, seed=seed // 7, rank=1 + (seed >> 9) % d)
        yield {"method": m, "small": small, "state": sd, "hrep": hrep, "t0": t0,
               "ham": {"d": d, "kind": "cplx" if r == 0 else HKINDS[seed % len(HKINDS)], "seed": seed, "norm": HNORMS[(seed >> 5) % 3],
                       "real_dtype": False, "layout": hlay, "container": hcont}}


def run_layouts(case):
    import quimb as qu

    m, hrep, sd, hd = case["method"], case["hrep"], case["state"], case["ham"]
    d, t0 = int(hd["d"]), float(case["t0"])
    Hd = dense_ham(hd)
    p0 = dense_state(sd, d)
    meth_eff = "solve" if hrep.startswith("tuple") else m
    sl, hl = layout_labels(sd, hd, hrep)
    info = dict(method=m, state=sd["kind"], sform=sd["form"], hrep=hrep, d=d, slayout=sl, hlayout=hl)
    if m == "integrate":
        info["stepper"] = "dopri5" if case["small"] else "dop853"
    sobj, p0 = state_object(p0, sd, Hd, t0)
    ctx = Ctx(Hd, p0, t0, meth_eff, info)
    gstate = {"dense": sd["kind"], "stretch": sd["kind"], "1d": "ket1d", "sparse": sd["kind"] + "_sp"}[sd["form"]]
    pin = supported(m, gstate, hrep) and ham_pinned(hd, m, hrep)
    ham = make_ham(Hd, hrep, **ham_kwargs(hd, m, hrep))
    kw = {"int_small_step": True} if case["small"] else {}
    cls = [f"m={m}" + ("/dopri5" if case["small"] else ""), f"s={sd['kind']}", f"sl={sl}", f"hl={hl}"]
    first = True
    try:
        held = Held()
        evo = qu.Evolution(sobj, ham, t0=t0, method=m, **kw)
        ctx.check_time(evo.t, t0)
        ctx.check(evo.pt, t0, "initial")
        held.add(evo.pt, "initial")
        prev = None
        for t in (t0 + 0.3, t0 + 0.3, t0 + 1.1):
            evo.update_to(t)
            first = False
            ctx.check_time(evo.t, t, repeated=(prev == t))
            pt = evo.pt
            ctx.check(pt, t, "pt")
            held.add(pt, "pt")
            prev = t
        ys = list(evo.at_times([t0 + 1.5, t0 + 1.9]))
        for pt, t in zip(ys, (t0 + 1.5, t0 + 1.9)):
            ctx.check(pt, t, "yield")
        held.check(info)
    except _reject_types() as e:
        if pin:
            raise Violation("supported-rejected", exc=type(e).__name__, msg=str(e)[:80].replace("\n", " "),
                            presolved=hrep.startswith("tuple"), **info) from e
        return {"nt": False, "cls": cls + ["cell=rejected" if first else "cell=rejected-late", "rej=" + type(e).__name__], "err": ctx.err()}
    nonreal = float(np.max(np.abs(p0.imag))) > 0 or float(np.max(np.abs(Hd.imag))) > 0
    return {"nt": nonreal, "cls": cls + ["cell=ok"] + (["pinned"] if pin else ["unpinned-accepted"]), "err": ctx.err()}


# ---------------------------------------------------------------------------
# 2-4. histories of requested times: one machine per method
# ---------------------------------------------------------------------------

S_DT = st.one_of(st.sampled_from([0.0, 0.0, 1e-6, 1e-3, 0.004, 0.05, 0.3, 1.0]), st.floats(0.0, 1.5, allow_nan=False))
S_X = st.one_of(st.sampled_from([0.0, 0.5, -0.5, 3.0]), st.floats(-4.0, 4.0, allow_nan=False))
# large absolute times with fine grids: a request must be honoured however small it is relative to |t|
S_T0 = st.one_of(st.sampled_from([0.0, 0.7, -0.7, 2000.0, -1.0e4]), st.floats(-2.0, 2.0, allow_nan=False))
BUDGET = 8.0  # bound on ||H|| * (t - t0) for the stepping methods


S_LAYOUT = st.sampled_from(["C", "C", "F", "H", "T", "strided", "rev"])
S_CONTAINER = st.sampled_from(["qarray", "qarray", "ndarray"])


@st.composite
def s_ham(draw, dmin=2, dmax=16):
    return {"d": draw(st.integers(dmin, dmax)), "kind": draw(st.sampled_from(HKINDS)), "seed": draw(A.seeds),
            "norm": draw(st.sampled_from(HNORMS)), "real_dtype": draw(st.booleans()),
            "layout": draw(S_LAYOUT), "container": draw(S_CONTAINER)}


def ham_kwargs(hd, method, hrep):
    """layout / container of the dense parts of a Hamiltonian description (old cases: row major qarray).
    A plain ndarray is not given to 'solve' (documented type is a quimb operator; .toarray() is called on it)."""
    cont = hd.get("container", "qarray")
    if method == "solve" and not hrep.startswith("tuple"):
        cont = "qarray"
    return {"real_dtype": bool(hd.get("real_dtype")), "layout": hd.get("layout", "C"), "container": cont}


def ham_pinned(hd, method, hrep):
    return hrep not in ("coo", "bsr") and ham_kwargs(hd, method, hrep)["container"] == "qarray"


def layout_labels(sd, hd, hrep):
    f = sd["form"]
    sl = {"dense": f"{sd.get('layout', 'C')}/{sd.get('container', 'qarray')}",
          "1d": "1d-" + sd.get("layout", "C") + ("/list" if sd.get("container") == "list" else ""),
          "sparse": sd.get("stype", "csr"), "stretch": "after-" + str(sd.get("stretch"))}[f]
    hl = f"{hd.get('layout', 'C')}/{hd.get('container', 'qarray')}" if hrep in ("dense", "tuple", "tuple_nd", "linop", "callable") else hrep
    return sl, hl


@st.composite
def s_state(draw, d, allow_sparse=True, kinds=("ket", "dop", "dop"), allow_stretch=True):
    kind = draw(st.sampled_from(kinds))
    forms = ["dense", "dense", "dense", "1d"] if kind == "ket" else ["dense", "dense", "dense"]
    if allow_sparse:
        forms.append("sparse")
    if allow_stretch:
        forms.append("stretch")
    rank = draw(st.sampled_from([1, 1, 2, d, max(1, d // 2)])) if kind == "dop" else 1
    form = draw(st.sampled_from(forms))
    sd = {"kind": kind, "seed": draw(A.seeds), "rank": min(rank, d), "form": form}
    if form == "dense":
        sd["layout"], sd["container"] = draw(S_LAYOUT), draw(S_CONTAINER)
    elif form == "1d":
        sd["layout"] = draw(st.sampled_from(["C", "strided", "rev"]))
    elif form == "sparse":
        sd["stype"] = draw(st.sampled_from(["csr", "csc", "coo", "bsr"]))
    else:
        sd["stretch"] = draw(st.sampled_from(["solve", "expm", "integrate"]))
    return sd


def s_init(method):
    @st.composite
    def s(draw):
        ham = draw(s_ham())
        if method == "integrate":
            hrep = draw(st.sampled_from(["dense", "dense", "sparse", "csc", "coo", "bsr", "linop", "linop_sparse", "callable", "callable_sparse"]))
        elif method == "solve":
            hrep = draw(st.sampled_from(["dense", "dense", "sparse", "csc", "coo", "bsr", "tuple", "tuple_nd"]))
        else:
            hrep = draw(st.sampled_from(["dense", "dense", "sparse", "csc", "coo", "bsr"]))
        # scipy's expm_multiply refuses a sparse state with a dense operator: pair by construction
        allow_sparse = method != "expm" or hrep in ("sparse", "csc", "coo", "bsr")
        init = {"ham": ham, "hrep": hrep, "state": draw(s_state(ham["d"], allow_sparse, ("ket", "ket", "dop") if method == "expm" else ("ket", "dop", "dop"))),
                "t0": draw(S_T0),
                "compute": draw(st.sampled_from(["none", "none", "single2", "single3", "dict"])), "method": method}
        if method == "integrate":
            init["small"] = draw(st.booleans())
        init["progbar"] = draw(st.sampled_from([False] * 7 + [True]))
        if hrep.startswith("tuple"):
            init["method"] = draw(st.sampled_from(["solve", "integrate", "expm"]))
        return init

    return s()


class Hist:
    def __init__(self, init):
        import quimb as qu

        self.init = init
        self.pending = None
        self.dead = False
        try:
            self._build(init)
        except Violation as v:
            self.pending = v

    def _build(self, init):
        import quimb as qu

        m = init["method"]
        hd, sd = init["ham"], init["state"]
        d = int(hd["d"])
        self.Hd = dense_ham(hd)
        self.p0 = dense_state(sd, d)
        self.t0 = float(init["t0"])
        hrep = init["hrep"]
        self.meth = "solve" if hrep.startswith("tuple") else m
        sl, hl = layout_labels(sd, hd, hrep)
        info = dict(method=m, state=sd["kind"], sform=sd["form"], hrep=hrep, d=d, slayout=sl, hlayout=hl)
        if m == "integrate":
            info["stepper"] = "dopri5" if init.get("small") else "dop853"
        self.info = info
        self.sobj, self.p0 = state_object(self.p0, sd, self.Hd, self.t0)
        self.ctx = Ctx(self.Hd, self.p0, self.t0, self.meth, info)
        self.pinned = sd["form"] != "sparse" and ham_pinned(hd, m, hrep)
        self.rec = Recorder(init["compute"])
        self.ham = make_ham(self.Hd, hrep, **ham_kwargs(hd, m, hrep))
        kw = {}
        if m == "integrate" and init.get("small"):
            kw["int_small_step"] = True
        comp = self.rec.compute()
        if comp is not None:
            kw["compute"] = comp
        if init.get("progbar"):
            kw["progbar"] = True  # update_to re-installs the step callback around a progress bar; at_times wraps ts
        self.dead = False
        self.first = True
        self.t = self.t0
        self.prev = None
        self.nreq = 0
        self.nrepeat = 0
        self.nback = 0
        self.nres = 0
        self.span = 0.0
        self.tmax = self.t0 + BUDGET / max(self.ctx.hnorm, 1e-9)
        self.held = Held()
        self.evo = self.guard(lambda: qu.Evolution(self.sobj, self.ham, t0=self.t0, method=m, **kw))
        if not self.dead:
            self.ctx.check_time(self.evo.t, self.t0)
            pt = self.evo.pt
            self.ctx.check(pt, self.t0, "initial")
            self.held.add(pt, "initial")

    def guard(self, fn):
        """An unpinned cell may refuse (ends the history); a pinned one must be served."""
        try:
            return fn()
        except _reject_types() as e:
            if self.pinned:
                raise Violation("supported-rejected", exc=type(e).__name__, msg=str(e)[:80].replace("\n", " "),
                                presolved=self.init["hrep"].startswith("tuple"), **self.info) from e
            self.dead = True
            return None

    # one requested time ------------------------------------------------------
    def target(self, a):
        if a.get("again"):
            return self.t
        if self.meth == "solve":
            if a.get("rep") and self.prev is not None:
                return self.prev
            return self.t0 + float(a["x"])
        return min(self.t + float(a["dt"]), max(self.tmax, self.t))

    def after(self, t, reported, where):
        rep = self.prev is not None and t == self.prev
        self.ctx.check_time(self.evo.t, t, repeated=rep)
        self.ctx.check(reported, t, where)
        self.held.add(reported, where)
        lo = self.t
        if rep:
            self.nrepeat += 1
        if t < self.t:
            self.nback += 1
        self.nreq += 1
        self.span = max(self.span, self.ctx.hnorm * abs(t - self.t0))
        self.prev = t
        self.t = t
        self.first = False
        self.check_results(lo, t)

    def check_results(self, lo, t):
        if self.rec.mode == "none":
            return
        ents = self.rec.entries(self.evo.results)
        new = ents[self.nres:]
        self.nres = len(ents)
        if self.meth == "integrate":
            last = check_entries(self.ctx, self.rec, new, lo, t, self.ham)
            if t > lo and (last is None or abs(last - t) > T_TOL * max(1.0, abs(t))):
                raise Violation("results-miss-requested-time", got=last, want=t, **self.info)
        else:
            check_entries(self.ctx, self.rec, new, lo, t, self.ham, exact_times=[t])


def op_update(h, a):
    if h.dead or h.pending:
        return
    t = h.target(a)
    h.guard(lambda: h.evo.update_to(t))
    if h.dead:
        return
    h.after(t, h.evo.pt, "pt")


def op_at_times(h, a):
    if h.dead or h.pending:
        return
    ts = []
    cur = h.t
    for x in a["xs"]:
        if h.meth == "solve":
            t = h.t0 + float(x)
        else:
            t = min(cur + abs(float(x)), max(h.tmax, cur))
        ts.append(t)
        cur = t
    take = max(1, min(int(a["take"]), len(ts)))
    it = h.evo.at_times(ts)
    for k in range(take):
        pt = h.guard(lambda: next(it))
        if h.dead:
            return
        h.after(ts[k], pt, "yield")
        h.ctx.check(h.evo.pt, ts[k], "pt")
    it.close()


def inv_hist(h):
    if h is None:
        return
    if h.pending is not None:
        raise h.pending
    if h.dead:
        return
    # the reported pair (t, pt) stays what the last request produced
    h.ctx.check_time(h.evo.t, h.t)
    # and everything handed out earlier still holds the entries it was handed out with
    h.held.check(h.info)
    h.rec.held.check(h.info)


def fin_hist(h):
    sd = h.init["state"]
    skind = "ket" if sd["kind"] == "ket" else ("dop-pure" if sd["rank"] == 1 else "dop-mixed")
    sl, hl = layout_labels(sd, h.init["ham"], h.init["hrep"])
    cls = [f"s={skind}", f"form={sd['form']}", f"sl={sl}", f"hl={hl}", f"h={h.init['hrep']}", f"hk={h.init['ham']['kind']}", f"cb={h.init['compute']}",
           "t0=0" if h.t0 == 0 else ("t0=large" if abs(h.t0) > 100 else "t0!=0"), f"m={h.init['method']}"] + (["progbar"] if h.init.get("progbar") else [])
    if h.init.get("small"):
        cls.append("dopri5")
    if h.dead:
        return {"nt": False, "cls": cls + ["unpinned-rejected"], "err": 0.0}
    if h.nrepeat:
        cls.append("has-repeat")
    if h.nback:
        cls.append("non-monotonic")
    cls.append("req>=3" if h.nreq >= 3 else "req<3")
    cls.append("span>=1" if h.span >= 1 else ("span>=0.05" if h.span >= 0.05 else "span~0"))
    nt = h.span >= 0.05 and (sd["kind"] == "dop" or h.t0 != 0 or h.nreq >= 3)
    return {"nt": nt, "cls": cls, "err": h.ctx.err()}


def machine(method):
    if method == "solve":
        upd = st.fixed_dictionaries({"x": S_X, "rep": st.sampled_from([False, False, False, True])})
        att = st.fixed_dictionaries({"xs": st.lists(S_X, min_size=1, max_size=4), "take": st.integers(1, 4)})
    else:
        upd = st.fixed_dictionaries({"dt": S_DT})
        att = st.fixed_dictionaries({"xs": st.lists(S_DT, min_size=1, max_size=4), "take": st.integers(1, 4)})
    again = st.just({"again": True})  # request exactly the current time once more
    return MachineSpec(init=s_init(method), start=Hist,
                       ops={"update_to": (upd, op_update), "at_times": (att, op_at_times), "repeat": (again, op_update)},
                       invariant=inv_hist, finish=fin_hist, max_steps=(12, 30))


# ---------------------------------------------------------------------------
# 5. time dependent Hamiltonian H(t) = H0 + f(t) H1 (method 'integrate')
# ---------------------------------------------------------------------------

S3 = float(np.sqrt(3.0))


def f_pair(fd):
    a, w, name = float(fd["a"]), float(fd["w"]), fd["name"]
    if name == "cos":
        return (lambda t: a * np.cos(w * t)), (lambda t: a * np.sin(w * t) / w)
    if name == "lin":
        return (lambda t: a * t), (lambda t: 0.5 * a * t * t)
    if name == "quad":
        return (lambda t: a * t * t), (lambda t: a * t ** 3 / 3.0)
    if name == "const":
        return (lambda t: a + 0.0 * t), (lambda t: a * t)
    if name == "inv":  # undefined at t=0 (python float division raises there): only legal for t0 > 0
        return (lambda t: a / float(t) if np.ndim(t) == 0 else a / np.asarray(t, dtype=float)), (lambda t: a * np.log(np.abs(t)))
    if name == "inv_nan":  # singular at t=0 (inf/nan like ``Hd / t``). Not drawn at random: on a tree that evaluates H(0)
        # the stepper burns its 100000 step limit (10-130 s per request) before giving up; regression file only
        return (lambda t: a / np.float64(t) if np.ndim(t) == 0 else a / np.asarray(t, dtype=float)), (lambda t: a * np.log(np.abs(t)))
    raise AssertionError(name)


def _exp_antiherm(Om):
    w, v = np.linalg.eigh(1j * Om)
    return (v * np.exp(-1j * w)) @ v.conj().T


def magnus_steps(Hfun, ta, tb, h, U):
    """Ordered product of 4th order Magnus steps from ta to tb (tb >= ta) applied to U."""
    n = max(1, int(np.ceil((tb - ta) / h)))
    dt = (tb - ta) / n
    t = ta
    for _ in range(n):
        A1 = -1j * Hfun(t + (0.5 - S3 / 6) * dt)
        A2 = -1j * Hfun(t + (0.5 + S3 / 6) * dt)
        Om = 0.5 * dt * (A1 + A2) - (S3 * dt * dt / 12.0) * (A1 @ A2 - A2 @ A1)
        U = _exp_antiherm(Om) @ U
        t += dt
    return U


class TimeDepOracle:
    """U(t, t0) on a growing grid of times, two resolutions that must agree."""

    def __init__(self, H0, H1, fd, t0, commuting):
        self.H0, self.H1, self.t0, self.commuting = H0, H1, float(t0), commuting
        self.f, self.F = f_pair(fd)
        self.d = H0.shape[0]
        self.tc = self.t0
        self.Uc = np.eye(self.d, dtype=complex)
        self.Uf = np.eye(self.d, dtype=complex)
        self.cache = {}

    def H(self, t):
        return self.H0 + self.f(t) * self.H1

    def _magnus(self, t):
        """propagate the two running products to t (t >= every earlier request) or restart"""
        if t < self.tc:
            Uc = magnus_steps(self.H, self.t0, t, 0.01, np.eye(self.d, dtype=complex))
            Uf = magnus_steps(self.H, self.t0, t, 0.005, np.eye(self.d, dtype=complex))
        else:
            Uc = self.Uc = magnus_steps(self.H, self.tc, t, 0.01, self.Uc) if t > self.tc else self.Uc
            Uf = self.Uf = magnus_steps(self.H, self.tc, t, 0.005, self.Uf) if t > self.tc else self.Uf
            self.tc = t
        if not np.linalg.norm(Uc - Uf, 2) <= 1e-9:
            raise Reject("oracle-unconverged")
        return Uf

    def U(self, t):
        t = float(t)
        if t in self.cache:
            return self.cache[t]
        Um = self._magnus(t)
        if self.commuting:
            Ucf = sla.expm(-1j * (self.H0 * (t - self.t0) + (self.F(t) - self.F(self.t0)) * self.H1))
            if not np.linalg.norm(Ucf - Um, 2) <= 1e-8:
                raise HarnessError(f"time dependent oracles disagree: {np.linalg.norm(Ucf - Um, 2):.2e}")
            Um = Ucf
        self.cache[t] = Um
        return Um


@st.composite
def s_timedep(draw, tier):
    ham = draw(s_ham(2, 12 if tier == "quick" else 16))
    ham["norm"] = draw(st.sampled_from([0.3, 1.0, 2.0]))
    d = ham["d"]
    return {"ham0": ham, "h1": {"mode": draw(st.sampled_from(["generic", "generic", "commuting"])), "seed": draw(A.seeds),
                                "norm": draw(st.sampled_from([0.3, 1.0])), "kind": draw(st.sampled_from(HKINDS))},
            "f": {"name": draw(st.sampled_from(["cos", "cos", "lin", "quad", "const", "inv"])), "a": draw(st.sampled_from([1.0, 0.5, -0.7])),
                  "w": draw(st.sampled_from([0.5, 1.3, 3.0]))},
            "state": draw(s_state(d, allow_sparse=True, allow_stretch=False)), "t0": draw(st.sampled_from([0.0, 0.7, -0.7])),
            "dts": draw(st.lists(st.sampled_from([0.0, 1e-3, 0.01, 0.2, 0.5, 1.0]), min_size=1, max_size=4)),
            "small": draw(st.booleans()), "ret": draw(st.sampled_from(["dense", "sparse"])),
            "stype": draw(st.sampled_from(["csr", "csc", "coo", "bsr"])),
            "compute": draw(st.sampled_from(["none", "single2", "single3", "dict"])), "use_at_times": draw(st.booleans())}


def run_timedep(case):
    import quimb as qu

    hd = case["ham0"]
    d = int(hd["d"])
    H0 = dense_ham(hd)
    h1 = case["h1"]
    commuting = h1["mode"] == "commuting"
    if commuting:
        _, V = np.linalg.eigh(H0)
        e1 = np.random.default_rng(int(h1["seed"])).normal(size=d)
        e1 = e1 * (float(h1["norm"]) / max(np.max(np.abs(e1)), 1e-300))
        H1 = (V * e1) @ V.conj().T
        H1 = 0.5 * (H1 + H1.conj().T)
    else:
        H1 = dense_ham({"d": d, "kind": h1["kind"], "seed": h1["seed"], "norm": h1["norm"]})
    t0 = float(case["t0"])
    if case["f"]["name"] in ("inv", "inv_nan"):
        t0 = abs(t0) if t0 != 0 else 0.7  # H(t) = H0 + (a/t) H1 is undefined at t=0: start (and stay) on the positive side
    orc = TimeDepOracle(H0, H1, case["f"], t0, commuting)
    p0 = dense_state(case["state"], d)
    times, t = [], t0
    for dt in case["dts"]:
        t = t + float(dt)
        times.append(t)
    tgrid = np.linspace(t0, max(times[-1], t0 + 1e-9), 64)
    fvals = np.asarray(orc.f(tgrid), dtype=float)
    fmax = float(np.max(np.abs(fvals)))
    hbound = float(np.linalg.norm(H0, 2) + fmax * np.linalg.norm(H1, 2))
    # the steppers also have to resolve the time dependence itself: add its frequency max|f'|/max|f| to the rate
    wf = float(np.max(np.abs(np.gradient(fvals, tgrid)))) / fmax if fmax > 0 else 0.0
    sd = case["state"]
    sl, hl = layout_labels(sd, hd, "dense" if case["ret"] == "dense" else case.get("stype", "csr"))
    info = dict(method="integrate", state=sd["kind"], sform=sd["form"], hrep="timedep-" + case["ret"], d=d,
                stepper="dopri5" if case["small"] else "dop853", slayout=sl, hlayout=hl, f=case["f"]["name"])
    ctx = Ctx(H0, p0, t0, "integrate", info, prop=lambda tt: apply_U(orc.U(tt), p0), hnorm=hbound, rate_extra=wf)
    sparse = case["ret"] == "sparse"

    hlay, hcont = hd.get("layout", "C"), hd.get("container", "qarray")

    def ham(tt):
        if sparse:
            return qu.qu(orc.H(tt), sparse=True, stype=case.get("stype", "csr"))
        return as_container(lay_out(orc.H(tt), hlay), hcont)

    rec = Recorder(case["compute"])
    kw = {}
    if rec.compute() is not None:
        kw["compute"] = rec.compute()
    evo = qu.Evolution(state_object(p0, sd)[0], ham, t0=t0, method="integrate", int_small_step=bool(case["small"]), **kw)
    ctx.check_time(evo.t, t0)
    ctx.check(evo.pt, t0, "initial")
    nres, lo, prev = 0, t0, None
    it = evo.at_times(times) if case["use_at_times"] else None
    for t in times:
        if it is not None:
            pt = next(it)
        else:
            evo.update_to(t)
            pt = evo.pt
        ctx.check_time(evo.t, t, repeated=(prev == t))
        ctx.check(pt, t, "yield" if it is not None else "pt")
        if rec.mode != "none":
            ents = rec.entries(evo.results)
            new, nres = ents[nres:], len(ents)
            last = check_entries(ctx, rec, new, lo, t, None, hfun=orc.H)
            if t > lo and (last is None or abs(last - t) > T_TOL * max(1.0, abs(t))):
                raise Violation("results-miss-requested-time", got=last, want=t, **info)
        lo, prev = t, t
    span = hbound * (times[-1] - t0)
    return {"nt": span >= 0.05 and case["f"]["name"] != "const",
            "cls": [f"f={case['f']['name']}", "commuting" if commuting else "generic", f"s={sd['kind']}", f"ret={case['ret']}",
                    info["stepper"], f"cb={case['compute']}", "t0=0" if t0 == 0 else "t0!=0", "at_times" if it is not None else "update_to",
                    "span>=1" if span >= 1 else "span<1", f"sl={sl}", f"hl={hl}"], "err": ctx.err()}


# ---------------------------------------------------------------------------
# 6. compute callbacks see the same states
# ---------------------------------------------------------------------------

@st.composite
def s_callbacks(draw, tier):
    method = draw(st.sampled_from(["integrate", "solve", "expm"]))
    ham = draw(s_ham(2, 12))
    reps = {"integrate": ["dense", "sparse", "linop", "callable"], "solve": ["dense", "sparse", "tuple"], "expm": ["dense", "sparse"]}[method]
    state = draw(s_state(ham["d"], allow_sparse=False))
    return {"method": method, "ham": ham, "hrep": draw(st.sampled_from(reps)), "state": state, "t0": draw(st.sampled_from([0.0, 0.7, -0.7, 2000.0])),
            "dts": draw(st.lists(st.sampled_from([0.0, 1e-6, 0.004, 0.02, 0.3, 0.9]), min_size=1, max_size=4)),
            "compute": draw(st.sampled_from(["single2", "single3", "dict", "dict1"])), "small": draw(st.booleans()),
            "use_at_times": draw(st.booleans()), "progbar": draw(st.sampled_from([False, False, True]))}


def run_callbacks(case):
    import quimb as qu

    m = case["method"]
    hd, sd = case["ham"], case["state"]
    d = int(hd["d"])
    Hd = dense_ham(hd)
    p0 = dense_state(sd, d)
    t0 = float(case["t0"])
    hrep = case["hrep"]
    meth = "solve" if hrep == "tuple" else m
    sl, hl = layout_labels(sd, hd, hrep)
    info = dict(method=m, state=sd["kind"], sform=sd["form"], hrep=hrep, d=d, cb=case["compute"], slayout=sl, hlayout=hl)
    sobj, p0 = state_object(p0, sd, Hd, t0)
    ctx = Ctx(Hd, p0, t0, meth, info)
    rec = Recorder(case["compute"])
    ham = make_ham(Hd, hrep, **ham_kwargs(hd, m, hrep))
    kw = {"int_small_step": True} if (m == "integrate" and case["small"]) else {}
    if case.get("progbar"):
        kw["progbar"] = True
    evo = qu.Evolution(sobj, ham, t0=t0, method=m, compute=rec.compute(), **kw)
    ents = rec.entries(evo.results)
    if ents:
        raise Violation("results-count", got=len(ents), want=0, at="construction", **info)
    times, t = [], t0
    for dt in case["dts"]:
        t = t + float(dt)
        times.append(t)
    it = evo.at_times(times) if case["use_at_times"] else None
    nres, lo = 0, t0
    for t in times:
        if it is not None:
            next(it)
        else:
            evo.update_to(t)
        ents = rec.entries(evo.results)
        new, nres = ents[nres:], len(ents)
        if meth == "integrate":
            last = check_entries(ctx, rec, new, lo, t, ham)
            if t > lo and (last is None or abs(last - t) > T_TOL * max(1.0, abs(t))):
                raise Violation("results-miss-requested-time", got=last, want=t, **info)
            ctx.check_time(evo.t, t)
        else:
            check_entries(ctx, rec, new, lo, t, ham, exact_times=[t])
            # the callback was shown the state that is now reported
            shown = new[-1][0][2]
            if rel_err(shown, to_dense(evo.pt), floor=ctx.n0) > 1e-14:
                raise Violation("results-not-reported-state", **info)
        lo = t
    rec.held.check(info)
    return {"nt": True, "cls": [f"m={m}", f"cb={case['compute']}", f"h={hrep}", f"s={sd['kind']}", f"sl={sl}", f"hl={hl}",
                                "at_times" if it is not None else "update_to"]
            + (["progbar"] if case.get("progbar") else []),
            "err": ctx.err()}


# ---------------------------------------------------------------------------
# 7. int_stop
# ---------------------------------------------------------------------------

@st.composite
def s_int_stop(draw, tier):
    method = draw(st.sampled_from(["integrate"] * 6 + ["solve", "expm"]))
    ham = draw(s_ham(3, 12))
    ham["norm"] = draw(st.sampled_from([1.0, 2.5]))
    state = draw(s_state(ham["d"], allow_sparse=False))
    return {"method": method, "ham": ham, "hrep": draw(st.sampled_from(["dense", "sparse", "linop", "callable"] if method == "integrate" else ["dense", "sparse"])),
            "state": state, "t0": draw(st.sampled_from([0.0, 0.7, -0.7])), "T": draw(st.sampled_from([0.5, 1.5, 3.0])),
            "thr": draw(st.sampled_from([0.0, 0.1, 0.5, 0.9, 1.2])), "nargs": draw(st.sampled_from([2, 3])),
            "ret": draw(st.sampled_from(["stop", "stop", "stop", "zero", "none"])), "compute": draw(st.sampled_from(["none", "single2", "dict"])),
            "small": draw(st.booleans()), "progbar": draw(st.sampled_from([False, False, True]))}


def run_int_stop(case):
    import quimb as qu

    m = case["method"]
    hd, sd = case["ham"], case["state"]
    d = int(hd["d"])
    Hd = dense_ham(hd)
    p0 = dense_state(sd, d)
    t0, T = float(case["t0"]), float(case["T"])
    thr = t0 + float(case["thr"]) * T
    sl, hl = layout_labels(sd, hd, case["hrep"])
    info = dict(method=m, state=sd["kind"], sform=sd["form"], hrep=case["hrep"], d=d, nargs=case["nargs"], slayout=sl, hlayout=hl)
    sobj, p0 = state_object(p0, sd, Hd, t0)
    ctx = Ctx(Hd, p0, t0, "integrate", info)
    calls = []

    def decide(t, p):
        hit = t >= thr
        calls.append((float(t), hit, to_dense(p)))
        if case["ret"] == "stop":
            return -1 if hit else 0
        return 0 if case["ret"] == "zero" else None

    if case["nargs"] == 2:
        def stop(t, p):
            return decide(t, p)
    else:
        def stop(t, p, H):
            return decide(t, p)

    rec = Recorder(case["compute"])
    kw = {}
    if rec.compute() is not None:
        kw["compute"] = rec.compute()
    ham = make_ham(Hd, case["hrep"], **ham_kwargs(hd, m, case["hrep"]))
    if case.get("progbar"):
        kw["progbar"] = True
    if m != "integrate":
        # documented: int_stop is only for 'integrate'
        try:
            qu.Evolution(sobj, ham, t0=t0, method=m, int_stop=stop, **kw)
        except ValueError:
            return {"nt": False, "cls": ["non-integrate-rejected"], "err": 0.0}
        raise Violation("int-stop-accepted", **info)
    evo = qu.Evolution(sobj, ham, t0=t0, method=m, int_stop=stop, int_small_step=bool(case["small"]), **kw)
    evo.update_to(t0 + T)
    te = float(evo.t)
    if not calls:
        raise Violation("int-stop-never-called", **info)
    for tc, _, pc in calls:
        ctx.check(pc, tc, "int_stop")
    hits = [k for k, c in enumerate(calls) if c[1]]
    stopping = case["ret"] == "stop" and bool(hits)
    if stopping:
        k = hits[0]
        if len(calls) != k + 1:
            raise Violation("int-stop-ignored", calls_after=len(calls) - k - 1, **info)
        ctx.check_time(te, calls[k][0])
    else:
        ctx.check_time(te, t0 + T)
    ctx.check(evo.pt, te, "pt")
    if rec.mode != "none":
        ents = rec.entries(evo.results)
        last = check_entries(ctx, rec, ents, t0, te, ham)
        if last is None or abs(last - te) > T_TOL * max(1.0, abs(te)):
            raise Violation("results-miss-final-time", got=last, want=te, **info)
    early = stopping and te < t0 + T - 1e-9
    return {"nt": True, "cls": ["stopped-early" if early else ("stopped-at-end" if stopping else "ran-through"), f"nargs={case['nargs']}",
                                f"ret={case['ret']}", f"cb={case['compute']}", f"h={case['hrep']}", f"s={sd['kind']}", f"sl={sl}", f"hl={hl}"]
            + (["progbar"] if case.get("progbar") else []), "err": ctx.err()}


SUBCHECKS = [
    SubCheck("grid", run_grid, enum=enum_grid, exhaustive=True, shards=(2, 8),
             rule="every cell of method(4: integrate/dop853, integrate/dopri5, solve, expm) x state(5: ket, 1-d ket, sparse ket, dop, sparse dop) x "
                  "Hamiltonian(8: dense, csr, csc, (evals,evecs), LinearOperator dense/sparse, callable dense/sparse) x t0(0,+-0.7) x "
                  "4 instances (d=4,3,6,2; update_to with repeat, non-uniform update_to, at_times; non-monotonic for solve): raise at "
                  "construction/first update or match the oracle at every time; documented-supported cells must be accepted; nt: accepted cell"),
    SubCheck("layouts", run_layouts, enum=enum_layouts, exhaustive=True, shards=(3, 8),
             rule="every cell of method(4) x ket/dop x state container (dense row major, column major, .H view, .T view, strided view, "
                  "negative strides as qarray; C/F/strided plain ndarray; sparse csr/csc/coo/bsr; the pt of an earlier solve / expm / "
                  "integrate stretch; 1-d C/strided/reversed) x Hamiltonian container (dense in the 6 layouts, F/strided ndarray, "
                  "csr/csc/coo/bsr, (evals,evecs) with F/strided evecs, LinearOperator and callable over F/strided/.H arrays) x t0(0,0.7), "
                  "complex H and state: reject or match the oracle built from the entries at 4 times incl. a repeat and at_times; "
                  "nt: accepted cell with non-real entries"),
    SubCheck("seq_solve", machine=machine("solve"), examples=(200, 2500), shards=(1, 4),
             rule="history machine on method='solve' (dense/csr/csc/pre-diagonalised): update_to at arbitrary (non-monotonic, repeated) times, "
                  "at_times with partial consumption; after each request evo.t, evo.pt, new results entries, norm/trace, purity, energy; "
                  "nt: dop or t0!=0 or >=3 requests"),
    SubCheck("seq_integrate", machine=machine("integrate"), examples=(120, 2000), shards=(2, 6),
             rule="history machine on method='integrate' (dop853 and dopri5; dense/sparse/LinearOperator/callable): non-decreasing times "
                  "(non-uniform, repeated), at_times; evo.t, evo.pt, every callback event vs oracle of its own time; nt as RULE"),
    SubCheck("seq_expm", machine=machine("expm"), examples=(200, 2500), shards=(1, 4),
             rule="history machine on method='expm' (dense/csr/csc; ket, dop, sparse states with sparse H): non-decreasing times, at_times; nt as RULE"),
    SubCheck("timedep", run_timedep, s_timedep, examples=(150, 1800), shards=(2, 6),
             rule="callable H(t)=H0+f(t)H1 (f: cos, linear, quadratic, const; generic or commuting H1; dense or sparse return) with both steppers, "
                  "ket/dop, t0, 1-4 requested times via update_to/at_times, callbacks incl. H(t) seen by 3-argument callbacks; "
                  "nt: ||H||*T >= 0.05 and f not constant"),
    SubCheck("callbacks", run_callbacks, s_callbacks, examples=(300, 4000), shards=(1, 4),
             rule="compute= single (2/3 arguments) or dict (mixed) x method x representation: results structure, one event per request for "
                  "solve/expm at exactly the requested time, every event == oracle state at its time, Hamiltonian argument as documented; all nt"),
    SubCheck("int_stop", run_int_stop, s_int_stop, examples=(250, 3000), shards=(1, 4),
             rule="int_stop (2/3 arguments, returning -1 / 0 / None) with and without compute: integration ends at the first event that returned "
                  "-1 and (evo.t, evo.pt) is the oracle state of that time, otherwise runs to T; non-integrate methods must raise ValueError; "
                  "nt: integrate cases"),
]
