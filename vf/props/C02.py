"""C02 — network index/tag/ownership maps stay exact under any mutation history.

A rule-based state machine over a *pool* of loose tensors and a pool of
networks that may share tensor objects (virtual views).  After every step, for
every live network, the lookup structures are compared with a fresh scan of the
tensors it holds (done by the harness, never by constructing a quimb network):

* ind_map / tag_map  == scan of tensor_map values
* outer/inner labels == multiplicity rule (outer <=> the label occupies exactly
  one tensor slot in the network; this is the rule a freshly built network and
  tensor_contract's output inference use)
* sizes agree across tensors sharing a label
* every tensor's live owners == {(network, tid)} containment relation
* tag/label based selection == filter over the scan
* tn.check() does not raise
* combination (&, |, &=, |=): bonds of the two operands stay distinct, outer
  labels keep their names, exponents add.
"""
from __future__ import annotations

import collections
import gc
import pickle

import numpy as np
from hypothesis import strategies as st

from ..core import MachineSpec, Reject, SubCheck, Violation

RULE = ("histories of up to 25/50 public operations (38 rule kinds: add/pop/delete/replace tensors, rename labels/tags at "
        "tensor and network level incl. merges and swaps, modify/transpose/isel/squeeze/fuse/new_ind/new_bond, split, "
        "contract, gate, cut_bond, views/copies/pickle, select/partition, combine with &,|,&=,|=, drop+gc) on a pool of "
        "networks sharing tensors; non-trivial = >=4 mutating steps and (a tensor owned by >=2 networks was touched, or a "
        "viewing network was garbage collected, or a repeated label occurred)")
ASSUMPTIONS = [
    "tensor_map is the ground truth for which tensors a network holds; Tensor.inds/.tags are the ground truth for labels/tags",
    "the same tensor object is never added twice *virtually* to one network (owner table is keyed per network)",
    "labels are only renamed onto labels of equal dimension (mismatched dimensions are user error)",
]

# label pool with fixed sizes so that size agreement holds by construction
SIZES = {"a": 2, "b": 2, "c": 2, "d": 2, "e": 3, "f": 3, "g": 1, "h": 1}
POOL = sorted(SIZES)
TAGS = ["X", "Y", "Z", "W"]


def Q():
    import quimb.tensor as qtn

    return qtn


class State:
    def __init__(self):
        self.tensors = []  # loose tensor objects created by / returned to the harness
        self.nets = []
        self.rep = set()  # id(net) that ever held a tensor with a repeated label
        self.nmut = 0
        self.shared_touch = False
        self.gc_done = False
        self.rep_seen = False
        self.counter = 0
        self.kinds = collections.Counter()


def tensor_has_repeat(t):
    return len(set(t.inds)) != len(t.inds)


def mark_rep(state):
    for tn in state.nets:
        if any(tensor_has_repeat(t) for t in tn.tensor_map.values()):
            state.rep.add(id(tn))
            state.rep_seen = True


def new_tensor(state, spec):
    qtn = Q()
    li, tg, seed = spec
    inds = [POOL[i % len(POOL)] for i in li]
    rng = np.random.default_rng(seed)
    shape = [SIZES[i] for i in inds]
    data = rng.normal(size=shape)
    state.counter += 1
    tags = [TAGS[i % len(TAGS)] for i in tg] + [f"U{state.counter}"]
    return qtn.Tensor(data, inds=inds, tags=tags)


def add_loose(s, t):
    """put a tensor into the loose pool once (the pool must never hold the same object twice, otherwise a later
    new_network could add one object twice virtually - outside the domain)"""
    if not any(x is t for x in s.tensors):
        s.tensors.append(t)


def normalize_sizes(s, tn):
    """after a fusion a pool label can carry a fused dimension: give such bonds a fresh harness name so that the pool
    labels keep their fixed sizes (otherwise a later add of a pool tensor is a user-level size clash)"""
    mine = {id(t) for t in tn.tensor_map.values()}
    elsewhere = {}
    for t in all_tensors(s):
        if id(t) not in mine:
            for ix, d in zip(t.inds, t.shape):
                elsewhere.setdefault(ix, d)
    for ix in list(tn.ind_map):
        d = tn.ind_size(ix)
        # the fused bond keeps the name of one of the fused labels: a pool label must keep its fixed size, and a
        # library-generated label that is still in use elsewhere at its old size must not clash with it later
        if (ix in SIZES and d != SIZES[ix]) or (ix in elsewhere and elsewhere[ix] != d):
            s.counter += 1
            tn.reindex_({ix: f"fz{s.counter}"})


def pick(seq, k):
    seq = list(seq)
    if not seq:
        raise Reject("empty pool")
    return seq[k % len(seq)]


def pick_net(state, k):
    return pick(state.nets, k)


def pick_tid(tn, k):
    return pick(sorted(tn.tensor_map), k)


def all_tensors(state):
    seen = {}
    for t in state.tensors:
        seen[id(t)] = t
    for tn in state.nets:
        for t in tn.tensor_map.values():
            seen[id(t)] = t
    return list(seen.values())


def owners_of(state, t):
    return [tn for tn in state.nets if any(tt is t for tt in tn.tensor_map.values())]


def touch(state, t):
    state.nmut += 1
    if len(owners_of(state, t)) >= 2:
        state.shared_touch = True


def unique_tag(tn, tid):
    """A tag carried by tensor `tid` and by no other tensor of `tn` (found by scanning tensors)."""
    t = tn.tensor_map[tid]
    for tag in t.tags:
        if sum(1 for tt in tn.tensor_map.values() if tag in tt.tags) == 1:
            return tag
    raise Reject("no unique tag")


def same_size_label(state, t, old, k, fresh_ok=True):
    """A pool label with the same dimension as `old` on tensor t."""
    sz = t.ind_size(old)
    cands = [l for l in POOL if SIZES[l] == sz]
    if not cands:
        raise Reject("no label of that size")
    return cands[k % len(cands)]


def label_size_ok(state, label, size):
    """renaming something of dimension `size` onto `label` must not create a size mismatch anywhere"""
    for t in all_tensors(state):
        if label in t.inds and t.ind_size(label) != size:
            return False
    return True


# ---------------------------------------------------------------------------
# invariant
# ---------------------------------------------------------------------------

def scan(tn):
    ind_map = collections.defaultdict(set)
    tag_map = collections.defaultdict(set)
    mult = collections.Counter()
    for tid, t in tn.tensor_map.items():
        for ix in t.inds:
            ind_map[ix].add(tid)
            mult[ix] += 1
        for tg in t.tags:
            tag_map[tg].add(tid)
    return dict(ind_map), dict(tag_map), mult


def invariant(state):
    mark_rep(state)
    live = {id(tn): tn for tn in state.nets}
    for ni, tn in enumerate(state.nets):
        rep = id(tn) in state.rep
        im, tm, mult = scan(tn)
        got_im = {k: set(v) for k, v in tn.ind_map.items()}
        got_tm = {k: set(v) for k, v in tn.tag_map.items()}
        if got_im != im:
            diff = sorted(set(got_im) ^ set(im)) or sorted(k for k in im if got_im.get(k) != im[k])
            raise Violation("ind_map", net=ni, labels=[str(d) for d in diff[:4]], repeated_history=rep)
        if got_tm != tm:
            diff = sorted(set(got_tm) ^ set(tm)) or sorted(k for k in tm if got_tm.get(k) != tm[k])
            raise Violation("tag_map", net=ni, tags=[str(d) for d in diff[:4]])
        outer = {ix for ix, c in mult.items() if c == 1}
        inner = set(mult) - outer
        go, gi = set(tn.outer_inds()), set(tn.inner_inds())
        if go != outer or gi != inner:
            raise Violation("inner-outer", net=ni, repeated_history=rep,
                            outer_extra=sorted(map(str, go - outer))[:3], outer_missing=sorted(map(str, outer - go))[:3],
                            inner_extra=sorted(map(str, gi - inner))[:3], inner_missing=sorted(map(str, inner - gi))[:3])
        if len(tn.outer_inds()) != len(go) or len(tn.inner_inds()) != len(gi):
            raise Violation("inner-outer-duplicates", net=ni)
        # sizes agree
        for ix, tids in im.items():
            sizes = {tn.tensor_map[tid].ind_size(ix) for tid in tids}
            if len(sizes) != 1:
                raise Violation("size-mismatch", net=ni, label=str(ix))
        if tn.num_tensors != len(tn.tensor_map) or tn.num_indices != len(im):
            raise Violation("counts", net=ni)
        # selection agrees with the scan
        for tg, tids in list(tm.items())[:6]:
            got = {tid for tid in tn._get_tids_from_tags(tg)}
            if got != tids:
                raise Violation("select-tag", net=ni, tag=str(tg))
            ts = tn.select_tensors(tg)
            if {id(t) for t in ts} != {id(tn.tensor_map[tid]) for tid in tids}:
                raise Violation("select-tensors", net=ni, tag=str(tg))
        for ix, tids in list(im.items())[:6]:
            if set(tn._get_tids_from_inds(ix)) != tids:
                raise Violation("select-ind", net=ni, label=str(ix))
        for absent in ("__nope__",):
            if absent in tn.tag_map or absent in tn.ind_map:
                raise Violation("phantom", net=ni)
        try:
            tn.check()
        except Exception as e:  # noqa
            raise Violation("check-raises", net=ni, msg=str(e)[:80], repeated_history=rep)
    # ownership: live owners of every tensor == containment relation
    for t in all_tensors(state):
        t.check_owners()
        got = set()
        for ref, tid in t.owners.values():
            o = ref()
            if o is not None and id(o) in live and live[id(o)] is o:
                got.add((id(o), tid))
        exp = {(id(tn), tid) for tn in state.nets for tid, tt in tn.tensor_map.items() if tt is t}
        if got != exp:
            raise Violation("owners", missing=len(exp - got), extra=len(got - exp))


# ---------------------------------------------------------------------------
# operations
# ---------------------------------------------------------------------------

I = st.integers(0, 1000)
B = st.booleans()
tensor_spec = st.tuples(st.lists(st.integers(0, 7), max_size=3, unique=True), st.lists(st.integers(0, 3), max_size=2, unique=True),
                        st.integers(0, 10**6))
tensor_spec_rep = st.tuples(st.lists(st.integers(0, 7), min_size=2, max_size=3), st.lists(st.integers(0, 3), max_size=2, unique=True),
                            st.integers(0, 10**6))


def op_new_tensor(s, a):
    add_loose(s, new_tensor(s, a))


def op_new_tensor_rep(s, a):
    add_loose(s, new_tensor(s, a))


def op_new_network(s, a):
    picks, virtual = a
    if not s.tensors:
        raise Reject("no tensors")
    idx = sorted({p % len(s.tensors) for p in picks})
    ts = [s.tensors[i] for i in idx]
    s.nets.append(Q().TensorNetwork(ts, virtual=virtual))
    s.nmut += 1


def contains_obj(tn, t):
    return any(tt is t for tt in tn.tensor_map.values())


def op_add_tensor(s, a):
    ni, ti, virtual, how = a
    tn = pick_net(s, ni)
    t = pick(s.tensors, ti)
    if virtual and contains_obj(tn, t):
        raise Reject("same object twice")
    if how == 0:
        tn.add_tensor(t, virtual=virtual)
    elif how == 1:
        tn.add(t, virtual=virtual)
    elif how == 2:
        if virtual:
            tn |= t
        else:
            tn &= t
    else:
        tn.add_tensor(t, tid=pick_tid(tn, ti) if tn.tensor_map else 7, virtual=virtual)  # clashing tid must be re-issued
    touch(s, t)


def slots(tn):
    """label -> sorted list of (position, axis) and list of tensors by position"""
    d = collections.defaultdict(list)
    for pos, t in enumerate(tn.tensor_map.values()):
        for ax, ix in enumerate(t.inds):
            d[ix].append((pos, ax))
    return d


def op_combine(s, a):
    i, j, how, cc = a
    if len(s.nets) < 2:
        raise Reject("need two networks")
    i %= len(s.nets)
    j %= len(s.nets)
    if i == j:
        raise Reject("same network")
    A, Bn = s.nets[i], s.nets[j]
    virtual = how in (1, 3, 5)
    shared = any(contains_obj(A, t) for t in Bn.tensor_map.values())
    if virtual and shared:
        raise Reject("virtual combination of networks sharing a tensor object")
    sa, sb = slots(A), slots(Bn)
    na = A.num_tensors
    ea, eb = A.exponent, Bn.exponent
    A.exponent, Bn.exponent = 0.25, 0.5
    rep = (id(A) in s.rep) or (id(Bn) in s.rep)
    try:
        if how == 0:
            R = A & Bn
        elif how == 1:
            R = A | Bn
        elif how == 2:
            A &= Bn
            R = A
        elif how == 3:
            A |= Bn
            R = A
        elif how == 4:
            R = Q().TensorNetwork([A, Bn], virtual=False, check_collisions=cc)
        else:
            R = Q().TensorNetwork([A, Bn], virtual=True, check_collisions=cc)
    finally:
        if how not in (2, 3):
            A.exponent = ea
        Bn.exponent = eb
    if abs(R.exponent - 0.75) > 1e-12:
        raise Violation("combine-exponent", got=float(R.exponent))
    R.exponent = ea + eb
    if how in (2, 3):
        if rep:
            s.rep.add(id(A))
    else:
        s.nets.append(R)
        if rep:
            s.rep.add(id(R))
    s.nmut += 1
    check_collisions = cc if how in (4, 5) else True
    # structure: positions 0..na-1 are A's tensors, the rest B's (insertion order)
    sr = slots(R)
    if R.num_tensors != na + Bn.num_tensors and how not in (2, 3):
        raise Violation("combine-count")
    if how in (2, 3):
        return  # A mutated in place: slot bookkeeping of `sa` no longer addresses a separate object; invariant covers it
    label_at = {}
    for ix, sl in sr.items():
        for p in sl:
            label_at[p] = ix
    for ix, sl in sa.items():
        if len(sl) == 1 and label_at[sl[0]] != ix:
            raise Violation("combine-renamed-outer", label=str(ix), repeated_history=rep)
    for ix, sl in sb.items():
        if len(sl) == 1 and label_at[(sl[0][0] + na, sl[0][1])] != ix:
            raise Violation("combine-renamed-outer", label=str(ix), repeated_history=rep)
    if check_collisions:
        for ix, sl in sa.items():
            if len(sl) >= 2 and ix in sb and len(sb[ix]) >= 2:
                la = {label_at[p] for p in sl}
                lb = {label_at[(p[0] + na, p[1])] for p in sb[ix]}
                if la & lb:
                    raise Violation("combine-merged-bonds", label=str(ix), repeated_history=rep)
                if len(la) != 1 or len(lb) != 1:
                    raise Violation("combine-split-bond", label=str(ix), repeated_history=rep)


def op_pop(s, a):
    ni, ti, by_tag = a
    tn = pick_net(s, ni)
    if not tn.tensor_map:
        raise Reject("empty")
    tid = pick_tid(tn, ti)
    t0 = tn.tensor_map[tid]
    touch(s, t0)
    if by_tag:
        t = tn.pop_tensor(unique_tag(tn, tid))
    else:
        t = tn.pop_tensor(tid)
    if t is not t0:
        raise Violation("pop-returned-other")
    add_loose(s, t)


def op_delete(s, a):
    ni, tg, which, spelling = a
    tn = pick_net(s, ni)
    tag = TAGS[tg % len(TAGS)]
    expect = {tid for tid, t in tn.tensor_map.items() if tag in t.tags}
    for tid in expect:
        touch(s, tn.tensor_map[tid])
    if not expect:
        raise Reject("tag absent (KeyError is the documented response)")
    if spelling:
        del tn[tag]
    else:
        tn.delete(tag, which="any" if which else "all")
    if any(tag in t.tags for t in tn.tensor_map.values()):
        raise Violation("delete-left-tagged")
    s.nmut += 1


def op_setitem(s, a):
    ni, ti, spec = a
    tn = pick_net(s, ni)
    if not tn.tensor_map:
        raise Reject("empty")
    tid = pick_tid(tn, ti)
    tag = unique_tag(tn, tid)
    old = tn.tensor_map[tid]
    touch(s, old)
    new = new_tensor(s, spec)
    tn[tag] = new
    if tn.tensor_map.get(tid) is not new:
        raise Violation("setitem-not-placed")
    add_loose(s, old)


def any_tensor(s, k):
    return pick(all_tensors(s), k)


def op_reindex_tensor(s, a):
    ti, li, k, inplace = a
    t = any_tensor(s, ti)
    if not t.inds:
        raise Reject("rank 0")
    old = pick(t.inds, li)
    new = same_size_label(s, t, old, k)
    if new in t.inds and new != old:
        raise Reject("would create a repeated label (separate rule)")
    if not label_size_ok(s, new, t.ind_size(old)):
        raise Reject("size clash")
    touch(s, t)
    if inplace:
        t.reindex_({old: new})
    else:
        add_loose(s, t.reindex({old: new}))


def op_reindex_tensor_merge(s, a):
    """rename one label of a tensor onto another label of the same tensor -> repeated label"""
    ti, li, lj = a
    t = any_tensor(s, ti)
    if len(t.inds) < 2:
        raise Reject("rank<2")
    old = pick(t.inds, li)
    new = pick(t.inds, lj)
    if old == new or t.ind_size(old) != t.ind_size(new):
        raise Reject("same/size")
    touch(s, t)
    for tn in owners_of(s, t):
        s.rep.add(id(tn))
    s.rep_seen = True
    t.reindex_({old: new})


def op_reindex_swap(s, a):
    ti, li, lj, net_level, ni = a
    if net_level:
        tn = pick_net(s, ni)
        labels = sorted(tn.ind_map)
        if len(labels) < 2:
            raise Reject("few labels")
        x, y = pick(labels, li), pick(labels, lj)
        if x == y or tn.ind_size(x) != tn.ind_size(y):
            raise Reject("same/size")
        # other networks sharing tensors see consistent renames only if sizes agree everywhere (same pool sizes)
        for tid in set(tn.ind_map[x]) | set(tn.ind_map[y]):
            touch(s, tn.tensor_map[tid])
        if not (label_size_ok(s, x, tn.ind_size(y)) and label_size_ok(s, y, tn.ind_size(x))):
            raise Reject("size clash")
        tn.reindex_({x: y, y: x})
    else:
        t = any_tensor(s, ti)
        if len(set(t.inds)) < 2:
            raise Reject("rank<2")
        x, y = pick(t.inds, li), pick(t.inds, lj)
        if x == y or t.ind_size(x) != t.ind_size(y):
            raise Reject("same/size")
        if not (label_size_ok(s, x, t.ind_size(y)) and label_size_ok(s, y, t.ind_size(x))):
            raise Reject("size clash")
        touch(s, t)
        t.reindex_({x: y, y: x})


def op_reindex_net(s, a):
    ni, li, k, inplace = a
    tn = pick_net(s, ni)
    labels = sorted(tn.ind_map)
    if not labels:
        raise Reject("no labels")
    old = pick(labels, li)
    sz = tn.ind_size(old)
    cands = [l for l in POOL if SIZES[l] == sz]
    if not cands:
        raise Reject("no label of that size")
    new = cands[k % len(cands)]
    if not label_size_ok(s, new, sz):
        raise Reject("size clash")
    will_repeat = any(new in t.inds and old in t.inds and new != old for t in tn.tensor_map.values())
    if will_repeat:
        raise Reject("would create a repeated label (separate rule)")
    for tid in tn.ind_map[old]:
        touch(s, tn.tensor_map[tid])
    if inplace:
        tn.reindex_({old: new})
    else:
        s.nets.append(tn.reindex({old: new}))
        if id(tn) in s.rep:
            s.rep.add(id(s.nets[-1]))


def op_retag_tensor(s, a):
    ti, gi, gj = a
    t = any_tensor(s, ti)
    if not t.tags:
        raise Reject("no tags")
    old = pick(sorted(t.tags), gi)
    new = TAGS[gj % len(TAGS)]
    touch(s, t)
    t.retag_({old: new})


def op_retag_net(s, a):
    ni, gi, gj, inplace = a
    tn = pick_net(s, ni)
    tags = sorted(tn.tag_map)
    if not tags:
        raise Reject("no tags")
    old = pick(tags, gi)
    new = TAGS[gj % len(TAGS)]
    for tid in tn.tag_map[old]:
        touch(s, tn.tensor_map[tid])
    if inplace:
        tn.retag_({old: new})
    else:
        s.nets.append(tn.retag({old: new}))
        if id(tn) in s.rep:
            s.rep.add(id(s.nets[-1]))


def op_add_tag(s, a):
    ni, gi, gw, which, level = a
    tag = TAGS[gi % len(TAGS)]
    if level == 0:
        t = any_tensor(s, ni)
        touch(s, t)
        t.add_tag(tag)
    else:
        tn = pick_net(s, ni)
        where = None if level == 1 else TAGS[gw % len(TAGS)]
        if where is not None and where not in tn.tag_map:
            raise Reject("where-tag absent")
        tn.add_tag(tag, where=where, which=["all", "any", "!all", "!any"][which % 4])
        s.nmut += 1


def op_drop_tags(s, a):
    ni, gi, level = a
    tag = TAGS[gi % len(TAGS)]
    if level == 0:
        t = any_tensor(s, ni)
        touch(s, t)
        t.drop_tags(tag)
    elif level == 1:
        tn = pick_net(s, ni)
        if tag not in tn.tag_map:
            raise Reject("tag absent")
        tn.drop_tags(tag)
        s.nmut += 1
    else:
        tn = pick_net(s, ni)
        tn.drop_tags()
        s.nmut += 1


def op_modify(s, a):
    ti, what, seed, k = a
    t = any_tensor(s, ti)
    rng = np.random.default_rng(seed)
    if what in (2, 4) and tensor_has_repeat(t):
        raise Reject("axis permutation by label is ambiguous for a repeated label")
    touch(s, t)
    if what == 0:
        t.modify(data=rng.normal(size=t.shape))
    elif what == 1:
        t.modify(tags=[TAGS[k % 4], TAGS[(k // 4) % 4]])
    elif what == 2:
        if len(t.inds) < 1:
            raise Reject("rank 0")
        perm = rng.permutation(len(t.inds))
        # permuting labels only (data unchanged): sizes must match
        new = tuple(t.inds[p] for p in perm)
        if any(t.ind_size(x) != t.ind_size(y) for x, y in zip(t.inds, new)):
            raise Reject("size")
        t.modify(inds=new)
    elif what == 3:
        if len(t.inds) < 1:
            raise Reject("rank 0")
        old = pick(t.inds, k)
        new = same_size_label(s, t, old, seed)
        if new in t.inds or not label_size_ok(s, new, t.ind_size(old)):
            raise Reject("clash")
        t.modify(inds=tuple(new if ix == old else ix for ix in t.inds))
    else:
        if len(t.inds) < 1:
            raise Reject("rank 0")
        t.transpose_(*[t.inds[p] for p in rng.permutation(len(t.inds))])


def op_isel(s, a):
    ni, li, level, inplace = a
    if level == 0:
        t = any_tensor(s, ni)
        if not t.inds:
            raise Reject("rank 0")
        ix = pick(t.inds, li)
        touch(s, t)
        if inplace:
            t.isel_({ix: 0})
        else:
            add_loose(s, t.isel({ix: 0}))
    else:
        tn = pick_net(s, ni)
        labels = sorted(tn.ind_map)
        if not labels:
            raise Reject("no labels")
        ix = pick(labels, li)
        for tid in tn.ind_map[ix]:
            touch(s, tn.tensor_map[tid])
        if inplace:
            tn.isel_({ix: 0})
        else:
            s.nets.append(tn.isel({ix: 0}))
            if id(tn) in s.rep:
                s.rep.add(id(s.nets[-1]))


def op_squeeze(s, a):
    ni, level, inplace, fuse = a
    if level == 0:
        t = any_tensor(s, ni)
        touch(s, t)
        if inplace:
            t.squeeze_()
        else:
            add_loose(s, t.squeeze())
    else:
        tn = pick_net(s, ni)
        s.nmut += 1
        for t in tn.tensor_map.values():
            if 1 in t.shape and len(owners_of(s, t)) >= 2:
                s.shared_touch = True
        if fuse and inplace and any(len(owners_of(s, t)) >= 2 for t in tn.tensor_map.values()):
            fuse = False  # same user-level size clash as fuse_multibonds on shared tensors
        if fuse and any(tensor_has_repeat(t) for t in tn.tensor_map.values()):
            fuse = False  # see op_fuse: fusing a label repeated on one tensor is outside Tensor.fuse's contract
        if inplace:
            tn.squeeze_(fuse=fuse)
            if fuse:
                normalize_sizes(s, tn)
        else:
            s.nets.append(tn.squeeze(fuse=fuse))
            if fuse:
                normalize_sizes(s, s.nets[-1])
            if id(tn) in s.rep:
                s.rep.add(id(s.nets[-1]))


def op_new_ind(s, a):
    ti, k, tj, what = a
    t = any_tensor(s, ti)
    if what == 0:
        cands = [l for l in POOL if l not in t.inds and label_size_ok(s, l, SIZES[l])]
        if not cands:
            raise Reject("no free label")
        l = cands[k % len(cands)]
        touch(s, t)
        t.new_ind(l, size=SIZES[l], axis=k % (len(t.inds) + 1))
    elif what == 1:
        t2 = any_tensor(s, tj)
        if t2 is t:
            raise Reject("same tensor")
        touch(s, t)
        touch(s, t2)
        Q().new_bond(t, t2, size=1 + k % 2)
    else:
        tn = pick_net(s, ti)
        if tn.num_tensors < 2:
            raise Reject("few tensors")
        t1, t2 = pick_tid(tn, k), pick_tid(tn, tj)
        if t1 == t2:
            raise Reject("same tensor")
        touch(s, tn.tensor_map[t1])
        touch(s, tn.tensor_map[t2])
        tn.new_bond(unique_tag(tn, t1), unique_tag(tn, t2))


def op_fuse(s, a):
    ni, what, li, lj = a
    tn = pick_net(s, ni)
    s.nmut += 1
    if what == 0:
        # fusing changes the dimension of a surviving label: only sound when no tensor of this network is also viewed by
        # another network in which that label still connects to unfused tensors (user-level size clash otherwise)
        if any(len(owners_of(s, t)) >= 2 for t in tn.tensor_map.values()):
            raise Reject("fuse_multibonds on tensors shared with another network")
        if any(tensor_has_repeat(t) for t in tn.tensor_map.values()):
            # Tensor.fuse of a label held twice by the tensor is outside its contract (like transpose / permute): it either
            # refuses or leaves that tensor with one label at two sizes - the same user-level misuse as in op_fuse below
            raise Reject("fuse_multibonds with a label repeated on one tensor")
        tn.fuse_multibonds_()
        normalize_sizes(s, tn)
    else:
        t = any_tensor(s, ni)
        if len(set(t.inds)) < 2 or tensor_has_repeat(t):
            raise Reject("rank<2")
        x, y = pick(t.inds, li), pick(t.inds, lj)
        if x == y:
            raise Reject("same")
        # fusing two labels of one tensor removes them from that tensor only
        touch(s, t)
        s.counter += 1
        new = f"fz{s.counter}"
        t.fuse_({new: (x, y)})


def op_split(s, a):
    ni, ti, k, method = a
    tn = pick_net(s, ni)
    if not tn.tensor_map:
        raise Reject("empty")
    tid = pick_tid(tn, ti)
    t = tn.tensor_map[tid]
    if len(t.inds) < 2 or tensor_has_repeat(t) or 0 in t.shape:
        raise Reject("rank<2")
    tag = unique_tag(tn, tid)
    left = [t.inds[k % len(t.inds)]]
    touch(s, t)
    n0 = tn.num_tensors
    tn.split_tensor(tag, left, method=["svd", "qr", "eig"][method % 3], cutoff=0.0)
    if tn.num_tensors != n0 + 1:
        raise Violation("split-count", got=tn.num_tensors, want=n0 + 1)
    add_loose(s, t)  # the popped original stays a loose tensor


def op_contract(s, a):
    ni, what, li, lj = a
    tn = pick_net(s, ni)
    if tn.num_tensors < 2:
        raise Reject("few tensors")
    if any(tensor_has_repeat(t) for t in tn.tensor_map.values()):
        raise Reject("repeated labels: contraction output inference is the C01 domain")
    im, tm, mult = scan(tn)
    if any(c >= 3 for c in mult.values()):
        raise Reject("hyper network: local contraction needs output_inds")
    if what == 0:
        t1, t2 = pick_tid(tn, li), pick_tid(tn, lj)
        if t1 == t2:
            raise Reject("same tensor")
        touch(s, tn.tensor_map[t1])
        touch(s, tn.tensor_map[t2])
        n0 = tn.num_tensors
        tn.contract_between(unique_tag(tn, t1), unique_tag(tn, t2))
        if tn.num_tensors != n0 - 1:
            raise Violation("contract-count")
    elif what == 1:
        bonds = sorted(ix for ix, c in mult.items() if c == 2 and len(im[ix]) == 2)
        if not bonds:
            raise Reject("no bonds")
        ix = pick(bonds, li)
        for tid in im[ix]:
            touch(s, tn.tensor_map[tid])
        tn.contract_ind(ix)
        if ix in tn.ind_map:
            raise Violation("contract-ind-left-label")
    else:
        tags = sorted(tm)
        if not tags:
            raise Reject("no tags")
        tag = pick(tags, li)
        for tid in tm[tag]:
            touch(s, tn.tensor_map[tid])
        n0, k = tn.num_tensors, len(tm[tag])
        tn.contract_tags_(tag)
        if tn.num_tensors != n0 - k + 1:
            raise Violation("contract-count")


def op_gate(s, a):
    ni, li, mode, seed = a
    tn = pick_net(s, ni)
    im, tm, mult = scan(tn)
    outer = sorted(ix for ix, c in mult.items() if c == 1)
    if not outer:
        raise Reject("no outer labels")
    ix = pick(outer, li)
    d = tn.ind_size(ix)
    G = np.random.default_rng(seed).normal(size=(d, d))
    (tid,) = im[ix]
    touch(s, tn.tensor_map[tid])
    n0 = tn.num_tensors
    contract = [False, True][mode % 2]
    tn.gate_inds_(G, [ix], contract=contract)
    if set(tn.outer_inds()) != set(outer) and id(tn) not in s.rep:
        raise Violation("gate-changed-outer")
    if tn.num_tensors != n0 + (0 if contract else 1):
        raise Violation("gate-count")


def op_cut_bond(s, a):
    ni, li = a
    tn = pick_net(s, ni)
    im, tm, mult = scan(tn)
    bonds = sorted(ix for ix, c in mult.items() if c == 2 and len(im[ix]) == 2)
    if not bonds:
        raise Reject("no bonds")
    ix = pick(bonds, li)
    for tid in im[ix]:
        touch(s, tn.tensor_map[tid])
    tn.cut_bond(ix)
    if ix in tn.ind_map:
        raise Violation("cut-bond-left-label")


def op_select(s, a):
    ni, gi, which, virtual, kind = a
    tn = pick_net(s, ni)
    tags = sorted(tn.tag_map)
    if not tags:
        raise Reject("no tags")
    tag = pick(tags, gi)
    wh = ["all", "any", "!all", "!any"][which % 4]
    im, tm, mult = scan(tn)
    has = {tid for tid, t in tn.tensor_map.items() if tag in t.tags}
    expect = has if wh in ("all", "any") else set(tn.tensor_map) - has
    if kind == 0:
        r = tn.select(tag, which=wh, virtual=virtual)
        if set(r.tensor_map) != expect:
            raise Violation("select-result", which=wh)
        for tid in expect:
            if virtual and r.tensor_map[tid] is not tn.tensor_map[tid]:
                raise Violation("select-virtual-copied")
            if not virtual and r.tensor_map[tid] is tn.tensor_map[tid]:
                raise Violation("select-copy-shared")
        s.nets.append(r)
    elif kind == 1:
        n0 = tn.num_tensors
        a_, b_ = tn.partition(tag, which="any", inplace=virtual)
        # (tids are not promised to survive a rebuilding partition: compare by tags and counts)
        if b_.num_tensors != len(has) or not all(tag in t.tags for t in b_.tensor_map.values()):
            raise Violation("partition-result")
        if a_.num_tensors != n0 - len(has) or any(tag in t.tags for t in a_.tensor_map.values()):
            raise Violation("partition-result-rest")
        if virtual:
            if a_ is not tn:
                raise Violation("partition-inplace-identity")
            s.nets.append(b_)
        else:
            s.nets.extend([a_, b_])
        s.nmut += 1
    elif kind == 2:
        objs = {id(tn.tensor_map[tid]) for tid in has}
        rest, ts = tn.partition_tensors(tag, inplace=virtual)
        if len(ts) != len(has) or not all(tag in t.tags for t in ts):
            raise Violation("partition-tensors-result")
        if virtual and {id(t) for t in ts} != objs:
            raise Violation("partition-tensors-inplace-objects")
        [add_loose(s, t_) for t_ in ts]
        if not virtual:
            s.nets.append(rest)
        s.nmut += 1
    else:
        r = tn.select_local(tag, max_distance=which % 3, virtual=virtual)
        if not has <= set(r.tensor_map):
            raise Violation("select-local-missing-seed")
        s.nets.append(r)
    if id(tn) in s.rep:
        for r in s.nets:
            pass
    # propagate repeated-history flag conservatively to derived networks
    if id(tn) in s.rep:
        for r in s.nets[-2:]:
            s.rep.add(id(r))


def op_copy(s, a):
    ni, kind = a
    tn = pick_net(s, ni)
    if kind == 0:
        r = tn.copy()
    elif kind == 1:
        r = tn.copy(virtual=True)
    elif kind == 2:
        r = tn.copy(deep=True)
    elif kind == 3:
        r = pickle.loads(pickle.dumps(tn))
    else:
        r = Q().TensorNetwork(tn, virtual=bool(kind % 2))
    if set(r.tensor_map) != set(tn.tensor_map):
        raise Violation("copy-tids")
    for tid in tn.tensor_map:
        same = r.tensor_map[tid] is tn.tensor_map[tid]
        if same != (kind == 1 or (kind >= 4 and bool(kind % 2))):
            raise Violation("copy-sharing", kind=kind)
    s.nets.append(r)
    if id(tn) in s.rep:
        s.rep.add(id(r))


def op_churn_views(s, a):
    """Many short-lived virtual views of one network are created, dropped and replaced *within one step* (no owner-table
    trimming in between, as in a loop over `tn.select(...)` views): every new view must be registered with its tensors
    even when it is allocated where a dead, not yet trimmed owner used to live.  Up to two new views stay in the history
    (the invariant then checks their maps against tensor-level edits made by later rules)."""
    ni, n, keep, how = a
    tn = pick_net(s, ni)
    if not tn.tensor_map:
        raise Reject("empty network")
    n = 8 + n % 40
    mk = (lambda: tn.copy(virtual=True)) if how % 2 == 0 else (lambda: Q().TensorNetwork(list(tn.tensor_map.values()), virtual=True))
    views = [mk() for _ in range(n)]
    del views
    new = [mk() for _ in range(n)]
    for v in new:
        for tid, t in v.tensor_map.items():
            ent = t.owners.get(hash(v))
            if ent is None or ent[0]() is not v or ent[1] != tid:
                raise Violation("owners", missing=1, extra=0)
    for v in new[: keep % 3]:
        s.nets.append(v)
        if id(tn) in s.rep:
            s.rep.add(id(v))
    del new
    gc.collect()
    s.rep &= {id(x) for x in s.nets}


def op_tids_consecutive(s, a):
    ni, t0 = a
    tn = pick_net(s, ni)
    objs = [id(t) for t in tn.tensor_map.values()]
    tn.make_tids_consecutive(t0 % 5)
    if sorted(tn.tensor_map) != list(range(t0 % 5, t0 % 5 + len(objs))):
        raise Violation("tids-not-consecutive")
    if sorted(objs) != sorted(id(t) for t in tn.tensor_map.values()):
        raise Violation("tids-consecutive-lost-tensor")
    s.nmut += 1


def op_drop_net(s, a):
    (ni,) = a
    if len(s.nets) <= 1:
        raise Reject("keep one")
    tn = s.nets.pop(ni % len(s.nets))
    shared = any(len(owners_of(s, t)) >= 1 for t in tn.tensor_map.values())
    s.rep.discard(id(tn))
    del tn
    gc.collect()
    if shared:
        s.gc_done = True
    # ids of dead networks may be re-used by new ones: forget flags of dead ids
    live = {id(n) for n in s.nets}
    s.rep &= live


def op_drop_tensor(s, a):
    (ti,) = a
    if not s.tensors:
        raise Reject("no loose tensors")
    s.tensors.pop(ti % len(s.tensors))
    gc.collect()


def op_tensor_copy(s, a):
    ti, deep = a
    t = any_tensor(s, ti)
    c = t.copy(deep=deep)
    if c.check_owners():
        raise Violation("tensor-copy-has-owners")
    add_loose(s, c)


def op_astype_conj(s, a):
    ni, what = a
    tn = pick_net(s, ni)
    if not tn.tensor_map:
        raise Reject("empty network")
    if what == 0:
        r = tn.conj()
    elif what == 1:
        r = tn.astype("complex128")
    elif what == 2:
        tn.conj_()
        r = None
    else:
        r = tn.H
    if r is not None:
        s.nets.append(r)
        if id(tn) in s.rep:
            s.rep.add(id(r))
    s.nmut += 1


def op_replace_identity(s, a):
    ni, gi = a
    tn = pick_net(s, ni)
    im, tm, mult = scan(tn)
    if any(c >= 3 for c in mult.values()) or any(tensor_has_repeat(t) for t in tn.tensor_map.values()):
        raise Reject("hyper/repeat")
    tags = sorted(tm)
    if not tags:
        raise Reject("no tags")
    tag = pick(tags, gi)
    sel = tm[tag]
    # documented domain: the selected region must have exactly two dangling bonds of equal size to the rest
    cnt = collections.Counter()
    for tid in sel:
        for ix in tn.tensor_map[tid].inds:
            cnt[ix] += 1
    dangling = [ix for ix, c in cnt.items() if c == 1]
    if len(dangling) != 2 or tn.ind_size(dangling[0]) != tn.ind_size(dangling[1]):
        raise Reject("region is not a two-leg operator")
    if not all(mult[ix] == 2 for ix in dangling):
        raise Reject("legs must be bonds")
    for tid in sel:
        touch(s, tn.tensor_map[tid])
    tn.replace_with_identity(tag, inplace=True)


def op_remove_all(s, a):
    """empty a network (the tensors stay alive in the loose pool) - later rules refill it"""
    (ni,) = a
    tn = pick_net(s, ni)
    ts = list(tn.tensor_map.values())
    for t in ts:
        touch(s, t)
    tn.remove_all_tensors()
    if tn.tensor_map or tn.ind_map or tn.tag_map or tn.outer_inds() or tn.inner_inds():
        raise Violation("remove-all-left-something")
    for t in ts:
        add_loose(s, t)


def op_mangle_inner(s, a):
    ni, how = a
    tn = pick_net(s, ni)
    if any(tensor_has_repeat(t) for t in tn.tensor_map.values()):
        raise Reject("repeated labels")
    before_outer = set(tn.outer_inds())
    for ix in tn.inner_inds():
        for tid in tn.ind_map[ix]:
            touch(s, tn.tensor_map[tid])
    tn.mangle_inner_()
    if set(tn.outer_inds()) != before_outer and id(tn) not in s.rep:
        raise Violation("mangle-inner-renamed-outer")


def op_insert_operator(s, a):
    ni, li, seed, inplace = a
    tn = pick_net(s, ni)
    im, tm, mult = scan(tn)
    bonds = sorted(ix for ix, c in mult.items() if c == 2 and len(im[ix]) == 2)
    if not bonds:
        raise Reject("no bonds")
    ix = pick(bonds, li)
    t1, t2 = sorted(im[ix])
    if len(tn.tensor_map[t1].bonds(tn.tensor_map[t2])) != 1:
        raise Reject("multibond")
    d = tn.ind_size(ix)
    A_ = np.random.default_rng(seed).normal(size=(d, d))
    touch(s, tn.tensor_map[t1])
    touch(s, tn.tensor_map[t2])
    n0 = tn.num_tensors
    tag1, tag2 = unique_tag(tn, t1), unique_tag(tn, t2)
    if inplace:
        tn.insert_operator_(A_, tag1, tag2, tags="OPR")
        r = tn
    else:
        r = tn.insert_operator(A_, tag1, tag2, tags="OPR")
        s.nets.append(r)
        if id(tn) in s.rep:
            s.rep.add(id(r))
    if r.num_tensors != n0 + 1:
        raise Violation("insert-operator-count")


def op_rank_simplify(s, a):
    ni, inplace = a
    tn = pick_net(s, ni)
    im, tm, mult = scan(tn)
    if any(c >= 3 for c in mult.values()) or any(tensor_has_repeat(t) for t in tn.tensor_map.values()):
        raise Reject("hyper/repeat")
    if any(len(owners_of(s, t)) >= 2 for t in tn.tensor_map.values()) and inplace:
        s.shared_touch = True
    outer = set(ix for ix, c in mult.items() if c == 1)
    s.nmut += 1
    if inplace:
        tn.rank_simplify_()
        r = tn
    else:
        r = tn.rank_simplify()
        s.nets.append(r)
    if set(r.outer_inds()) != outer:
        raise Violation("rank-simplify-changed-outer")


def op_randomize(s, a):
    ni, seed = a
    tn = pick_net(s, ni)
    if not tn.tensor_map:
        raise Reject("empty")
    s.nmut += 1
    tn.randomize_(seed=seed % 1000)


OPS = {
    "new_tensor": (tensor_spec, op_new_tensor),
    "new_tensor_rep": (tensor_spec_rep, op_new_tensor_rep),
    "new_network": (st.tuples(st.lists(I, max_size=4), B), op_new_network),
    "add_tensor": (st.tuples(I, I, B, st.integers(0, 3)), op_add_tensor),
    "combine": (st.tuples(I, I, st.integers(0, 5), B), op_combine),
    "pop": (st.tuples(I, I, B), op_pop),
    "delete": (st.tuples(I, I, B, B), op_delete),
    "setitem": (st.tuples(I, I, tensor_spec), op_setitem),
    "reindex_tensor": (st.tuples(I, I, I, B), op_reindex_tensor),
    "reindex_tensor_merge": (st.tuples(I, I, I), op_reindex_tensor_merge),
    "reindex_swap": (st.tuples(I, I, I, B, I), op_reindex_swap),
    "reindex_net": (st.tuples(I, I, I, B), op_reindex_net),
    "retag_tensor": (st.tuples(I, I, I), op_retag_tensor),
    "retag_net": (st.tuples(I, I, I, B), op_retag_net),
    "add_tag": (st.tuples(I, I, I, I, st.integers(0, 2)), op_add_tag),
    "drop_tags": (st.tuples(I, I, st.integers(0, 2)), op_drop_tags),
    "modify": (st.tuples(I, st.integers(0, 4), I, I), op_modify),
    "isel": (st.tuples(I, I, st.integers(0, 1), B), op_isel),
    "squeeze": (st.tuples(I, st.integers(0, 1), B, B), op_squeeze),
    "new_ind": (st.tuples(I, I, I, st.integers(0, 2)), op_new_ind),
    "fuse": (st.tuples(I, st.integers(0, 1), I, I), op_fuse),
    "split": (st.tuples(I, I, I, I), op_split),
    "contract": (st.tuples(I, st.integers(0, 2), I, I), op_contract),
    "gate": (st.tuples(I, I, I, I), op_gate),
    "cut_bond": (st.tuples(I, I), op_cut_bond),
    "select": (st.tuples(I, I, I, B, st.integers(0, 3)), op_select),
    "copy": (st.tuples(I, st.integers(0, 5)), op_copy),
    "churn_views": (st.tuples(I, I, I, I), op_churn_views),
    "tids_consecutive": (st.tuples(I, I), op_tids_consecutive),
    "drop_net": (st.tuples(I), op_drop_net),
    "drop_tensor": (st.tuples(I), op_drop_tensor),
    "tensor_copy": (st.tuples(I, B), op_tensor_copy),
    "astype_conj": (st.tuples(I, st.integers(0, 3)), op_astype_conj),
    "replace_identity": (st.tuples(I, I), op_replace_identity),
    "remove_all": (st.tuples(I), op_remove_all),
    "mangle_inner": (st.tuples(I, I), op_mangle_inner),
    "insert_operator": (st.tuples(I, I, I, B), op_insert_operator),
    "rank_simplify": (st.tuples(I, B), op_rank_simplify),
    "randomize": (st.tuples(I, I), op_randomize),
}

NEEDS_NET = {k for k in OPS if k not in ("new_tensor", "new_tensor_rep", "new_network", "drop_tensor", "tensor_copy")}
PRE = {k: (lambda s: len(s.nets) > 0) for k in NEEDS_NET}
PRE["new_tensor_rep"] = lambda s: s.counter % 4 == 0  # keep repeated labels a minority so most histories stay outside C02-a


def wrap(name, fn):
    def f(s, a):
        s.kinds[name] += 1
        fn(s, a)
    return f


OPS = {k: (strat, wrap(k, fn)) for k, (strat, fn) in OPS.items()}

init_strategy = st.fixed_dictionaries({
    "tensors": st.lists(tensor_spec, min_size=2, max_size=5),
    "nets": st.lists(st.tuples(st.lists(I, min_size=1, max_size=4), B), min_size=1, max_size=3),
})


def start(init):
    s = State()
    for spec in init["tensors"]:
        add_loose(s, new_tensor(s, spec))
    for picks, virtual in init["nets"]:
        idx = sorted({p % len(s.tensors) for p in picks})
        s.nets.append(Q().TensorNetwork([s.tensors[i] for i in idx], virtual=virtual))
    return s


def finish(s):
    nt = s.nmut >= 4 and (s.shared_touch or s.gc_done or s.rep_seen)
    cls = []
    if s.shared_touch:
        cls.append("shared-tensor-touched")
    if s.gc_done:
        cls.append("gc-of-viewing-network")
    if s.rep_seen:
        cls.append("repeated-label")
    cls += ["op=" + k for k in s.kinds]
    return {"nt": nt, "cls": cls}


SPEC = MachineSpec(init=init_strategy, start=start, ops=OPS, invariant=invariant, finish=finish,
                   max_steps=(25, 50), preconditions=PRE)

# ---------------------------------------------------------------------------
# views of the structured classes: copy(virtual=...) / select / | must really view or really copy
# ---------------------------------------------------------------------------

STRUCT = ["MPS", "MPO", "PEPS", "PEPO", "PEPS3D", "GenVec"]


@st.composite
def s_struct_views(draw, tier):
    return {"cls": draw(st.sampled_from(STRUCT)), "seed": draw(st.integers(0, 10**6)),
            "how": draw(st.sampled_from(["copy", "copy_virtual", "copy_deep", "ctor", "ctor_virtual", "select_all", "or_empty"])),
            "edit": draw(st.sampled_from(["retag", "reindex", "add_tag", "data"])), "ti": draw(I)}


def build_struct(cls, seed):
    qtn = Q()
    if cls == "MPS":
        return qtn.MPS_rand_state(4, 2, seed=seed)
    if cls == "MPO":
        return qtn.MPO_rand(4, 2, seed=seed)
    if cls == "PEPS":
        return qtn.PEPS.rand(2, 2, 2, seed=seed)
    if cls == "PEPO":
        return qtn.PEPO.rand(2, 2, 2, seed=seed)
    if cls == "PEPS3D":
        return qtn.PEPS3D.rand(2, 2, 2, 2, seed=seed)
    return qtn.TN_from_edges_rand([(0, 1), (1, 2), (2, 0)], 2, phys_dim=2, seed=seed)


def run_struct_views(case):
    qtn = Q()
    x = build_struct(case["cls"], case["seed"] % 1000)
    how = case["how"]
    if how == "copy":
        y, virtual = x.copy(), False
    elif how == "copy_virtual":
        y, virtual = x.copy(virtual=True), True
    elif how == "copy_deep":
        y, virtual = x.copy(deep=True), False
    elif how == "ctor":
        y, virtual = x.__class__(x), False
    elif how == "ctor_virtual":
        y, virtual = x.__class__(x, virtual=True), True
    elif how == "select_all":
        y, virtual = x.select(sorted(x.tag_map)[0], which="any", virtual=True), True
    else:
        y, virtual = x | qtn.TensorNetwork([]), True
    shared = [tid for tid in y.tensor_map if tid in x.tensor_map and y.tensor_map[tid] is x.tensor_map[tid]]
    if virtual and len(shared) != y.num_tensors:
        raise Violation("view-is-a-copy", cls=case["cls"], how=how)
    if not virtual and shared:
        raise Violation("copy-is-a-view", cls=case["cls"], how=how)
    # edit one tensor through x: a view must see it, a copy must not; both networks' maps must match a fresh scan
    tid = sorted(y.tensor_map)[case["ti"] % y.num_tensors]
    t = x.tensor_map[tid]
    if case["edit"] == "retag":
        t.retag_({sorted(t.tags)[0]: "EDIT"})
    elif case["edit"] == "reindex":
        t.reindex_({t.inds[0]: "edited_ix"})
    elif case["edit"] == "add_tag":
        t.add_tag("EDIT")
    else:
        t.modify(data=t.data * 2.0)
    for name, tn in (("x", x), ("y", y)):
        im, tm, mult = scan(tn)
        if {k: set(v) for k, v in tn.ind_map.items()} != im:
            raise Violation("ind_map", net=name, cls=case["cls"], how=how)
        if {k: set(v) for k, v in tn.tag_map.items()} != tm:
            raise Violation("tag_map", net=name, cls=case["cls"], how=how)
        if set(tn.outer_inds()) != {ix for ix, c in mult.items() if c == 1}:
            raise Violation("inner-outer", net=name, cls=case["cls"], how=how, repeated_history=False)
    ty = y.tensor_map[tid]
    sees = ("EDIT" in ty.tags) if case["edit"] in ("retag", "add_tag") else ("edited_ix" in ty.inds) if case["edit"] == "reindex" \
        else bool(np.allclose(ty.data, t.data))
    if sees != virtual:
        raise Violation("view-semantics", cls=case["cls"], how=how, edit=case["edit"], sees=sees)
    return {"nt": True, "cls": [case["cls"], how, case["edit"]]}


SUBCHECKS = [
    SubCheck("history", machine=SPEC, examples=(60, 1500), shards=(8, 16),
             rule="rule-based machine, fresh-scan oracle after every step; nt: >=4 mutating steps and (shared tensor touched or gc of a viewing network or repeated label)",
             soft_budget=(80.0, 900.0),
             fuzz={"instrument": ["quimb.tensor.tensor_core:Tensor", "quimb.tensor.tensor_core:TensorNetwork", "quimb.utils:oset"],
                   "shards": 8, "runs": 20000, "max_seconds": 600}),
    SubCheck("struct_views", run_struct_views, s_struct_views, examples=(250, 3000), shards=(1, 2),
             rule="MPS/MPO/PEPS/PEPO/PEPS3D/graph vectors x 7 ways of viewing or copying x an edit made through the original: a view "
                  "shares tensor objects and sees the edit, a copy does neither; both networks' maps equal a fresh scan; all nt"),
]
