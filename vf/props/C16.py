"""C16 — threaded and parallel kernels give the serial answer for every schedule.

Two exhaustive grids (the partition arithmetic; element ownership observed
through the public in-place kernel) and one narrow sub-check per threaded entry
point.  Every kernel sub-check passes ``num_threads`` / ``target_block_size``
explicitly (the worker environment pins quimb's default to one thread) and
*owns the schedule*: at run time, inside the check process, quimb's thread pool
getter is replaced by an executor that

* defers the submitted per-rank tasks and runs them in a case-chosen
  permutation (mode ``perm``), or on real threads released together by a
  barrier, started in that permutation (mode ``conc``), or hands them to
  quimb's genuine ``ThreadPoolExecutor`` (mode ``real``),
* records every exception raised inside a task (quimb's ``cf.wait`` swallows
  them) so that it becomes a violation instead of uninitialised output,
* counts submitted tasks, which is how "the threaded path was really taken" is
  established for the non-triviality rule.

Nothing in /repo is edited; all wrappers are installed and removed around the
single call under test.
"""
from __future__ import annotations

import concurrent.futures as cf
import functools
import math
import operator
import threading
import time

import numpy as np
from hypothesis import strategies as st

from ..core import EXACT32, EXACT64, HarnessError, Reject, SubCheck, Violation, rel_err

RULE = ("partition arithmetic enumerated exhaustively (size x target_block_size x num_threads) and element ownership "
        "enumerated through subtract_update_ visit counts; every threaded entry point is called with explicit "
        "num_threads (1-33, None) / target_block_size (+-1..64, defaults) on sizes 1..600 and around its default "
        "threshold, under a harness-owned executor (permuted / concurrent / genuine pool) that surfaces worker "
        "exceptions; results compared bit-for-bit with the single-threaded form and with a numpy reference; "
        "non-trivial = tasks were really submitted to a pool with >= 2 threads and (size < 2*threads or size not "
        "divisible by threads)")
ASSUMPTIONS = [
    "numpy element-wise arithmetic / np.kron / dense matmul / scipy csr->dense are the trusted references",
    "the single-threaded form of a kernel is the same public function with num_threads=1 and target_block_size>=size",
    "task-granular schedule ownership: kernels are nogil numba code, true OS-level interleavings inside a task are "
    "not controlled; disjoint write ranges are established by the two exhaustive grids",
    "a ZeroDivisionError out of threading_choose_num_blocks on the grid (targets and thread counts are non-zero) can "
    "only come from divmod(size, num_blocks) with num_blocks == 0",
    "threaded randn: slice i of the flat output is the stream of numpy Generator(SeedSequence(seed).spawn(...)[i])",
    "QUIMB_NUM_THREAD_WORKERS=k is emulated in-process by setting quimb.core._NUM_THREAD_WORKERS and the default of "
    "par_reduce (both are read from that environment variable at import)",
]


def C():
    import quimb.core as core

    return core


# ---------------------------------------------------------------------------
# schedule ownership
# ---------------------------------------------------------------------------

class _LazyFuture(cf.Future):
    """A future whose result is produced when somebody first asks for it."""

    def __init__(self, pool):
        super().__init__()
        self._vf_pool = pool

    def result(self, timeout=None):
        self._vf_pool.flush()
        return super().result(timeout)

    def exception(self, timeout=None):
        self._vf_pool.flush()
        return super().exception(timeout)


class _SchedPool(cf.Executor):
    """Deferred executor: collects the tasks of one batch, then runs them in the
    order chosen by the case (serially, or concurrently behind a barrier)."""

    def __init__(self, sched, n):
        self.sched = sched
        self._max_workers = int(n)
        self.pending = []
        self._lock = threading.RLock()

    def submit(self, fn, *a, **k):
        f = _LazyFuture(self)
        with self._lock:
            self.pending.append((f, fn, a, k))
            self.sched.submitted += 1
        return f

    def _run(self, task, i):
        f, fn, a, k = task
        if not f.set_running_or_notify_cancel():
            return
        try:
            r = fn(*a, **k)
        except BaseException as e:  # noqa - recorded and handed to the future
            self.sched.errors.append((i, type(e).__name__, str(e)[:120]))
            f.set_exception(e)
        else:
            f.set_result(r)

    def flush(self):
        with self._lock:
            tasks, self.pending = self.pending, []
        if not tasks:
            return
        order = self.sched.order(len(tasks))
        self.sched.batches.append(len(tasks))
        if self.sched.mode == "conc" and len(tasks) > 1:
            barrier = threading.Barrier(len(tasks))

            def work(i):
                try:
                    barrier.wait(timeout=30)
                except threading.BrokenBarrierError:
                    pass
                self._run(tasks[i], i)

            ths = [threading.Thread(target=work, args=(i,), daemon=True) for i in order]
            for t in ths:
                t.start()
            for t in ths:
                t.join()
        else:
            for i in order:
                self._run(tasks[i], i)

    def shutdown(self, wait=True, *, cancel_futures=False):
        self.flush()


class _RealPool(cf.Executor):
    """quimb's genuine pool; submit is wrapped only to count and to record
    exceptions raised inside the tasks."""

    def __init__(self, sched, real):
        self.sched = sched
        self.real = real
        self._max_workers = real._max_workers

    def submit(self, fn, *a, **k):
        sched = self.sched
        i = sched.submitted
        sched.submitted += 1
        errors = sched.errors
        gate = sched.gate
        # book-keeping for the structural dead-lock test: who submitted the task, who runs it, its state
        rec = sched.tasks[i] = {"state": "queued", "by": threading.get_ident(), "on": None}

        def wrapped(*a, **k):
            if gate is not None:
                gate.wait(timeout=30)
            rec["on"] = threading.get_ident()
            rec["state"] = "running"
            try:
                return fn(*a, **k)
            except BaseException as e:  # noqa
                errors.append((i, type(e).__name__, str(e)[:120]))
                raise
            finally:
                rec["state"] = "done"

        f = self.real.submit(wrapped, *a, **k)
        if gate is not None and sched.submitted >= sched.gate_after:
            gate.set()
        return f

    def __getattr__(self, name):  # stay transparent for anything else quimb may look at
        return getattr(self.real, name)


class _CFShim:
    """Stands in for the ``concurrent.futures`` module object inside quimb.core:
    ``wait`` first materialises the (generator of) submissions, lets the
    deferred pools run them in the chosen order, then really waits."""

    def __init__(self, sched):
        self._sched = sched

    def wait(self, fs, timeout=None, return_when=cf.ALL_COMPLETED):
        fs = list(fs)
        for p in list(self._sched.pools):
            p.flush()
        return cf.wait(fs, timeout, return_when)

    def __getattr__(self, name):
        return getattr(cf, name)


class Sched:
    """Context manager installing the schedule-owning executor around one call."""

    MODES = ("perm", "conc", "real")

    def __init__(self, mode="perm", oseed=0, workers=None, gate_after=None):
        assert mode in self.MODES
        self.mode = mode
        self.oseed = int(oseed)
        self.workers = workers  # emulate QUIMB_NUM_THREAD_WORKERS=workers while installed
        # mode "real" only: no task starts before `gate_after` tasks have been submitted (the schedule in which
        # the submitting thread is faster than the workers, made deterministic)
        self.gate_after = gate_after
        self.gate = None
        if gate_after is not None:
            self.gate = threading.Event()
            if gate_after <= 0:
                self.gate.set()
        self.submitted = 0
        self.errors = []
        self.batches = []
        self.pools = []
        self.tasks = {}
        self._rng = np.random.default_rng(self.oseed)
        self._saved = []

    # order of execution of one batch of n tasks
    def order(self, n):
        if self.oseed == 0:
            return list(range(n))
        if self.oseed == 1:
            return list(range(n))[::-1]
        return [int(i) for i in self._rng.permutation(n)]

    def _set(self, obj, name, val):
        self._saved.append((obj, name, getattr(obj, name)))
        setattr(obj, name, val)

    def __enter__(self):
        import quimb
        import quimb.core as core
        import quimb.gen.rand as qrand

        orig = core.get_thread_pool
        if self.workers is not None:
            self._set(core, "_NUM_THREAD_WORKERS", int(self.workers))
            self._set(qrand, "_NUM_THREAD_WORKERS", int(self.workers))
            # par_reduce(fn, seq, num_threads=_NUM_THREAD_WORKERS): the default was bound at import
            self._set(core.par_reduce, "__defaults__", (int(self.workers),))
        if self.mode == "real":
            def gtp(num_threads=None):
                return _RealPool(self, orig(num_threads))
        else:
            def gtp(num_threads=None):
                n = core._NUM_THREAD_WORKERS if num_threads is None else num_threads
                p = _SchedPool(self, n)
                self.pools.append(p)
                return p

            shim = _CFShim(self)
            self._set(core, "cf", shim)
            self._set(qrand, "wait", shim.wait)
        for mod in (core, quimb, qrand):
            self._set(mod, "get_thread_pool", gtp)
        return self

    def __exit__(self, *exc):
        for obj, name, val in reversed(self._saved):
            setattr(obj, name, val)
        self._saved = []
        for p in self.pools:
            p.flush()
        return False

    @property
    def threaded(self):
        return self.submitted > 0

    def all_workers_blocked(self, nworkers):
        """Mode "real": every one of the pool's `nworkers` workers is inside a task
        that has itself submitted tasks which are still queued.  Nobody is left to
        run the queued tasks, the running ones wait for them: no schedule can make
        progress from here (a timing-free dead-lock criterion)."""
        tasks = list(self.tasks.values())
        running = [r for r in tasks if r["state"] == "running"]
        if len(running) < nworkers:
            return False
        for r in running:
            if not any(c["state"] == "queued" and c["by"] == r["on"] for c in tasks):
                return False
        return True


def partition_zero(n, tbs, threads):
    """True when quimb's own partition function has no block for these arguments."""
    try:
        C().threading_choose_num_blocks(int(n), int(tbs), int(threads))
    except ZeroDivisionError:
        return True
    return False


def preflight(entry, n, tbs, threads):
    """Before a kernel is allowed to write through the library's partition for
    (n, tbs, threads) - and for its single-threaded form (n, tbs, 1), which is
    what the direct, pool-less call uses: the blocks must lie inside [0, n) and
    tile it.  A broken partition is reported here as a violation instead of
    letting nogil numba code write out of bounds inside the checking process
    (known-finding reproducers are replayed in the parent process)."""
    core = C()
    for th in sorted({int(threads), 1}):
        try:
            nb, base, rem = core.threading_choose_num_blocks(int(n), int(tbs), th)
        except ZeroDivisionError:
            continue  # no block at all: nothing is written; surfaces as a worker exception
        prev = 0
        ok = int(nb) == nb and nb >= 1
        if ok:
            for b in range(int(nb)):
                s, e = core.threading_get_block_range(b, base, rem)
                if s != prev or e < s:
                    ok = False
                    break
                prev = e
        if not ok or prev != n:
            raise Violation("partition-not-tiling", entry=entry, rows=int(n), tbs=int(tbs), threads=th,
                            zero_blocks=False, preflight=True)


def raise_worker_errors(sched, entry, N=None, tbs=None, threads=None, **info):
    if not sched.errors:
        return
    i, exc, msg = min(sched.errors)
    zb = False
    if exc == "ZeroDivisionError" and N is not None and tbs is not None and threads is not None:
        zb = partition_zero(N, tbs, threads)
    raise Violation("worker-exception", entry=entry, exc=exc, zero_blocks=zb, msg=msg, rows=N, tbs=tbs,
                    threads=threads, ntasks_failed=len(sched.errors), **info)


def poison_heap(nbytes, k=12):
    """Leave recently freed blocks of the size the kernel is about to allocate
    with np.empty filled with 0xFF (NaN patterns), so that an element the kernel
    never writes cannot accidentally hold the expected value from an earlier,
    freed result."""
    nbytes = int(nbytes)
    if nbytes <= 0 or nbytes > 1 << 24:
        return
    blocks = [np.empty(nbytes, dtype=np.uint8) for _ in range(k)]
    for b in blocks:
        b.fill(0xFF)
    del blocks


def _attempt(fn):
    try:
        return "ok", fn()
    except (Violation, Reject, HarnessError):
        raise
    except Exception as e:  # noqa - compared between the serial and the parallel form
        return "raise", e


def nbad(a, b):
    a = np.asarray(a)
    b = np.asarray(b)
    if a.shape != b.shape:
        return -1
    return int(np.sum(~((a == b) | ((a != a) & (b != b)))))


# ---------------------------------------------------------------------------
# 1. exhaustive grid over the partition arithmetic
# ---------------------------------------------------------------------------

POS_DEFAULTS = [128, 2**10, 2**14, 2**15]
NEG_DEFAULTS = [-1024]


def _grid_dims(tier):
    if tier == "quick":
        return 256, 64, 33
    return 768, 128, 65


def enum_partition(tier):
    smax, tmax, thmax = _grid_dims(tier)
    for threads in range(1, thmax + 1):
        for sign in (1, -1):
            # the sizes are cut into two bands so that cells of the one confirmed defect
            # (no block at all) do not share a chunk with the rest of the grid
            cut = threads // 2 if sign > 0 else 0
            yield {"threads": threads, "sign": sign, "lo": 0, "hi": cut, "tmax": tmax}
            step = 64
            for lo in range(cut + 1, smax + 1, step):
                yield {"threads": threads, "sign": sign, "lo": lo, "hi": min(lo + step - 1, smax), "tmax": tmax}


def run_partition(case):
    core = C()
    cnb, gbr = core.threading_choose_num_blocks, core.threading_get_block_range
    threads, sign = case["threads"], case["sign"]
    targets = [sign * t for t in range(1, case["tmax"] + 1)] + (POS_DEFAULTS if sign > 0 else NEG_DEFAULTS)
    cells = nt = 0
    zero, bad = [], []
    ragged = small = 0
    for n in range(case["lo"], case["hi"] + 1):
        for tb in targets:
            cells += 1
            try:
                nb, base, rem = cnb(n, tb, threads)
            except ZeroDivisionError:
                zero.append([n, tb, threads])
                continue
            nbi = int(nb)
            if nbi != nb or nbi < 1 or int(base) != base or int(rem) != rem or base < 0 or rem < 0:
                bad.append([n, tb, threads, "triple", float(nb), float(base), float(rem)])
                continue
            prev = 0
            ok = True
            for b in range(nbi):
                s, e = gbr(b, base, rem)
                if s != prev or e < s or int(s) != s or int(e) != e:
                    ok = False
                    break
                prev = e
            if not ok or prev != n:
                bad.append([n, tb, threads, "tiling", nbi, float(base), float(rem)])
                continue
            if threads >= 2 and n >= 1 and (n < 2 * threads or n % nbi != 0):
                nt += 1
                if n < 2 * threads:
                    small += 1
                else:
                    ragged += 1
    if bad:
        raise Violation("partition-not-tiling", ncells=len(bad), first=bad[0], zero_blocks=False)
    if zero:
        raise Violation("partition-raises", exc="ZeroDivisionError", zero_blocks=True, ncells=len(zero), first=zero[0],
                        size_zero_only=all(z[0] == 0 for z in zero), sign=sign)
    return {"n": cells, "nt_n": nt, "nt": nt > 0, "err": 0.0,
            "cls": ["sign=%+d" % sign, "threads=%s" % _tbucket(threads)]}


def _tbucket(t):
    if t is None:
        return "None"
    if t == 1:
        return "1"
    if t <= 4:
        return "2-4"
    if t <= 8:
        return "5-8"
    if t <= 16:
        return "9-16"
    return ">16"


# ---------------------------------------------------------------------------
# 2. exhaustive ownership grid through the public in-place kernel
# ---------------------------------------------------------------------------

def enum_ownership(tier):
    if tier == "quick":
        smax, tmax, thmax = 48, 8, 17
    else:
        smax, tmax, thmax = 128, 16, 33
    for threads in range(1, thmax + 1):
        for sign in (1, -1):
            cut = threads // 2 if sign > 0 else 0
            for ndim in (1, 2):
                yield {"threads": threads, "sign": sign, "lo": 0, "hi": cut, "tmax": tmax, "ndim": ndim}
                yield {"threads": threads, "sign": sign, "lo": cut + 1, "hi": smax, "tmax": tmax, "ndim": ndim}


def run_ownership(case):
    """X=0, Y=1, c=-1: after ``subtract_update_`` X[i] is the number of times
    element i was processed.  Must be exactly 1 everywhere."""
    core = C()
    threads, sign, ndim = case["threads"], case["sign"], case["ndim"]
    targets = [sign * t for t in range(1, case["tmax"] + 1)]
    cells = nt = thr = 0
    for n in range(case["lo"], case["hi"] + 1):
        shape = (n,) if ndim == 1 else (n, 2)
        for tb in targets:
            cells += 1
            X = np.zeros(shape)
            Y = np.ones(shape)
            # schedule: a deterministic function of the cell
            oseed = (n * 131 + abs(tb) * 17 + threads) % 5
            preflight("subtract_update_", n, tb, threads)
            with Sched("perm", oseed) as sc:
                core.subtract_update_(X, -1.0, Y, num_threads=threads, target_block_size=tb)
            raise_worker_errors(sc, "subtract_update_", N=n, tbs=tb, threads=threads, ndim=ndim)
            if not np.array_equal(X, np.ones(shape)):
                v = X.reshape(n, -1)[:, 0]
                raise Violation("ownership", entry="subtract_update_", rows=n, tbs=tb, threads=threads, ndim=ndim,
                                missed=int(np.sum(v == 0)), repeated=int(np.sum(v > 1)), zero_blocks=False)
            if sc.threaded:
                thr += 1
                if threads >= 2 and (n < 2 * threads or n % threads != 0):
                    nt += 1
    return {"n": cells, "nt_n": nt, "nt": nt > 0, "err": 0.0,
            "cls": ["sign=%+d" % sign, "ndim=%d" % ndim, "threads=%s" % _tbucket(threads),
                    "threaded-cells>=90%" if thr >= 0.9 * cells else "threaded-cells>=50%" if thr >= 0.5 * cells
                    else "threaded-cells<50%"]}


# ---------------------------------------------------------------------------
# 3. kernels
# ---------------------------------------------------------------------------

FLOATS = ("float64", "float32")
ALL4 = ("float64", "complex128", "float32", "complex64")


def _arr(rng, shape, dtype):
    """Entries with modulus in [0.5, 1.5] per component: never zero, never equal
    to an 0xFF.. / zero-page pattern."""
    dt = np.dtype(dtype)

    def part():
        return rng.uniform(0.5, 1.5, size=shape) * rng.choice([-1.0, 1.0], size=shape)

    x = part()
    if dt.kind == "c":
        x = x + 1j * part()
    return np.ascontiguousarray(np.asarray(x).astype(dt))


def _common(*dts):
    cplx = any(np.dtype(d).kind == "c" for d in dts)
    dbl = any(np.dtype(d).name in ("float64", "complex128") for d in dts)
    return np.dtype({(0, 0): "float32", (0, 1): "float64", (1, 0): "complex64", (1, 1): "complex128"}[cplx, dbl])


def _single(*dts):
    return not any(np.dtype(d).name in ("float64", "complex128") for d in dts)


class K:
    """One concrete kernel invocation: how to call it, its reference, sizes."""

    def __init__(self, entry, rows, size_total, call, ref, inputs, res_nbytes, tol, exact_ref=False, mag=1.0):
        self.entry = entry
        self.rows = int(rows)  # what the kernel partitions
        self.size_total = int(size_total)  # what maybe_multithread compares with the target
        self.call = call  # call(kw) -> result array
        self.ref = ref  # () -> numpy reference
        self.inputs = inputs
        self.res_nbytes = res_nbytes
        self.tol = tol
        self.exact_ref = exact_ref
        self.mag = mag
        self.may_reject = False  # input outside the documented domain: only "same accept/reject" is demanded


def k_complex_array(case, rng):
    n = case["n"]
    dt = FLOATS[case["dt"] % 2]
    x, y = _arr(rng, n, dt), _arr(rng, n, dt)
    odt = np.dtype("complex64" if dt == "float32" else "complex128")

    def ref():
        r = np.empty(n, odt)
        r.real, r.imag = x, y
        return r

    return K("complex_array", n, n, lambda kw: C().complex_array(x, y, **kw), ref, [x, y], n * odt.itemsize, 0.0, True)


def k_phase_to_complex(case, rng):
    n = case["n"]
    dt = FLOATS[case["dt"] % 2]
    shape = (n,)
    if case["variant"] % 3 == 1 and n % 2 == 0:
        shape = (n // 2, 2)
    elif case["variant"] % 3 == 2 and n % 3 == 0:
        shape = (3, n // 3)
    x = (rng.uniform(-7.0, 7.0, size=shape)).astype(dt)
    x[np.abs(x) < 0.05] = 0.5
    odt = np.dtype("complex64" if dt == "float32" else "complex128")

    def ref():
        r = np.empty(shape, odt)
        r.real, r.imag = np.cos(x), np.sin(x)
        return r

    return K("phase_to_complex", n, n, lambda kw: C().phase_to_complex(x, **kw), ref, [x], n * odt.itemsize,
             EXACT32 if dt == "float32" else EXACT64, mag=math.sqrt(n))


def _scalar(case, rng, cplx):
    c = float(rng.uniform(0.5, 2.0)) * (-1.0 if case["variant"] % 2 else 1.0)
    if cplx and case["variant"] % 4 >= 2:
        c = complex(c, float(rng.uniform(0.5, 2.0)))
    return c


def k_subtract_update(case, rng):
    n, m = case["n"], case["m"]
    dt = ALL4[case["dt"] % 4]
    shape = (n,) if case["variant"] % 8 < 4 else (n, m)
    X0, Y = _arr(rng, shape, dt), _arr(rng, shape, dt)
    c = _scalar(case, rng, np.dtype(dt).kind == "c")

    def call(kw):
        X = X0.copy()
        C().subtract_update_(X, c, Y, **kw)
        return X

    return K("subtract_update_", n, n, call, lambda: (X0.astype(_common(dt, "float64")) - c * Y.astype(_common(dt, "float64"))),
             [X0, Y], 0, EXACT32 if _single(dt) else EXACT64, mag=float(np.linalg.norm(X0)) + abs(c) * float(np.linalg.norm(Y)))


def k_divide_update(case, rng):
    n, m = case["n"], case["m"]
    dt = ALL4[case["dt"] % 4]
    shape = (n,) if case["variant"] % 8 < 4 else (n, m)
    X = _arr(rng, shape, dt)
    c = _scalar(case, rng, np.dtype(dt).kind == "c")

    def call(kw):
        out = np.full(shape, np.nan, dtype=dt)  # pre-poisoned output buffer
        C().divide_update_(X, c, out, **kw)
        return out

    return K("divide_update_", n, n, call, lambda: X.astype(_common(dt, "float64")) / c, [X], 0,
             EXACT32 if _single(dt) else EXACT64, mag=float(np.linalg.norm(X)) / abs(c))


def _csr(rng, n, dt, variant):
    import scipy.sparse as sp

    if n > 64:
        # ~6 entries per row at distinct positions, built from coordinates (never an n x n dense array)
        flat = np.unique(rng.integers(0, n * n, size=6 * n))
        r, c = flat // n, flat % n
        if variant % 5 == 1:
            keep = r != int(rng.integers(n))  # an empty row
            r, c = r[keep], c[keep]
        if variant % 5 == 2:
            r = c = np.arange(n)  # diagonal
        A = sp.csr_matrix((_arr(rng, len(r), dt), (r, c)), shape=(n, n))
    else:
        dens = [0.0, 0.15, 0.5, 1.0][variant % 4]
        mask = rng.random((n, n)) < dens
        if variant % 5 == 1 and n > 1:
            mask[rng.integers(n)] = False  # an empty row
        if variant % 5 == 2:
            mask[:, :] = np.eye(n, dtype=bool)
        A = sp.csr_matrix(_arr(rng, (n, n), dt) * mask)
    A.sort_indices()
    return A


def k_csr_matvec(case, rng):
    n = case["n"]
    dta = ALL4[case["dt"] % 4]
    dtx = ALL4[case["dt2"] % 4]
    A = _csr(rng, n, dta, case["variant"])
    col = case["variant"] % 3 == 1
    block = case["variant"] % 11 == 5  # (n, 2): not a vector - the threaded and the serial form must refuse alike
    x = _arr(rng, (n, 2) if block else (n, 1) if col else (n,), dtx)
    if case["variant"] % 7 == 3:
        x = C().qarray(x)
    odt = _common(dta, dtx)
    data0, ip0, ix0 = A.data.copy(), A.indptr.copy(), A.indices.copy()

    def call(kw):
        return C().par_dot_csr_matvec(A, x, **kw)

    def ref():
        if not (np.array_equal(A.data, data0) and np.array_equal(A.indptr, ip0) and np.array_equal(A.indices, ix0)):
            raise Violation("input-modified", entry="par_dot_csr_matvec")
        # row sums of data * x[col], by numpy (independent of scipy's and quimb's matvec)
        rows = np.repeat(np.arange(n), np.diff(A.indptr))
        xv = np.asarray(x, dtype=np.complex128).reshape(n, -1)
        y = np.zeros(xv.shape, dtype=np.complex128)
        np.add.at(y, rows, A.data.astype(np.complex128)[:, None] * xv[A.indices])
        return y.reshape(x.shape)

    mag = float(np.linalg.norm(A.data)) * float(np.linalg.norm(x)) if A.nnz else float(np.linalg.norm(x))
    k = K("par_dot_csr_matvec", n, n, call, ref, [x], n * odt.itemsize, (EXACT32 if _single(dta, dtx) else EXACT64) * 10,
          mag=mag)
    k.may_reject = block
    return k


def k_ldmul(case, rng):
    n, m = case["n"], case["m"]
    dtd, dtm = ALL4[case["dt"] % 4], ALL4[case["dt2"] % 4]
    d = _arr(rng, (n, 1) if case["variant"] % 2 else (n,), dtd)
    M = _arr(rng, (n, m), dtm)
    odt = _common(dtd, dtm)
    return K("l_diag_dot_dense", n, n, lambda kw: C().l_diag_dot_dense(d, M, **kw),
             lambda: d.reshape(n, 1).astype(np.complex128) * M, [d, M], n * m * odt.itemsize,
             EXACT32 if _single(dtd, dtm) else EXACT64, mag=float(np.linalg.norm(M)) * 1.5 * math.sqrt(2))


def k_rdmul(case, rng):
    n, m = case["n"], case["m"]
    dtd, dtm = ALL4[case["dt"] % 4], ALL4[case["dt2"] % 4]
    d = _arr(rng, (m,), dtd)
    M = _arr(rng, (n, m), dtm)
    odt = _common(dtd, dtm)
    # the kernel partitions the n rows, the dispatcher compares the m columns with the target
    return K("r_diag_dot_dense", n, m, lambda kw: C().r_diag_dot_dense(M, d, **kw),
             lambda: M * d.reshape(1, m).astype(np.complex128), [d, M], n * m * odt.itemsize,
             EXACT32 if _single(dtd, dtm) else EXACT64, mag=float(np.linalg.norm(M)) * 1.5 * math.sqrt(2))


def k_outer(case, rng):
    n, m = case["n"], case["m"]
    dta, dtb = ALL4[case["dt"] % 4], ALL4[case["dt2"] % 4]
    a = _arr(rng, (n, 1) if case["variant"] % 2 else (n,), dta)
    b = _arr(rng, (1, m) if case["variant"] % 3 == 1 else (m,), dtb)
    odt = _common(dta, dtb)
    return K("outer", n, n, lambda kw: C().outer(a, b, **kw),
             lambda: np.multiply.outer(a.reshape(n).astype(np.complex128), b.reshape(m)), [a, b], n * m * odt.itemsize,
             EXACT32 if _single(dta, dtb) else EXACT64, mag=float(np.linalg.norm(a)) * float(np.linalg.norm(b)))


def _divisors(n):
    return [d for d in range(1, n + 1) if n % d == 0]


def k_kron(case, rng):
    n = case["n"]  # = rows of the product = m * p
    divs = _divisors(n)
    m = divs[case["variant"] % len(divs)]
    p = n // m
    na, q = 1 + case["m"] % 3, 1 + (case["m"] // 3) % 3
    dta, dtb = ALL4[case["dt"] % 4], ALL4[case["dt2"] % 4]
    a, b = _arr(rng, (m, na), dta), _arr(rng, (p, q), dtb)
    odt = _common(dta, dtb)
    return K("kron_dense", n, n, lambda kw: C().kron_dense(a, b, **kw),
             lambda: np.kron(a.astype(np.complex128), b), [a, b], n * na * q * odt.itemsize,
             EXACT32 if _single(dta, dtb) else EXACT64, mag=float(np.linalg.norm(a)) * float(np.linalg.norm(b)))


KERNELS = {
    # name: (builder, default target_block_size, two-dimensional second extent range, dtype pairs matter)
    "complex_array": (k_complex_array, 2**15, False),
    "phase_to_complex": (k_phase_to_complex, 2**10, False),
    "subtract_update": (k_subtract_update, 2**14, True),
    "divide_update": (k_divide_update, 2**14, True),
    "csr_matvec": (k_csr_matvec, -1024, False),
    "ldmul": (k_ldmul, 128, True),
    "rdmul": (k_rdmul, 128, True),
    "outer": (k_outer, 128, True),
    "kron_dense": (k_kron, 128, True),
}

# Hypothesis would otherwise try every dtype pair for the 2-array kernels; each new pair is a
# numba compilation.  (dt, dt2) index pairs actually generated:
DT_PAIRS = [(0, 0), (1, 1), (2, 2), (3, 3), (0, 1), (1, 0), (2, 3), (2, 0), (3, 1)]


def s_kernel(name):
    builder, thr, twod = KERNELS[name]

    @st.composite
    def strat(draw, tier):
        big = tier != "quick"
        regime = draw(st.sampled_from(["tiny"] * 5 + ["mid"] * 3 + ["thresh"] * 2 + (["big"] if big else [])))
        m = draw(st.integers(1, 6))
        # ~1 case in 10 is *constructed* inside the one confirmed defect class (positive target below the size,
        # rows <= threads/2: no block at all); everything else is constructed outside it, so that the
        # search behind the known finding keeps its budget
        if draw(st.sampled_from([True] + [False] * 9)):
            regime = "noblock"
            threads = draw(st.integers(4, 33))
            n = draw(st.integers(2, threads // 2))
            tbs = draw(st.integers(1, n - 1))
            if name == "rdmul":
                n, m = draw(st.integers(1, threads // 2)), draw(st.integers(tbs + 1, tbs + 8))
        elif regime == "tiny":
            threads = draw(st.one_of(st.integers(1, 33), st.sampled_from([2, 3, 4, 8, 16, 33])))
            tbs = draw(st.integers(1, 8)) * draw(st.sampled_from([1, 1, -1]))
            lo = 1 if tbs < 0 else threads // 2 + 1
            n = draw(st.integers(lo, lo + 47))
            if name == "rdmul":
                m = draw(st.integers(1, 12))
        elif regime == "mid":
            threads = draw(st.integers(2, 17))
            tbs = draw(st.integers(1, 64)) * draw(st.sampled_from([1, 1, -1]))
            n = draw(st.integers(threads // 2 + 1, 600))
            if name == "rdmul":
                m = draw(st.integers(1, 80))
        elif regime == "thresh":
            threads = draw(st.sampled_from([None, 2, 2, 3, 4, 5, 7, 8, 9]))
            tbs = None
            if thr > 0:
                n = thr + draw(st.integers(-3, 40))
            else:
                n = draw(st.sampled_from([1, 1, 2, 3])) * (-thr) + draw(st.integers(-3, 40))
            m = draw(st.integers(1, 3))
            if name == "rdmul":
                # the dispatcher looks at the number of columns: columns at the threshold, rows outside the
                # no-block class
                n, m = draw(st.integers(5, 40)), n
        else:
            threads = draw(st.integers(2, 33))
            tbs = draw(st.sampled_from([None, None, 1000, -1000, -64]))
            n = draw(st.integers(2**12, 2**17 if not twod and name != "csr_matvec" else 2**14))
            m = draw(st.integers(1, 2))
        dt, dt2 = draw(st.sampled_from(DT_PAIRS))
        return {"kernel": name, "regime": regime, "n": n, "m": m, "threads": threads, "tbs": tbs, "dt": dt, "dt2": dt2,
                "variant": draw(st.integers(0, 839)), "seed": draw(st.integers(0, 2**31 - 1)),
                "mode": draw(st.sampled_from(["perm", "perm", "conc", "real"])),
                "oseed": draw(st.one_of(st.sampled_from([0, 1]), st.integers(2, 10**6)))}

    return strat


def run_kernel(case):
    name = case["kernel"]
    builder, thr, twod = KERNELS[name]
    rng = np.random.default_rng(case["seed"])
    k = builder(case, rng)
    threads, tbs = case["threads"], case["tbs"]
    kw = {}
    if threads is not None:
        kw["num_threads"] = threads
    if tbs is not None:
        kw["target_block_size"] = tbs
    eff_threads = 1 if threads is None else threads  # the worker environment pins the default to 1
    eff_tbs = thr if tbs is None else tbs
    saved = [np.array(x, copy=True) for x in k.inputs]
    preflight(k.entry, k.rows, eff_tbs, eff_threads)
    poison_heap(k.res_nbytes)
    serial_kw = {"num_threads": 1, "target_block_size": max(k.size_total, 1)}
    if k.may_reject:
        with Sched(case["mode"], case["oseed"]) as sc:
            t_stat, got = _attempt(lambda: k.call(kw))
        s_stat, serial = _attempt(lambda: k.call(serial_kw))
        if t_stat != s_stat or (t_stat == "raise" and type(got) is not type(serial)):
            raise Violation("accept-mismatch", entry=k.entry, threaded=[t_stat, type(got).__name__],
                            serial=[s_stat, type(serial).__name__])
        if t_stat == "raise":
            raise Reject("both forms reject: %s" % type(got).__name__)
    else:
        with Sched(case["mode"], case["oseed"]) as sc:
            got = k.call(kw)
    raise_worker_errors(sc, k.entry, N=k.rows, tbs=eff_tbs, threads=eff_threads)
    # the single-threaded form: same public function, one thread, no pool
    serial = k.call(serial_kw)
    for x, s in zip(k.inputs, saved):
        if nbad(np.asarray(x), s) != 0:
            raise Violation("input-modified", entry=k.entry)
    if type(got) is not type(serial):
        raise Violation("result-type", entry=k.entry, got=type(got).__name__, want=type(serial).__name__, threaded=sc.threaded)
    got, serial = np.asarray(got), np.asarray(serial)
    if got.shape != serial.shape or got.dtype != serial.dtype:
        raise Violation("result-shape", entry=k.entry, got=[list(got.shape), str(got.dtype)],
                        want=[list(serial.shape), str(serial.dtype)], threaded=sc.threaded)
    nb = nbad(got, serial)
    if nb != 0:
        raise Violation("differs-from-serial", entry=k.entry, nbad=nb, size=int(got.size), threaded=sc.threaded,
                        rows=k.rows, threads=eff_threads, tbs=eff_tbs, mode=case["mode"])
    ref = np.asarray(k.ref())
    if ref.shape != got.shape:
        raise Violation("result-shape", entry=k.entry, got=list(got.shape), want=list(ref.shape), threaded=sc.threaded)
    if k.exact_ref:
        nb = nbad(got, ref.astype(got.dtype))
        err = 0.0
        if nb:
            raise Violation("differs-from-numpy", entry=k.entry, nbad=nb, threaded=sc.threaded)
    else:
        err = rel_err(got, ref, floor=k.mag)
        if not err <= k.tol:
            raise Violation("differs-from-numpy", entry=k.entry, err=err, tol=k.tol, threaded=sc.threaded)
    n = k.rows
    small, ragged = n < 2 * eff_threads, n % max(eff_threads, 1) != 0
    nt = sc.threaded and eff_threads >= 2 and (small or ragged)
    cls = ["threaded" if sc.threaded else "serial-path", "regime=" + case["regime"], "mode=" + case["mode"],
           "threads=" + _tbucket(threads), "tbs=" + ("default" if tbs is None else "+" if tbs > 0 else "-"),
           "dtype=" + str(got.dtype)]
    if sc.threaded:
        if n < eff_threads:
            cls.append("rows<threads")
        elif small:
            cls.append("rows<2threads")
        if ragged:
            cls.append("ragged")
        cls.append("order=" + ("fwd" if case["oseed"] == 0 else "rev" if case["oseed"] == 1 else "rand"))
    return {"nt": bool(nt), "cls": cls, "err": err}


# ---------------------------------------------------------------------------
# 4. parallel reduction
# ---------------------------------------------------------------------------

@st.composite
def s_par_reduce(draw, tier):
    k = draw(st.integers(1, 9 if tier == "quick" else 17))
    return {"k": k, "threads": draw(st.sampled_from([1, 2, 2, 3, 4, 5, 8])),
            "op": draw(st.sampled_from(["concat", "matmul", "kron", "kron", "kron_api", "kron_api_sparse"])),
            "dims": [[draw(st.integers(1, 3)), draw(st.integers(1, 3))] for _ in range(k)],
            "kind": draw(st.sampled_from(["int", "gauss"])), "gen": draw(st.booleans()),
            "seed": draw(st.integers(0, 2**31 - 1)), "mode": draw(st.sampled_from(["perm", "perm", "conc", "real"])),
            "oseed": draw(st.one_of(st.sampled_from([0, 1]), st.integers(2, 10**6)))}


def _reduce_ops(case, rng):
    """Operands whose full product has <= 128 rows and columns, so that the
    pairwise dense products never start a *nested* threaded kernel (that
    situation is sub-check par_reduce_nested)."""
    ops, R, Cc = [], 1, 1
    for r, c in case["dims"]:
        if R * r > 128:
            r = 1
        if Cc * c > 128:
            c = 1
        R, Cc = R * r, Cc * c
        if case["kind"] == "int":
            ops.append(rng.integers(-2, 3, size=(r, c)).astype(float))
        else:
            ops.append(_arr(rng, (r, c), "complex128"))
    return ops


def run_par_reduce(case):
    import scipy.sparse as sp
    import quimb as qu

    core = C()
    rng = np.random.default_rng(case["seed"])
    k, t, op = case["k"], case["threads"], case["op"]
    exact = True
    api = op.startswith("kron_api")
    if op == "concat":
        seq = [(i,) for i in range(k)]
        fn = operator.add
        ref = tuple(range(k))
    elif op == "matmul":
        seq = [rng.integers(-2, 3, size=(2, 2)).astype(float) for _ in range(k)]
        fn = operator.matmul
        ref = functools.reduce(operator.matmul, seq)
    else:
        seq = _reduce_ops(case, rng)
        ref = functools.reduce(np.kron, seq)
        exact = case["kind"] == "int"
        fn = functools.partial(core.kron_dispatch, stype=None)
        for r in sorted({1, 2, 3, int(ref.shape[0])}):
            preflight("kron_dense", r, 128, 1)
        if op == "kron_api_sparse":
            seq = [sp.csr_matrix(x) if i % 2 == 0 else x for i, x in enumerate(seq)]
    with Sched(case["mode"], case["oseed"], workers=t if api else None) as sc:
        if api:
            got = qu.kron(*seq, parallel=True)
        else:
            got = core.par_reduce(fn, (x for x in seq) if case["gen"] else seq, num_threads=t)
    raise_worker_errors(sc, "par_reduce", op=op)
    if op == "concat":
        if got != ref:
            raise Violation("reduce-order", op=op, k=k, threads=t, got=list(got), threaded=sc.threaded)
        err = 0.0
    else:
        g = got.toarray() if sp.issparse(got) else np.asarray(got)
        if api:
            serial = qu.kron(*seq)
            sg = serial.toarray() if sp.issparse(serial) else np.asarray(serial)
            if sp.issparse(got) != sp.issparse(serial) or g.shape != sg.shape:
                raise Violation("result-type", entry="kron(parallel=True)", got=type(got).__name__, want=type(serial).__name__)
        if g.shape != ref.shape:
            raise Violation("result-shape", entry="par_reduce", op=op, got=list(g.shape), want=list(ref.shape), k=k, threads=t)
        if exact:
            err = 0.0
            if nbad(g.astype(np.complex128), ref.astype(np.complex128)):
                raise Violation("reduce-value", op=op, k=k, threads=t, threaded=sc.threaded, exact=True)
        else:
            err = rel_err(g, ref, floor=float(np.prod([np.linalg.norm(np.asarray(x.toarray() if sp.issparse(x) else x)) for x in seq])))
            if not err <= EXACT64:
                raise Violation("reduce-value", op=op, k=k, threads=t, threaded=sc.threaded, err=err)
    return {"nt": sc.threaded and t >= 2, "err": err,
            "cls": ["op=" + op, "threaded" if sc.threaded else "serial-path", "k odd" if k % 2 else "k even", "k=%d" % min(k, 9),
                    "threads=" + _tbucket(t), "mode=" + case["mode"], "levels=%d" % len(sc.batches)]}


# -- nested use of the one cached pool ---------------------------------------

def _release_pool(real, n):
    """Give a dead-locked ThreadPoolExecutor extra workers so its queue drains
    (only so that the checking process itself can carry on and exit)."""
    real._max_workers += n + 2
    for _ in range(n + 2):
        real.submit(lambda: None)


@st.composite
def s_nested(draw, tier):
    # constructed: ~1 case in 6 has at least `threads` first-level products that each start their own
    # threaded kernel (the confirmed dead-lock class), the others have fewer
    dead = draw(st.sampled_from([True] + [False] * 5))
    t = draw(st.sampled_from([2, 2, 2, 3])) if dead else draw(st.sampled_from([2, 3, 4, 5, 8]))
    if dead:
        npairs = t
    else:
        npairs = draw(st.integers(0, min(t - 1, 2)))
    # small operands at the end (their pair products stay below the threshold); the full product has
    # rows**npairs rows, so it is bounded by npairs <= 3 (2.6e6 rows x 1 column) and <= 140**2 x 4 otherwise
    extra = draw(st.integers(0, 2)) if npairs <= 2 else 0
    if not dead and npairs == 0:
        extra = 2
    return {"threads": t, "npairs": npairs, "extra": extra, "rows": draw(st.integers(129, 140)),
            "route": draw(st.sampled_from(["kron", "par_reduce"])), "seed": draw(st.integers(0, 2**31 - 1))}


def run_nested(case):
    import quimb as qu

    core = C()
    rng = np.random.default_rng(case["seed"])
    t = case["threads"]
    if case["rows"] ** case["npairs"] * 2 ** case["extra"] > 3_000_000:
        raise Reject("product too large for the harness bound")
    ops = []
    for _ in range(case["npairs"]):
        ops.append(_arr(rng, (case["rows"], 1), "float64"))  # (rows x 1) kron (1 x 1): rows > 128 -> threaded kernel
        ops.append(_arr(rng, (1, 1), "float64"))
    for _ in range(case["extra"]):
        ops.append(_arr(rng, (1, 2), "float64"))
    if len(ops) < 2:
        raise Reject("needs two operands")
    for r in sorted({case["rows"], case["rows"] ** max(case["npairs"], 1), 1}):
        preflight("kron_dense", r, 128, t)
    orig = core.get_thread_pool
    box = {}
    # the schedule is owned: every first-level reduction task is submitted before the first one starts
    first_level = (len(ops) + 1) // 2 if len(ops) > 2 else 0
    sc = Sched("real", 0, workers=t, gate_after=first_level)
    dead = False
    try:
        with sc:
            def target():
                try:
                    if case["route"] == "kron":
                        box["res"] = qu.kron(*ops, parallel=True)
                    else:
                        box["res"] = core.par_reduce(functools.partial(core.kron_dispatch, stype=None), ops, num_threads=t)
                except BaseException as e:  # noqa
                    box["exc"] = e

            th = threading.Thread(target=target, daemon=True)
            th.start()
            t0 = time.time()
            while th.is_alive():
                th.join(0.02)
                if not th.is_alive():
                    break
                if sc.all_workers_blocked(t):
                    time.sleep(0.05)
                    if th.is_alive() and sc.all_workers_blocked(t):
                        dead = True
                        _release_pool(getattr(orig, "_pool"), 4 * t + 8)
                        th.join(60)
                        break
                if time.time() - t0 > 120:
                    break
            if th.is_alive():
                raise HarnessError("nested par_reduce call neither finished nor could be released")
    finally:
        # never leave quimb's cached pool in a modified state for the next case
        real = getattr(orig, "_pool", None)
        if real is not None:
            real.shutdown(wait=True)
        orig._settings = "__UNINITIALIZED__"
    nested = sc.submitted > (len(ops) + 1) // 2 if len(ops) > 2 else sc.submitted > 0
    if dead:
        raise Violation("deadlock", entry=case["route"], threads=t, blocking_pairs=case["npairs"], nested=True,
                        all_workers_blocked=case["npairs"] >= t)
    raise_worker_errors(sc, "par_reduce-nested", route=case["route"])
    if "exc" in box:
        raise box["exc"]
    ref = functools.reduce(np.kron, ops)
    got = np.asarray(box["res"])
    if got.shape != ref.shape:
        raise Violation("result-shape", entry="par_reduce-nested", got=list(got.shape), want=list(ref.shape))
    err = rel_err(got, ref, floor=float(np.prod([np.linalg.norm(x) for x in ops])))
    if not err <= EXACT64:
        raise Violation("reduce-value", op="kron-nested", threads=t, err=err)
    return {"nt": sc.threaded and case["npairs"] >= 1, "err": err,
            "cls": ["route=" + case["route"], "threads=%d" % t, "blocking_pairs=%d" % case["npairs"],
                    "nested" if nested else "not-nested", "ops=%d" % len(ops)]}


# ---------------------------------------------------------------------------
# 5. operators built from terms: parallel build / application, explicit striding
# ---------------------------------------------------------------------------

COEFFS = [1.0, -0.5, 0.25, 2.0, -1.5, 0.75, 1.0 + 0.5j, -0.5j]
FLIPS = ["x", "y", "+", "-"]
DIAGS = ["z", "n", "sz"]


@st.composite
def s_terms(draw, n, sym):
    nterms = draw(st.integers(1, 7))
    terms = []
    sites = list(range(n))
    for _ in range(nterms):
        ci = draw(st.integers(0, len(COEFFS) - 1))
        if sym == "none":
            k = draw(st.integers(1, min(3, n)))
            ss = draw(st.permutations(sites))[:k]
            ops = [[draw(st.sampled_from(FLIPS + DIAGS)), s] for s in ss]
        else:
            nd = draw(st.integers(0, min(2, n)))
            perm = draw(st.permutations(sites))
            ops = [[draw(st.sampled_from(DIAGS)), s] for s in perm[:nd]]
            rest = perm[nd:]
            if len(rest) >= 2 and (nd == 0 or draw(st.booleans())):
                if sym == "U1":
                    ops += [["+", rest[0]], ["-", rest[1]]]
                else:  # Z2: any two flips keep the parity
                    ops += [[draw(st.sampled_from(FLIPS)), rest[0]], [draw(st.sampled_from(FLIPS)), rest[1]]]
            if not ops:
                ops = [["z", sites[0]]]
        terms.append([ci, ops])
    return terms


@st.composite
def s_builder(draw, tier, what):
    n = draw(st.integers(1, 6 if tier == "quick" else 9))
    sym = draw(st.sampled_from(["none", "none", "Z2", "U1"]))
    sector = None
    if sym == "Z2":
        sector = draw(st.sampled_from(["even", "odd"]))
    elif sym == "U1":
        sector = draw(st.integers(0, n))
    case = {"n": n, "sym": sym, "sector": sector, "terms": draw(s_terms(n, sym)),
            "seed": draw(st.integers(0, 2**31 - 1)), "mode": draw(st.sampled_from(["perm", "perm", "conc", "real"])),
            "oseed": draw(st.one_of(st.sampled_from([0, 1]), st.integers(2, 10**6)))}
    if what == "stripes":
        case["world"] = draw(st.one_of(st.integers(1, 20), st.sampled_from([2, 3, 5, 16, 64, 65])))
        case["xcols"] = draw(st.sampled_from([0, 0, 1, 3]))  # 0: 1-D vector, k: (D, k) block
    else:
        case["parallel"] = draw(st.sampled_from([2, 3, 5, 16, 2, 3, 33, True]))
    if what == "coo":
        case["route"] = draw(st.sampled_from(["coo_data", "sparse_csr", "sparse_coo", "dense"]))
    if what == "matvec":
        case["route"] = draw(st.sampled_from(["matvec", "matvec", "linop"]))
        case["out"] = draw(st.sampled_from(["none", "none", "zeros", "poison"]))
        case["xcomplex"] = draw(st.booleans())
        # shape / layout / precision of the vector: 1-D, quimb ket (d, 1) as ndarray and as qarray, (d, k) block in
        # C / Fortran / transposed layout, strided 1-D view
        # (every dtype x layout x ndim is a separate numba compilation of the whole lazy matvec; the rarer layouts and
        # single precision live in their own sub-check, builder_matvec_layouts, so that they compile in parallel)
        case["xshape"] = draw(st.sampled_from(["vec", "vec", "ket", "ket_qarray", "block"]))
        case["k"] = draw(st.integers(2, 4))
        case["single"] = False
    if what == "matvec_layouts":
        case["route"] = "matvec"
        case["out"] = draw(st.sampled_from(["none", "zeros", "poison"]))
        case["xcomplex"] = draw(st.booleans())
        case["k"] = draw(st.integers(2, 4))
        case["single"] = draw(st.booleans())
        # single precision: 1-D and ket; double precision: transposed (Fortran ordered) block and strided 1-D view
        case["xshape"] = draw(st.sampled_from(["vec", "vec", "ket"] if case["single"] else ["tblock", "strided", "strided"]))
    return case


def _build_sob(case):
    import quimb.operator as qop

    kw = {}
    if case["sym"] != "none":
        kw = {"sector": case["sector"], "symmetry": case["sym"]}
    hs = qop.HilbertSpace(case["n"], **kw)
    sob = qop.SparseOperatorBuilder(hilbert_space=hs)
    for ci, ops in case["terms"]:
        sob.add_term(COEFFS[ci], *[(o, s) for o, s in ops])
    if sob.nterms == 0:
        raise Reject("all terms cancelled")
    return sob


def _triples(data, rows, cols):
    data, rows, cols = np.asarray(data), np.asarray(rows), np.asarray(cols)
    o = np.lexsort((data.imag, data.real, rows, cols))
    return data[o], rows[o], cols[o]


def _same_triples(a, b):
    return all(x.shape == y.shape and np.array_equal(x, y) for x, y in zip(_triples(*a), _triples(*b)))


def _par_threads(p):
    return 1 if p is True else int(p)  # True -> quimb's default worker count, pinned to 1 in the worker environment


def run_builder_coo(case):
    import scipy.sparse as sp

    sob = _build_sob(case)
    p = case["parallel"]
    route = case["route"]
    d0, r0, c0, D = sob.build_coo_data()
    with Sched(case["mode"], case["oseed"]) as sc:
        if route == "coo_data":
            got = sob.build_coo_data(parallel=p)
        elif route == "sparse_csr":
            got = sob.build_sparse_matrix(parallel=p)
        elif route == "sparse_coo":
            got = sob.build_sparse_matrix(parallel=p, stype="coo")
        else:
            got = sob.build_dense(parallel=p)
    raise_worker_errors(sc, "build_coo_data", route=route)
    err = 0.0
    if route == "coo_data":
        d1, r1, c1, D1 = got
        if D1 != D or not _same_triples((d0, r0, c0), (d1, r1, c1)):
            raise Violation("coo-differs", route=route, parallel=p, serial_nnz=int(len(d0)), parallel_nnz=int(len(d1)), D=int(D))
    else:
        ser = sp.coo_matrix((d0, (r0, c0)), shape=(D, D)).toarray()
        g = got.toarray() if sp.issparse(got) else np.asarray(got)
        if g.shape != ser.shape:
            raise Violation("result-shape", entry=route, got=list(g.shape), want=list(ser.shape))
        err = rel_err(g, ser, floor=float(np.linalg.norm(d0)))
        if not err <= EXACT64:
            raise Violation("coo-differs", route=route, parallel=p, err=err, D=int(D))
    w = _par_threads(p)
    return {"nt": sc.threaded and w >= 2 and (D < 2 * w or D % w != 0), "err": err,
            "cls": ["route=" + route, "sym=" + case["sym"], "parallel=" + str(p), "mode=" + case["mode"],
                    "threaded" if sc.threaded else "serial-path", "D<world" if D < w else "D>=world", "D=%d" % min(int(D), 64)]}


def run_builder_stripes(case):
    """Explicit (world_rank, world_size) striding of the numba cores: the union of
    the stripes is the serial build, stripe r only holds configurations == r
    (mod world_size), and the striped lazy matvecs sum to the serial one."""
    from quimb.operator import configcore

    sob = _build_sob(case)
    w = case["world"]
    dtype = sob.get_dtype()
    sec, sym = sob.hilbert_space.get_sector_numba(sector=None, symmetry=None)
    cm = sob.get_coupling_map(dtype=dtype, blocked=sym == 3)
    D = sob.hilbert_space.get_size(None, None)
    d0, r0, c0 = configcore.build_coo_numba_core(coupling_map=cm, sector=sec, symmetry=sym, dtype=dtype)
    order = Sched("perm", case["oseed"]).order(w)
    parts = {}
    for r in order:
        parts[r] = configcore.build_coo_numba_core(coupling_map=cm, sector=sec, symmetry=sym, dtype=dtype,
                                                   world_rank=r, world_size=w)
        if len(parts[r][2]) and not np.all(np.asarray(parts[r][2]) % w == r):
            raise Violation("stripe-ownership", world=w, rank=int(r), D=int(D))
    cat = tuple(np.concatenate([parts[r][i] for r in range(w)]) for i in range(3))
    if not _same_triples((d0, r0, c0), cat):
        raise Violation("stripes-differ", what="coo", world=w, D=int(D), serial_nnz=int(len(d0)), union_nnz=int(len(cat[0])))
    rng = np.random.default_rng(case["seed"])
    cdt = np.dtype(dtype)
    xs = (D,) if not case.get("xcols") else (D, int(case["xcols"]))
    x = _arr(rng, xs, cdt)
    y0 = np.zeros(xs, dtype=cdt)
    configcore.matvec_numba(x, y0, coupling_map=cm, sector=sec, symmetry=sym)
    acc = np.zeros(xs, dtype=cdt)
    for r in order:
        yr = np.zeros(xs, dtype=cdt)
        configcore.matvec_numba(x, yr, coupling_map=cm, sector=sec, symmetry=sym, world_rank=r, world_size=w)
        acc += yr
    err = rel_err(acc, y0, floor=float(np.linalg.norm(d0)) * float(np.linalg.norm(x)))
    if not err <= EXACT64:
        raise Violation("stripes-differ", what="matvec", world=w, D=int(D), err=err)
    return {"nt": w >= 2 and (D < 2 * w or D % w != 0), "err": err,
            "cls": ["sym=" + case["sym"], "world=" + _tbucket(w), "D<world" if D < w else "D>=world", "D=%d" % min(int(D), 64),
                    "x.ndim=%d" % len(xs)]}


def _make_x(case, rng, D, dt):
    """The vector / ket / block the operator is applied to.  The leading extent is
    always D (anything else is outside the domain: the numba kernels index rows
    without bounds checks)."""
    xs = case.get("xshape", "vec")
    k = int(case.get("k", 2))
    if xs == "vec":
        return _arr(rng, (D,), dt)
    if xs == "ket":
        return _arr(rng, (D, 1), dt)
    if xs == "ket_qarray":
        return C().qarray(_arr(rng, (D, 1), dt))
    if xs == "block":
        return _arr(rng, (D, k), dt)
    if xs == "fblock":
        return np.asfortranarray(_arr(rng, (D, k), dt))
    if xs == "tblock":
        return _arr(rng, (k, D), dt).T
    if xs == "strided":
        return _arr(rng, (2 * D,), dt)[::2]
    raise AssertionError(xs)


def run_builder_matvec(case):
    import scipy.sparse as sp

    sob = _build_sob(case)
    p = case["parallel"]
    d0, r0, c0, D = sob.build_coo_data()
    A = sp.coo_matrix((d0, (r0, c0)), shape=(D, D)).toarray()
    rng = np.random.default_rng(case["seed"])
    route, outk = case["route"], case["out"]
    xshape = case.get("xshape", "vec")
    # domain: a complex operator needs a complex vector; the LinearOperator is built with the operator's own dtype
    # and is only applied to double precision vectors of that dtype
    cplx = sob.iscomplex or (case["xcomplex"] and route == "matvec")
    single = bool(case.get("single")) and route == "matvec"
    xdt = np.dtype(("complex64" if single else "complex128") if cplx else ("float32" if single else "float64"))
    if route == "linop" and xshape == "ket_qarray":
        xshape = "ket"
        case = dict(case, xshape="ket")
    x = _make_x(case, rng, D, xdt)
    x0 = np.array(x, copy=True)
    ref = (A @ np.asarray(x, dtype=np.complex128).reshape(D, -1)).reshape(x.shape)
    floor = float(np.linalg.norm(d0)) * float(np.linalg.norm(x))
    tol = EXACT32 if single else EXACT64

    def buf():
        if outk == "none":
            return None
        return np.zeros(x.shape, dtype=xdt) if outk == "zeros" else np.full(x.shape, 7.25, dtype=xdt)

    # the single-threaded form of the very same call
    bs = buf()
    s_stat, ser = _attempt(lambda: sob.matvec(x, out=bs) if route == "matvec" else sob.aslinearoperator() @ x)
    bp = buf()
    with Sched(case["mode"], case["oseed"]) as sc:
        p_stat, got = _attempt(lambda: sob.matvec(x, out=bp, parallel=p) if route == "matvec"
                               else sob.aslinearoperator(parallel=p) @ x)
    info = dict(route=route, xshape=xshape, x_ndim=int(np.ndim(x)), parallel=p)
    # same accept / reject behaviour
    if s_stat == "ok" and p_stat == "raise":
        raise Violation("parallel-rejects", exc=type(got).__name__, msg=str(got).strip().splitlines()[0][:100], **info)
    if s_stat == "raise" and p_stat == "ok":
        raise Violation("serial-rejects", exc=type(ser).__name__, msg=str(ser).strip().splitlines()[0][:100], **info)
    if s_stat == "raise":
        raise Reject("both forms reject: %s" % type(ser).__name__)
    raise_worker_errors(sc, "matvec", route=route)
    if type(got) is not type(ser):
        raise Violation("result-type", entry="matvec", got=type(got).__name__, want=type(ser).__name__, **info)
    got, ser = np.asarray(got), np.asarray(ser)
    if route == "matvec" and bp is not None and (bp.shape != got.shape or nbad(bp, got)):
        raise Violation("out-not-filled", out=outk, **info)  # documented: "an array to store the result in"
    if got.shape != ref.shape or got.shape != ser.shape or got.dtype != ser.dtype:
        raise Violation("result-shape", entry="matvec", got=[list(got.shape), str(got.dtype)],
                        want=[list(ser.shape), str(ser.dtype)], **info)
    err = rel_err(got, ref, floor=floor)
    if not err <= tol:
        raise Violation("matvec-differs", vs="dense", out=outk, err=err, **info)
    e2 = rel_err(got, ser, floor=floor)
    if not e2 <= tol:
        raise Violation("matvec-differs", vs="serial-form", out=outk, err=e2, **info)
    if nbad(np.asarray(x), x0):
        raise Violation("input-modified", entry="matvec")
    w = _par_threads(p)
    return {"nt": sc.threaded and w >= 2 and (D < 2 * w or D % w != 0), "err": max(err, e2) * (EXACT64 / tol),
            "cls": ["route=" + route, "out=" + outk, "sym=" + case["sym"], "parallel=" + str(p), "mode=" + case["mode"],
                    "threaded" if sc.threaded else "serial-path", "D<world" if D < w else "D>=world",
                    "x=" + xdt.name, "xshape=" + xshape]}


# ---------------------------------------------------------------------------
# 6. threaded random number generation
# ---------------------------------------------------------------------------

@st.composite
def s_randn(draw, tier):
    nd = draw(st.integers(1, 3))
    shape = [draw(st.integers(0, 7) if nd > 1 else st.integers(0, 40)) for _ in range(nd)]
    if draw(st.sampled_from([False] * 9 + [True])):
        shape = [32768 + draw(st.integers(-2, 9))]
    return {"shape": shape, "int_shape": nd == 1 and draw(st.booleans()), "dtype": draw(st.sampled_from(ALL4)),
            "threads": draw(st.sampled_from([1, 2, 2, 3, 4, 5, 8, 16, 33])), "dist": draw(st.sampled_from(["normal", "uniform", "exp"])),
            "scale": draw(st.sampled_from([1.0, 1.0, 2.0, 0.5])), "loc": draw(st.sampled_from([0.0, 0.0, 0.5, -3.0])),
            "seed": draw(st.integers(0, 2**31 - 1)), "mode": draw(st.sampled_from(["perm", "perm", "conc", "real"])),
            "oseed": draw(st.one_of(st.sampled_from([0, 1]), st.integers(2, 10**6)))}


def run_randn(case):
    import quimb as qu

    shape = tuple(case["shape"])
    d = int(np.prod(shape))
    t, dt, dist, seed = case["threads"], np.dtype(case["dtype"]), case["dist"], case["seed"]
    arg = shape[0] if case["int_shape"] else shape
    kw = dict(dtype=case["dtype"], scale=case["scale"], loc=case["loc"], num_threads=t, seed=seed, dist=dist)
    sub = np.dtype("float32" if dt.name in ("float32", "complex64") else "float64")
    preflight("complex_array", d, 2**15, 1)
    poison_heap(d * sub.itemsize)
    with Sched(case["mode"], case["oseed"]) as sc:
        got = qu.randn(arg, **kw)
    raise_worker_errors(sc, "randn")
    got = np.asarray(got)
    if got.shape != shape or got.dtype != dt:
        raise Violation("result-shape", entry="randn", got=[list(got.shape), str(got.dtype)], want=[list(shape), dt.name])
    if d and not np.all(np.isfinite(got)):
        raise Violation("randn-unwritten", threads=t, d=d, nbad=int(np.sum(~np.isfinite(got))))
    # (a) the schedule must not matter: plain forward order gives the same numbers
    with Sched("perm", 0):
        again = np.asarray(qu.randn(arg, **kw))
    nb = nbad(got, again)
    if nb:
        raise Violation("randn-schedule-dependent", threads=t, d=d, nbad=nb, mode=case["mode"])
    # (b) slice i is the stream of the i-th spawned generator (and the serial form is the stream of generator 0)
    gens = [np.random.default_rng(c) for c in np.random.SeedSequence(seed).spawn(max(t, 1))]
    meth = {"normal": "standard_normal", "uniform": "random", "exp": "standard_exponential"}[dist]
    S = math.ceil(d / t) if t > 1 else d

    def create():
        out = np.empty(d, sub)
        for i, g in enumerate(gens[:max(t, 1)]):
            sl = out[i * S:(i + 1) * S]
            sl[...] = getattr(g, meth)(len(sl), dtype=sub)
        return out

    if dt.kind == "c":
        re, im = create(), create()
        ref = np.empty(d, dt)
        ref.real, ref.imag = re, im
    else:
        ref = create()
    if case["scale"] != 1.0:
        ref *= case["scale"]
    if case["loc"] != 0.0:
        ref += case["loc"]
    nb = nbad(got.reshape(-1), ref)
    if nb:
        raise Violation("randn-stream", threads=t, d=d, nbad=nb, dist=dist, dtype=dt.name)
    return {"nt": sc.threaded and t >= 2 and (d < 2 * t or d % t != 0), "err": 0.0,
            "cls": ["threaded" if sc.threaded else "serial-path", "dtype=" + dt.name, "dist=" + dist, "threads=" + _tbucket(t),
                    "mode=" + case["mode"], "d=0" if d == 0 else "d<threads" if d < t else "d>=threads", "ndim=%d" % len(shape)]}


# ---------------------------------------------------------------------------
# 7. scipy csr @ vector dispatched to the threaded kernel
# ---------------------------------------------------------------------------

@st.composite
def s_csr_dispatch(draw, tier):
    nr = draw(st.integers(2300, 3000))
    shape = draw(st.sampled_from(["square", "square", "tall"]))
    return {"nr": nr, "drop": 0 if shape == "square" else draw(st.integers(1, 900)),
            "nnz": draw(st.sampled_from([50001, 50400, 52000, 60000, 49000])), "cplx": draw(st.booleans()),
            "xshape": draw(st.sampled_from(["vec", "col", "qarray"])), "workers": draw(st.sampled_from([2, 2, 3, 4, 7, 8])),
            "seed": draw(st.integers(0, 2**31 - 1)), "mode": draw(st.sampled_from(["perm", "conc", "real"])),
            "oseed": draw(st.one_of(st.sampled_from([0, 1]), st.integers(2, 10**6)))}


def run_csr_dispatch(case):
    """``A @ x`` for a scipy csr matrix goes through quimb's wrapper of
    ``csr_matrix._matmul_vector`` which sends it to the threaded kernel when
    nnz > 50000 and more than one default worker is configured."""
    import scipy.sparse as sp

    core = C()
    rng = np.random.default_rng(case["seed"])
    nr, nc = case["nr"], case["nr"] - case["drop"]
    # exactly `nnz` distinct positions
    flat = rng.choice(nr * nc, size=case["nnz"], replace=False)
    vals = _arr(rng, (case["nnz"],), "complex128" if case["cplx"] else "float64")
    A = sp.csr_matrix((vals, (flat // nc, flat % nc)), shape=(nr, nc))
    x = _arr(rng, (nc,) if case["xshape"] == "vec" else (nc, 1), "complex128" if case["cplx"] else "float64")
    if case["xshape"] == "qarray":
        x = core.qarray(x)
    serial = A @ x  # one default worker: scipy's own routine
    preflight("csr@vec", nc, -1024, case["workers"])
    poison_heap(nc * vals.dtype.itemsize)
    rect = nr != nc
    with Sched(case["mode"], case["oseed"], workers=case["workers"]) as sc:
        try:
            got = A @ x
        except ValueError as e:
            # scipy itself notices a wrongly sized product when it reshapes the result of a column vector
            if sc.threaded and "reshape" in str(e):
                raise Violation("result-shape", entry="csr@vec", rect=rect, threaded=True, raised=str(e)[:80],
                                want=list(np.shape(serial)))
            raise
    raise_worker_errors(sc, "csr@vec", N=nc, tbs=-1024, threads=case["workers"])
    if np.shape(got) != np.shape(serial):
        raise Violation("result-shape", entry="csr@vec", got=list(np.shape(got)), want=list(np.shape(serial)), rect=rect,
                        threaded=sc.threaded)
    if type(got) is not type(serial):
        raise Violation("result-type", entry="csr@vec", got=type(got).__name__, want=type(serial).__name__)
    err = rel_err(np.asarray(got), np.asarray(serial), floor=float(np.linalg.norm(vals)) * float(np.linalg.norm(x)))
    if not err <= EXACT64:
        raise Violation("differs-from-serial", entry="csr@vec", err=err, rect=rect, threaded=sc.threaded)
    return {"nt": sc.threaded, "err": err,
            "cls": ["threaded" if sc.threaded else "serial-path", "rect" if rect else "square", "x=" + case["xshape"],
                    "workers=%d" % case["workers"], "mode=" + case["mode"]]}


def _kernel_sub(name, examples, rule):
    return SubCheck(name, run_kernel, s_kernel(name), examples=examples, shards=(1, 4), rule=rule)


SUBCHECKS = [
    SubCheck("partition_grid", run_partition, enum=enum_partition, exhaustive=True, shards=(4, 12),
             soft_budget=(200.0, 1200.0), hard_timeout=(400.0, 2400.0),
             rule="threading_choose_num_blocks x threading_get_block_range for every size 0..256 x target +-1..+-64 and the "
                  "library defaults x threads 1..33 (thorough 0..768 x +-128 x 65): returned triple integral, blocks "
                  "contiguous from 0 to size (every element in exactly one block); nt cell: threads>=2, size>=1 and "
                  "(size<2*threads or size not divisible by the block count)"),
    SubCheck("ownership_grid", run_ownership, enum=enum_ownership, exhaustive=True, shards=(2, 8),
             soft_budget=(200.0, 1200.0), hard_timeout=(400.0, 2400.0),
             rule="subtract_update_(X=0, c=-1, Y=1) for every size 0..48 x target +-1..+-8 x threads 1..17 x 1-D/2-D "
                  "(thorough 0..128 x +-16 x 33) under the permuting executor: X must be exactly 1 everywhere (each "
                  "element processed exactly once) and no task may raise; nt cell: tasks submitted, threads>=2 and "
                  "(size<2*threads or ragged)"),
    _kernel_sub("complex_array", (400, 3000), "complex_array vs x+iy, bit-for-bit; nt as RULE"),
    _kernel_sub("phase_to_complex", (350, 3000), "phase_to_complex (1-D/2-D phases) bit-for-bit vs its serial form and EXACT vs cos+i sin; nt as RULE"),
    _kernel_sub("subtract_update", (400, 3000), "subtract_update_ 1-D/2-D, real/complex scalar, in place; bit-for-bit vs serial form, EXACT vs numpy; nt as RULE"),
    _kernel_sub("divide_update", (400, 3000), "divide_update_ into a NaN-poisoned out buffer; bit-for-bit vs serial form; nt as RULE"),
    _kernel_sub("csr_matvec", (350, 3000), "par_dot_csr_matvec on square csr (empty rows, diagonal, dense), vector/column/qarray; bit-for-bit vs serial form, EXACT vs dense product; nt as RULE"),
    _kernel_sub("ldmul", (350, 3000), "l_diag_dot_dense rectangular; nt as RULE"),
    _kernel_sub("rdmul", (350, 3000), "r_diag_dot_dense rectangular (dispatcher compares columns, kernel splits rows); nt as RULE"),
    _kernel_sub("outer", (350, 3000), "outer(a, b) with ket/bra shaped inputs; nt as RULE"),
    _kernel_sub("kron_dense", (400, 3000), "kron_dense of (m x n) and (p x q) over every factorisation of the row count; nt as RULE"),
    SubCheck("par_reduce", run_par_reduce, s_par_reduce, examples=(400, 4000), shards=(1, 4),
             rule="par_reduce(fn, seq, num_threads) with tuple concatenation (order), integer matmul, kron_dispatch, and "
                  "kron(*ops, parallel=True) under an emulated worker count, 1-9 operands (product <= 128 rows: no nested "
                  "kernel threading) vs functools.reduce / np.kron; nt: tasks submitted (>= 3 operands) and threads >= 2"),
    SubCheck("par_reduce_nested", run_nested, s_nested, examples=(150, 1500), shards=(1, 4),
             rule="kron(*ops, parallel=True) / par_reduce on quimb's genuine cached pool with k default workers where the "
                  "pairwise products themselves start threaded kernels (> 128 rows): must return (dead-lock criterion, timing free: every "
                  "worker runs a task whose own sub-tasks are still queued) and equal np.kron; nt: >= 1 nested product"),
    SubCheck("builder_coo", run_builder_coo, lambda tier: s_builder(tier, "coo"), examples=(200, 2500), shards=(1, 4),
             rule="SparseOperatorBuilder.build_coo_data / build_sparse_matrix / build_dense with parallel in {2,3,5,16,33,True} "
                  "on generated term lists (no symmetry, Z2, U1 sectors, 1-6 sites): the multiset of (row, col, value) "
                  "triples equals the serial build exactly; nt: tasks submitted, world >= 2 and (D < 2*world or ragged)"),
    SubCheck("builder_stripes", run_builder_stripes, lambda tier: s_builder(tier, "stripes"), examples=(200, 2500), shards=(1, 4),
             rule="configcore.build_coo_numba_core / matvec_numba with explicit (world_rank, world_size), world 1..65 incl. "
                  "> D: union of stripes == serial, stripe r holds only configurations = r mod world, striped matvecs sum "
                  "to the serial one; nt: world >= 2 and (D < 2*world or ragged)"),
    SubCheck("builder_matvec", run_builder_matvec, lambda tier: s_builder(tier, "matvec"), examples=(200, 2500), shards=(1, 4),
             rule="SparseOperatorBuilder.matvec / aslinearoperator with parallel in {2,3,5,16,33,True}, x a 1-D vector, a (d, 1) "
                  "ket (ndarray / qarray) or a (d, k) block, out in {None, zeros, pre-filled}: same accept/reject as the "
                  "serial call, equals dense(serial build) @ x and the same call with parallel=False (value, shape, "
                  "dtype, type); nt as builder_coo"),
    SubCheck("builder_matvec_layouts", run_builder_matvec, lambda tier: s_builder(tier, "matvec_layouts"), examples=(80, 1500),
             shards=(1, 4),
             rule="as builder_matvec for float32 / complex64 vectors and kets, transposed (Fortran ordered) (d, k) blocks and "
                  "strided 1-D views, out in {None, zeros, pre-filled}; nt as builder_coo"),
    SubCheck("randn", run_randn, s_randn, examples=(300, 3000), shards=(1, 4),
             rule="randn(shape, dtype, num_threads, seed, dist, scale, loc), d = 0..40 (and around 32768), threads 1..33: "
                  "identical under every schedule, all elements written, slice i == stream of spawned generator i; nt: "
                  "tasks submitted, threads >= 2 and (d < 2*threads or ragged)"),
    SubCheck("csr_dispatch", run_csr_dispatch, s_csr_dispatch, examples=(40, 500), shards=(1, 4),
             rule="scipy csr A @ x through quimb's _matmul_vector wrapper with an emulated default worker count 2..8, "
                  "nnz on both sides of 50000, square and tall (rows > cols) matrices, vector/column/qarray: same shape, "
                  "type and value as with one worker; nt: tasks submitted"),
]
