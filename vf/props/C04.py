"""C04 — gauging, canonization and simplification preserve the denoted tensor.

Two generated families:

A. *structured hypergraph networks* (arrays constructed so that simplification
   passes really fire: diagonal / antidiagonal axis pairs, single-column axes,
   low-rank tensors, COPY tensors, all-zero tensors, size-1 bonds, hyper labels,
   an output label that is also a bond) put through composed sequences of 1-3
   local simplification passes / full_simplify strings / hyperinds_resolve.
B. *graph networks* (tree or loopy edge lists, optional dangling legs,
   multibonds, stored exponent) put through composed sequences of 1-3 gauging /
   canonization / norm / bond rewrites and untruncating compressions.

Oracle: numpy einsum of the network over the original outer (or requested
output) labels times 10**exponent, before vs after; promised forms (isometry of
tensors returned as isometric, equal norms, bond sizes not larger).
"""
from __future__ import annotations

import numpy as np
from hypothesis import strategies as st

from .. import arrays as A
from .. import gen as G
from ..core import EXACT64, INV64, Reject, SubCheck, Violation, rejecting, rel_err
from ..oracle import einsum_value, tn_tensors

RULE = ("A: 2-6 structured tensors over a pool of 8 labels (dims 1-3, hyper labels, outputs incl. a bond) x sequences of 1-3 of "
        "{rank,diagonal,antidiag,column,split,pair,loop}_simplify, full_simplify(seq from ADCRSLP, equalize_norms variants), "
        "hyperinds_resolve(dense/mps/tree), compress_simplify; B: tree/loopy graphs of 2-7 tensors (bond 1-3, multibonds, "
        "dangling legs, exponent) x sequences of 1-3 of 30 gauge/canonize/norm/bond/compress rewrites; non-trivial = >=3 tensors "
        "and the rewrite changed an array or the tensor count")
ASSUMPTIONS = [
    "numpy einsum denotation (vf.oracle.einsum_value) is trusted",
    "belief-propagation gauging only on networks where every tensor has a dangling leg (exact there)",
    "zero-norm tensors only meet norm-equalising rewrites with check_zero=True",
    "compression is always requested without truncation (max_bond=None, cutoff=0.0)",
]


def Q():
    import quimb.tensor as qtn

    return qtn


# ---------------------------------------------------------------------------
# structured arrays
# ---------------------------------------------------------------------------

KINDS = ["gauss", "gauss", "gauss", "diag", "antidiag", "column", "lowrank", "copy", "zero", "pos"]


def structured(seed, shape, kind, cplx):
    rng = np.random.default_rng(seed)
    x = rng.normal(size=shape)
    if cplx:
        x = x + 1j * rng.normal(size=shape)
    nd = len(shape)
    eq = [(i, j) for i in range(nd) for j in range(i + 1, nd) if shape[i] == shape[j] and shape[i] > 1]
    if kind == "diag" and eq:
        i, j = eq[int(rng.integers(len(eq)))]
        idx = np.indices(shape)
        x = x * (idx[i] == idx[j])
    elif kind == "antidiag" and eq:
        i, j = eq[int(rng.integers(len(eq)))]
        idx = np.indices(shape)
        x = x * (idx[i] == shape[j] - 1 - idx[j])
    elif kind == "column" and nd >= 1:
        ax = int(rng.integers(nd))
        c = int(rng.integers(shape[ax]))
        idx = np.indices(shape)
        x = x * (idx[ax] == c)
    elif kind == "lowrank" and nd >= 2:
        k = nd // 2
        a = rng.normal(size=shape[:k])
        b = rng.normal(size=shape[k:])
        x = np.multiply.outer(a, b) + (0j if cplx else 0.0)
    elif kind == "zero":
        x = x * 0
    elif kind == "copy" and nd >= 1 and len(set(shape)) == 1:
        x = np.zeros(shape, complex if cplx else float)
        for v in range(shape[0]):
            x[(v,) * nd] = 1
    elif kind == "pos":
        x = np.abs(x) + 0.1
    return np.array(x, dtype="complex128" if cplx else "float64").reshape(shape)


@st.composite
def s_simplify(draw, tier):
    n = draw(st.integers(2, 6))
    pool = list("abcdefgh")
    sizes = {l: draw(st.sampled_from([1, 2, 2, 3])) for l in pool}
    hyper = draw(st.booleans())
    count = {l: 0 for l in pool}
    tensors = []
    cplx = draw(st.booleans())
    for i in range(n):
        r = draw(st.integers(1, 3))
        inds = []
        for _ in range(r):
            cands = [l for l in pool if (hyper or count[l] < 2) and l not in inds]
            if not cands:
                break
            used = [l for l in cands if count[l] == 1]
            l = draw(st.sampled_from(used)) if used and draw(st.integers(0, 2)) > 0 else draw(st.sampled_from(cands))
            inds.append(l)
            count[l] += 1
        tensors.append({"inds": inds, "seed": draw(A.seeds), "kind": draw(st.sampled_from(KINDS))})
    labels = [l for l in pool if count[l] > 0]
    out = [l for l in labels if count[l] == 1]
    if draw(st.integers(0, 2)) == 0:
        extra = [l for l in labels if l not in out]
        if extra:
            out = out + [draw(st.sampled_from(extra))]  # an output label that is also a bond
    if hyper and any(c >= 3 for c in count.values()) and draw(st.booleans()):
        out = draw(st.lists(st.sampled_from(labels), unique=True, max_size=4))
    passes = draw(st.lists(st.tuples(st.sampled_from(PASSES), st.integers(0, 1000)), min_size=1, max_size=3))
    return {"tensors": tensors, "sizes": {l: sizes[l] for l in labels}, "out": out, "cplx": cplx,
            "exponent": draw(st.sampled_from([0.0, 0.0, 1.5, -2.0])), "passes": [list(p) for p in passes]}


@st.composite
def s_diag_chain(draw, tier):
    """open chains and small trees in which 2-4 diagonal / antidiagonal / single-column tensors sit in a row on a dangling
    leg (gates on an open wire), inserted in a drawn order, simplified through the *default* output labels"""
    n = draw(st.integers(3, 6))
    d = draw(st.sampled_from([2, 2, 3]))
    labels = [chr(ord("a") + i) for i in range(n + 1)]
    nspecial = draw(st.integers(2, min(4, n - 1)))
    kinds = ["gauss"] * (n - nspecial) + [draw(st.sampled_from(["diag", "diag", "antidiag", "column"])) for _ in range(nspecial)]
    if draw(st.booleans()):
        kinds = kinds[::-1]
    tensors = [{"inds": [labels[i], labels[i + 1]], "seed": draw(A.seeds), "kind": kinds[i]} for i in range(n)]
    order = draw(st.permutations(list(range(n))))
    tensors = [tensors[i] for i in order]
    name = draw(st.sampled_from(["diagonal", "diagonal", "antidiag", "column", "rank", "full"]))
    passes = [[name, draw(st.sampled_from([2, 3, 8, 9]))]] + ([["diagonal", draw(st.sampled_from([2, 3]))]] if draw(st.booleans()) else [])
    return {"tensors": tensors, "sizes": {l: d for l in labels}, "out": [labels[0], labels[-1]], "cplx": draw(st.booleans()),
            "exponent": draw(st.sampled_from([0.0, 0.0, 1.5])), "passes": passes}


PASSES = ["rank", "diagonal", "antidiag", "column", "split", "pair", "loop", "full", "full", "full_eq", "full_eq1", "hyper_resolve",
          "compress_simplify", "squeeze", "fuse_multibonds"]
FULL_SEQS = ["ADCR", "ADCRS", "R", "DR", "CR", "AR", "ADCRSLP", "RPL", "S", "L", "P", "RAD", "CDA", "SRP"]


def build_simplify(case):
    qtn = Q()
    ts = []
    for i, t in enumerate(case["tensors"]):
        shape = tuple(case["sizes"][l] for l in t["inds"])
        ts.append(qtn.Tensor(structured(t["seed"], shape, t["kind"], case["cplx"]), inds=t["inds"], tags=[f"T{i}", t["kind"]]))
    tn = qtn.TensorNetwork(ts)
    tn.exponent = float(case["exponent"])
    return tn


def value(tn, out):
    v = einsum_value([(np.asarray(a, dtype=np.complex128), i) for a, i in tn_tensors(tn)], out)
    return v * 10.0 ** float(tn.exponent)


def value_gauged(tn, gauges, out):
    """value of (network, bond gauges): diag(g) inserted on every listed bond (multiplied into one carrier, in numpy)"""
    arrs = [(np.array(a, dtype=np.complex128), list(i)) for a, i in tn_tensors(tn)]
    for ix, g in gauges.items():
        g = np.asarray(g, dtype=np.complex128)
        for a, inds in arrs:
            if ix in inds:
                ax = inds.index(ix)
                sh = [1] * a.ndim
                sh[ax] = g.size
                a *= g.reshape(sh)
                break
    return einsum_value([(a, tuple(i)) for a, i in arrs], out) * 10.0 ** float(tn.exponent)


def magnitude(tn):
    m = 10.0 ** float(tn.exponent)
    for a, _ in tn_tensors(tn):
        m *= max(float(np.linalg.norm(np.asarray(a).ravel())), 1e-300)
    return m


def fingerprint(tn):
    return (float(tn.exponent), [(tuple(t.inds), tuple(sorted(t.tags)), np.asarray(t.data).tobytes()) for t in tn.tensor_map.values()])


def run_simplify(case):
    tn = build_simplify(case)
    out = tuple(case["out"])
    ref = value(tn, out)
    mag = magnitude(tn)
    has_zero = any(t["kind"] == "zero" for t in case["tensors"])
    fired = []
    n0 = tn.num_tensors
    for name, opt in case["passes"]:
        before = fingerprint(tn)
        sizes_before = {ix: tn.ind_size(ix) for ix in tn.ind_map}
        inplace = opt % 2 == 0
        kw = {"output_inds": out}
        if (opt // 2) % 3 == 1 and set(out) == set(tn.outer_inds()) and name not in ("hyper_resolve", "compress_simplify"):
            # the documented default: outputs = the labels that appear once - spelled by leaving the argument out
            kw = {}
        if name in ("rank", "diagonal", "antidiag", "column", "pair", "loop"):
            f = getattr(tn, name + ("_simplify" if name in ("rank", "pair", "loop") else "_reduce" if name in ("diagonal", "column") else "_gauge"))
            res = f(inplace=inplace, **kw)
        elif name == "split":
            res = tn.split_simplify(inplace=inplace)
        elif name == "full":
            res = tn.full_simplify(FULL_SEQS[(opt // 2) % len(FULL_SEQS)], inplace=inplace, **kw)
        elif name == "full_eq":
            res = tn.full_simplify("ADCRS", equalize_norms=True, inplace=inplace, **kw)
        elif name == "full_eq1":
            res = tn.full_simplify("ADCRS", equalize_norms=1.0, inplace=inplace, **kw)
        elif name == "hyper_resolve":
            res = tn.hyperinds_resolve(["dense", "mps", "tree"][(opt // 2) % 3], output_inds=out, inplace=inplace)
        elif name == "compress_simplify":
            res = tn.compress_simplify(output_inds=out, inplace=inplace, atol=1e-13)
        elif name == "squeeze":
            res = tn.squeeze(exclude=out, inplace=inplace) if out else tn.squeeze(inplace=inplace)
        else:
            # fuse_multibonds takes no output_inds: only sound when no requested output label is also a bond
            if any(len(tn.ind_map.get(ix, ())) >= 2 for ix in out):
                raise Reject("fuse_multibonds does not know about output labels that are also bonds")
            # diagonal_reduce can leave a *neighbouring* tensor holding the same label twice (only the diagonal tensor itself
            # is collapsed); fusing such a label is refused with a ValueError by Tensor.fuse -> modify: a detected refusal
            if any(len(set(t.inds)) != len(t.inds) for t in tn.tensor_map.values()):
                raise Reject("fuse_multibonds with a label repeated on one tensor")
            res = tn.fuse_multibonds(inplace=inplace)
        if not inplace:
            if fingerprint(tn) != before:
                raise Violation("plain-spelling-mutated-receiver", op=name)
        tn_new = res
        if fingerprint(tn_new) != before:
            fired.append(name)
        tn = tn_new
        got = value(tn, out) if set(out) <= set(tn.ind_map) or not out else None
        if got is None:
            raise Violation("output-label-lost", op=name, lost=sorted(set(out) - set(tn.ind_map)))
        tol = 1e-7
        e = rel_err(got, ref, floor=mag)
        if not e <= tol:
            raise Violation("value", op=name, err=e, passes=[p[0] for p in case["passes"]], exp_nonzero=case["exponent"] != 0,
                            has_zero=has_zero)
    hyper = any(sum(l in t["inds"] for t in case["tensors"]) >= 3 for l in case["sizes"])
    return {"nt": len(case["tensors"]) >= 3 and bool(fired),
            "cls": ["fired=" + f for f in sorted(set(fired))] + ["pass=" + p[0] for p in case["passes"]] + (["hyper"] if hyper else []) +
                   (["exp!=0"] if case["exponent"] else []) + [f"len={len(case['passes'])}"], "err": e}


# ---------------------------------------------------------------------------
# B. graph networks and gauge / canonize / compress rewrites
# ---------------------------------------------------------------------------

GAUGE_OPS = ["canonize_bond", "compress_bond", "balance_bond", "fuse_squeeze", "canonize_between", "compress_between",
             "canonize_around", "gauge_all_canonize", "gauge_all_simple", "gauge_simple_roundtrip", "gauge_all_random",
             "gauge_all_bp", "gauge_local", "insert_gauge", "strip_exponent", "equalize_norms", "equalize_norms_v",
             "distribute_exponent", "balance_bonds", "fuse_multibonds", "squeeze", "expand_bond", "compress_all", "compress_all_tree",
             "compress_all_simple", "compress_all_1d", "isometrize_one", "conj_conj", "astype", "multiply", "fuse_gauged"]


@st.composite
def s_gauge(draw, tier):
    n = draw(st.integers(2, 7))
    loopy = draw(st.booleans())
    edges = draw(G.graph_edges(n, extra=2)) if loopy else draw(G.tree_edges(n))
    edges = [list(e) for e in edges]
    multi = []
    if draw(st.integers(0, 3)) == 0 and edges:
        multi = [list(draw(st.sampled_from(edges)))]
    dangling = [draw(st.integers(0, 2)) for _ in range(n)]  # number of dangling legs per tensor
    if draw(st.booleans()):
        dangling = [max(1, d) for d in dangling]
    bdims = [draw(st.sampled_from([1, 2, 2, 3])) for _ in edges + multi]
    pdims = [[draw(st.sampled_from([1, 2, 3])) for _ in range(d)] for d in dangling]
    ops = draw(st.lists(st.tuples(st.sampled_from(GAUGE_OPS), st.integers(0, 10**6)), min_size=1, max_size=3))
    return {"n": n, "edges": edges + multi, "bdims": bdims, "pdims": pdims, "seeds": [draw(A.seeds) for _ in range(n)],
            "cplx": draw(st.booleans()), "exponent": draw(st.sampled_from([0.0, 0.0, 2.0, -1.0])),
            "kinds": [draw(st.sampled_from(["gauss", "gauss", "gauss", "pos", "lowrank"])) for _ in range(n)],
            "ops": [list(o) for o in ops]}


@st.composite
def s_fuse_gauged(draw, tier):
    """graphs that always carry 1-3 multibonds (double or triple), and only the gauged fusing rewrite"""
    case = draw(s_gauge(tier))
    base = [e for e in case["edges"]]
    nm = draw(st.integers(1, 3))
    extra = [list(draw(st.sampled_from(base))) for _ in range(nm)]
    case["edges"] = base + extra
    case["bdims"] = case["bdims"] + [draw(st.sampled_from([2, 2, 3])) for _ in extra]
    case["ops"] = [["fuse_gauged", draw(st.integers(0, 10**6))] for _ in range(draw(st.integers(1, 2)))]
    return case


def build_graph(case):
    qtn = Q()
    n = case["n"]
    inds = [[] for _ in range(n)]
    sizes = {}
    for k, ((i, j), d) in enumerate(zip(case["edges"], case["bdims"])):
        ix = f"b{k}"
        inds[i].append(ix)
        inds[j].append(ix)
        sizes[ix] = d
    for i, pd in enumerate(case["pdims"]):
        for m, d in enumerate(pd):
            ix = f"k{i}_{m}"
            inds[i].append(ix)
            sizes[ix] = d
    ts = []
    for i in range(n):
        shape = tuple(sizes[ix] for ix in inds[i])
        rng = np.random.default_rng(case["seeds"][i])
        # stored axis order is shuffled (labelled semantics)
        perm = rng.permutation(len(shape)) if len(shape) else []
        ii = [inds[i][p] for p in perm]
        sh = tuple(shape[p] for p in perm)
        ts.append(qtn.Tensor(structured(case["seeds"][i], sh, case["kinds"][i], case["cplx"]), inds=ii, tags=[f"T{i}"]))
    tn = qtn.TensorNetwork(ts)
    tn.exponent = float(case["exponent"])
    return tn


def check_flagged_isometries(tn, op):
    for t in tn:
        if t.left_inds is not None and len(t.left_inds) > 0:
            arr = np.asarray(t.data)
            inds = list(t.inds)
            left = list(t.left_inds)
            right = [i for i in inds if i not in left]
            a = np.transpose(arr, [inds.index(x) for x in left + right])
            m = a.reshape(int(np.prod([a.shape[k] for k in range(len(left))])), -1)
            g = m.conj().T @ m
            d = float(np.linalg.norm(g - np.eye(g.shape[0])))
            if d > 1e-7:
                raise Violation("flagged-not-isometric", op=op, defect=d)


def pick_edge(tn, case, k):
    """(tid/tag pair) of two tensors sharing at least one bond"""
    pairs = sorted({tuple(sorted(e)) for e in case["edges"]})
    i, j = pairs[k % len(pairs)]
    if (k // len(pairs)) % 2:
        i, j = j, i
    return f"T{i}", f"T{j}"


def run_gauge(case):
    qtn = Q()
    from quimb.tensor import tensor_core as tc

    tn = build_graph(case)
    out = tuple(sorted(ix for ix in tn.ind_map if ix.startswith("k")))
    if int(np.prod([tn.ind_size(ix) for ix in out])) > 4096:
        raise Reject("too large to densify")
    ref = value(tn, out)
    mag = magnitude(tn)
    all_dangling = all(len(pd) >= 1 for pd in case["pdims"])
    is_tree = len({tuple(sorted(e)) for e in case["edges"]}) == case["n"] - 1
    multibond = len({tuple(sorted(e)) for e in case["edges"]}) != len(case["edges"])
    fired = []
    tol = INV64
    e = 0.0
    for name, k in case["ops"]:
        before = fingerprint(tn)
        max_before = max([tn.ind_size(ix) for ix in tn.ind_map if not ix.startswith("k")] or [1])
        t1, t2 = pick_edge(tn, case, k)
        present = t1 in tn.tag_map and t2 in tn.tag_map and len(tn.tag_map[t1]) == 1 and len(tn.tag_map[t2]) == 1
        shared = present and len(tn[t1].bonds(tn[t2])) >= 1
        absorb = ["right", "left", "both"][k % 3]
        if (name.startswith("gauge_") or name.startswith("compress_all")) and not tn.inner_inds():
            raise Reject("no bonds left to gauge (crash on a bond-less network is outside this property)")
        if name in ("canonize_bond", "compress_bond", "balance_bond", "fuse_squeeze", "canonize_between", "compress_between",
                    "insert_gauge") and not shared:
            raise Reject("pair no longer shares a bond")
        if name in ("canonize_bond", "compress_bond", "canonize_between", "compress_between") and shared:
            nb = len(tn[t1].bonds(tn[t2]))
            if tn[t1].ndim == nb and tn[t2].ndim == nb:
                raise Reject("both tensors carry only the shared bond (their product is a scalar)")
        if name == "canonize_bond":
            a, b = tn[t1], tn[t2]
            tc.tensor_canonize_bond(a, b, absorb=absorb)
            if absorb == "right":
                # promised: `ta` is isometric w.r.t. its remaining indices
                (bix,) = a.bonds(b)
                other = [ix for ix in a.inds if ix != bix]
                arr = np.transpose(np.asarray(a.data), [a.inds.index(x) for x in other + [bix]]).reshape(-1, a.ind_size(bix))
                d = float(np.linalg.norm(arr.conj().T @ arr - np.eye(arr.shape[1])))
                if d > 1e-7:
                    raise Violation("canonize-bond-not-isometric", defect=d)
        elif name == "compress_bond":
            red = [True, False, "left", "right"][(k // 3) % 4]  # ('lazy' needs the interpolative isvd path: not generated)
            with rejecting(NotImplementedError, tag="compress_bond:"):
                tc.tensor_compress_bond(tn[t1], tn[t2], reduced=red, absorb=absorb, cutoff=0.0, max_bond=None)
            if red == "lazy":
                tn = tn  # lazy leaves a projector pair inside the two tensors' places: value still equal
        elif name == "balance_bond":
            if len(tn[t1].bonds(tn[t2])) != 1:
                raise Reject("balance needs a single bond")
            tc.tensor_balance_bond(tn[t1], tn[t2])
        elif name == "fuse_squeeze":
            tc.tensor_fuse_squeeze(tn[t1], tn[t2], squeeze=bool(k % 2))
        elif name == "canonize_between":
            tn.canonize_between(t1, t2, absorb=absorb)
        elif name == "compress_between":
            mode = ["basic", "virtual-tree", "basic"][(k // 3) % 3]
            kw = dict(max_bond=None, cutoff=0.0, absorb=absorb)
            if mode != "basic":
                kw["mode"] = mode
            kw["canonize_distance"] = (k // 9) % 3
            with rejecting(NotImplementedError, ValueError if mode != "basic" else NotImplementedError, tag="compress_between:"):
                tn.compress_between(t1, t2, **kw)
        elif name == "canonize_around":
            tag = f"T{k % case['n']}"
            if tag not in tn.tag_map:
                raise Reject("tag gone")
            md = [None, 1, 2][(k // 7) % 3]
            tn = tn.canonize_around(tag, max_distance=md, absorb=["right", "both"][(k // 21) % 2],
                                    gauge_links=bool((k // 42) % 2), inplace=bool(k % 2))
        elif name == "gauge_all_canonize":
            tn = tn.gauge_all_canonize(max_iterations=1 + k % 3, absorb=absorb, inplace=bool(k % 2))
        elif name == "gauge_all_simple":
            tn = tn.gauge_all_simple(max_iterations=1 + k % 4, inplace=bool(k % 2))
        elif name == "gauge_simple_roundtrip":
            gauges = {}
            tn.gauge_all_simple_(max_iterations=2 + k % 3, gauges=gauges)
            # with gauges supplied they are NOT reabsorbed: the network times the gauges denotes the value
            # (removing them again divides by the gauges: exact zeros on rank-deficient bonds make that a 0/0, so the
            #  round trip back is only done when every gauge entry is non-zero)
            outer, inner = tn.gauge_simple_insert(gauges)
            got = value(tn, out)
            e1 = rel_err(got, ref, floor=mag)
            if not e1 <= 1e-5:
                raise Violation("value", op="gauge_simple_insert", err=e1)
            if all(float(np.min(np.abs(np.asarray(g)))) > 1e-8 for g in gauges.values()):
                tn.gauge_simple_remove(outer=outer, inner=inner)
                tn.gauge_simple_insert(gauges)
            tol = max(tol, 1e-5)
        elif name == "gauge_all_random":
            tn = tn.gauge_all_random(max_iterations=1 + k % 2, unitary=bool(k % 3), seed=k % 1000, inplace=bool(k % 2))
            if not k % 3:
                # a non-unitary random gauge pair (G, G^-1) inflates the tensors by cond(G): the rounding error of evaluating
                # the network scales with the product of its tensors' norms, so that product becomes the error scale from
                # here on (found by the thorough tier: 8.5e-4 after four near-singular 2x2 / 3x3 gauges)
                mag = max(mag, magnitude(tn))
            tol = max(tol, 1e-5)  # non-unitary random gauges are inverted
        elif name == "gauge_all_bp":
            if not all_dangling:
                raise Reject("BP gauging is exact only when every tensor has a dangling leg")
            # ... and only when the 2-norm messages are full rank: every bond must be no larger than the product of the
            # other dimensions of both tensors it joins (otherwise the gauge is a pseudo-inverse)
            for tid, t in tn.tensor_map.items():
                per_nbr = {}
                for ix in t.inds:
                    for other in tn.ind_map[ix]:
                        if other != tid:
                            per_nbr[other] = per_nbr.get(other, 1) * t.ind_size(ix)
                for other, d in per_nbr.items():
                    if d > t.size // d:
                        raise Reject("rank-deficient BP message (bonds to one neighbour larger than the rest of the tensor)")
            tn = tn.gauge_all_belief_propagation(max_iterations=200, tol=1e-12, inplace=bool(k % 2)) if hasattr(tn, "gauge_all_belief_propagation") else tn
            tol = max(tol, 1e-5)
        elif name == "gauge_local":
            tag = f"T{k % case['n']}"
            if tag not in tn.tag_map:
                raise Reject("tag gone")
            if not any(len(tn.ind_map[ix]) >= 2 for t_ in tn.select_tensors(tag) for ix in t_.inds):
                # (an earlier squeeze can leave the tagged tensor without any bond: its local region is then a bond-less
                #  network, the documented out-of-domain crash of the gauging loops, see the guard above)
                raise Reject("tagged tensor has no bonds left: bond-less local region")
            kw = {}
            eq = (k // 10) % 4
            if eq == 1:
                kw["equalize_norms"] = True  # options forwarded to the chosen gauging method
            elif eq == 2:
                kw["equalize_norms"] = 1.0
            tn = tn.gauge_local(tag, max_distance=1 + k % 2, method=["canonize", "simple"][(k // 5) % 2], inplace=bool(k % 2), **kw)
        elif name == "insert_gauge":
            bonds = list(tn[t1].bonds(tn[t2]))
            if len(bonds) != 1:
                raise Reject("insert_gauge needs a single bond")
            d = tn.ind_size(bonds[0])
            U = A.make_matrix(k, "gauss", d, d, "complex128" if case["cplx"] else "float64") + 2 * np.eye(d)
            tn.insert_gauge(U, t1, t2)
        elif name == "strip_exponent":
            tid = sorted(tn.tensor_map)[k % tn.num_tensors]
            if float(tn.tensor_map[tid].norm()) == 0.0:
                raise Reject("zero tensor")
            tn.strip_exponent(tid, [None, 1.0, 0.5][k % 3])
        elif name == "equalize_norms":
            tn = tn.equalize_norms(inplace=bool(k % 2))
            norms = [float(t.norm()) for t in tn]
            if max(norms) > 0 and (max(norms) - min(norms)) > 1e-6 * max(norms):
                raise Violation("equalize-norms-unequal", norms=norms[:4])
        elif name == "equalize_norms_v":
            v = [1.0, 0.5, 3.0][k % 3]
            tn = tn.equalize_norms(v, inplace=bool(k % 2))
            for t in tn:
                if abs(float(t.norm()) - v) > 1e-6 * v:
                    raise Violation("equalize-norm-value", got=float(t.norm()), want=v)
        elif name == "distribute_exponent":
            tn.distribute_exponent([0.0, 1.0][k % 2])
        elif name == "balance_bonds":
            with rejecting(ValueError, tag="balance_bonds(multibond):"):
                tn = tn.balance_bonds(inplace=bool(k % 2))
        elif name == "fuse_multibonds":
            tn = tn.fuse_multibonds(inplace=bool(k % 2))
            for a_, b_ in {tuple(sorted(e)) for e in case["edges"]}:
                ta, tb = f"T{a_}", f"T{b_}"
                if ta in tn.tag_map and tb in tn.tag_map and len(tn.tag_map[ta]) == 1 and len(tn.tag_map[tb]) == 1:
                    if len(tn[ta].bonds(tn[tb])) > 1:
                        raise Violation("fuse-multibonds-left-multibond")
        elif name == "squeeze":
            tn = tn.squeeze(exclude=out, fuse=bool(k % 3 == 0), inplace=bool(k % 2))
        elif name == "expand_bond":
            tn = tn.expand_bond_dimension(4 + k % 3, inplace=bool(k % 2))
            for ix in tn.ind_map:
                if not ix.startswith("k") and len(tn.ind_map[ix]) == 2 and tn.ind_size(ix) < 4:
                    raise Violation("expand-bond-too-small", got=tn.ind_size(ix))
            max_before = None
        elif name in ("compress_all", "compress_all_tree", "compress_all_simple", "compress_all_1d"):
            kw = dict(max_bond=None, cutoff=0.0, inplace=bool(k % 2))
            if name == "compress_all":
                kw["canonize"] = bool(k % 3)
                kw["mode"] = ["auto", "basic", "virtual-tree"][(k // 3) % 3]
                tn = tn.compress_all(**kw)
            elif name == "compress_all_tree":
                tn = tn.compress_all_tree(**kw)
            elif name == "compress_all_simple":
                tn = tn.compress_all_simple(max_iterations=3, **kw)
            else:
                tn = tn.compress_all_1d(**kw)
            if max_before is not None:
                mx = max([tn.ind_size(ix) for ix in tn.ind_map if not ix.startswith("k")] or [1])
                prod_multi = max_before ** 2 if multibond else max_before
                if mx > prod_multi:
                    raise Violation("compress-grew-bond", op=name, before=max_before, after=mx)
        elif name == "fuse_gauged":
            # a network *with a dictionary of bond gauges* denotes the network with diag(g) inserted on each listed bond;
            # fusing (multi)bonds must keep that denotation and re-key the dictionary, whatever part of the bonds it covers
            bonds = sorted(ix for ix, tids in tn.ind_map.items() if len(tids) == 2 and not ix.startswith("k"))
            if not bonds:
                raise Reject("no bonds")
            rng = np.random.default_rng(k)
            cover = [ix for ix in bonds if rng.random() < 0.6]
            gauges = {ix: rng.uniform(0.3, 2.0, size=tn.ind_size(ix)) for ix in cover}
            tg = tn.copy()
            ref_g = value_gauged(tg, gauges, out)
            mag_g = magnitude(tg) * float(np.prod([np.linalg.norm(g) for g in gauges.values()] or [1.0]))
            if (k // 2) % 2 == 0 or not shared:
                tg.fuse_multibonds_(gauges=gauges)
                via = "fuse_multibonds"
            else:
                tc.tensor_fuse_squeeze(tg[t1], tg[t2], squeeze=bool((k // 4) % 2), gauges=gauges)
                via = "tensor_fuse_squeeze"
            dead = sorted(ix for ix in gauges if ix not in tg.ind_map)
            if dead:
                raise Violation("gauge-under-dead-label", via=via, n=len(dead), partial=len(cover) < len(bonds))
            for ix, g in gauges.items():
                if np.size(g) != tg.ind_size(ix):
                    raise Violation("gauge-size-mismatch", via=via, partial=len(cover) < len(bonds))
            eg = rel_err(value_gauged(tg, gauges, out), ref_g, floor=mag_g)
            if not eg <= tol:
                raise Violation("value", op=name, via=via, err=eg, partial=len(cover) < len(bonds), multibond=multibond)
            if multibond and cover:
                fired.append(name)
        elif name == "isometrize_one":
            # not value preserving by definition: skipped
            raise Reject("isometrize changes the tensor by definition")
        elif name == "conj_conj":
            tn = tn.conj().conj()
        elif name == "astype":
            tn = tn.astype("complex128")
        elif name == "multiply":
            x = [2.0, -0.5, 1e-3][k % 3]
            tn = (tn * x) / x
        if fingerprint(tn) != before:
            fired.append(name)
        check_flagged_isometries(tn, name)
        if not set(out) <= set(tn.ind_map):
            raise Violation("outer-label-lost", op=name, lost=sorted(set(out) - set(tn.ind_map)))
        if set(tn.outer_inds()) != set(out):
            raise Violation("outer-labels-changed", op=name)
        got = value(tn, out)
        e = rel_err(got, ref, floor=mag)
        if not e <= tol:
            raise Violation("value", op=name, err=e, ops=[o[0] for o in case["ops"]], tree=is_tree, exp_nonzero=case["exponent"] != 0)
    return {"nt": case["n"] >= 3 and bool(fired),
            "cls": ["fired=" + f for f in sorted(set(fired))] + ["op=" + o[0] for o in case["ops"]] + (["tree"] if is_tree else ["loopy"]) +
                   (["multibond"] if multibond else []) + (["exp!=0"] if case["exponent"] else []), "err": e}


# ---------------------------------------------------------------------------
# C. small lattices of product / low-rank tensors: several adjacent loops and pairs simplify in ONE pass
# ---------------------------------------------------------------------------

@st.composite
def s_lattice(draw, tier):
    return {"Lx": draw(st.integers(2, 3)), "Ly": draw(st.integers(2, 5)), "D": draw(st.sampled_from([2, 2, 3])),
            "seed": draw(A.seeds), "kind": draw(st.sampled_from(["product", "product", "lowrank", "gauss"])),
            "pass": draw(st.sampled_from(["loop", "pair", "full_L", "full_P", "full_all", "rank", "split"])),
            "inplace": draw(st.booleans()), "exponent": draw(st.sampled_from([0.0, 1.0]))}


def run_lattice(case):
    qtn = Q()
    tn = qtn.TN2D_rand(case["Lx"], case["Ly"], D=case["D"], seed=case["seed"] % (2**31))
    rng = np.random.default_rng(case["seed"])
    for t in tn:
        if case["kind"] == "product":
            vs = [rng.normal(size=d) for d in t.shape]
            data = vs[0]
            for v in vs[1:]:
                data = np.multiply.outer(data, v)
            t.modify(data=data)
        elif case["kind"] == "lowrank" and t.ndim >= 2:
            k = t.ndim // 2
            t.modify(data=np.multiply.outer(rng.normal(size=t.shape[:k]), rng.normal(size=t.shape[k:])))
    tn.exponent = case["exponent"]
    ref = value(tn, ())
    mag = magnitude(tn)
    before = fingerprint(tn)
    n0 = tn.num_tensors
    p = case["pass"]
    kw = dict(output_inds=(), inplace=case["inplace"])
    if p == "loop":
        r = tn.loop_simplify(**kw)
    elif p == "pair":
        r = tn.pair_simplify(**kw)
    elif p == "rank":
        r = tn.rank_simplify(**kw)
    elif p == "split":
        r = tn.split_simplify(inplace=case["inplace"])
    else:
        r = tn.full_simplify({"full_L": "L", "full_P": "P", "full_all": "ADCRSLP"}[p], **kw)
    if not case["inplace"] and fingerprint(tn) != before:
        raise Violation("plain-spelling-mutated-receiver", op=p)
    e = rel_err(value(r, ()), ref, floor=mag)
    if not e <= 1e-7:
        raise Violation("value", op=p, err=e, lattice=True)
    fired = fingerprint(r) != before
    return {"nt": fired, "cls": ["pass=" + p, "kind=" + case["kind"], "inplace" if case["inplace"] else "plain"] +
            (["fired"] if fired else []), "err": e}


SUBCHECKS = [
    SubCheck("simplify", run_simplify, s_simplify, examples=(150, 2500), shards=(4, 12),
             rule="structured hypergraph networks x composed simplification passes; value over requested outputs unchanged; plain spelling "
                  "does not mutate; nt: >=3 tensors and a pass fired"),
    SubCheck("gauge", run_gauge, s_gauge, examples=(150, 2500), shards=(6, 12),
             rule="tree/loopy graph networks x composed gauge/canonize/norm/bond/compress rewrites; value over dangling legs unchanged, "
                  "promised forms hold; nt: >=3 tensors and a rewrite changed something"),
    SubCheck("diag_chain", run_simplify, s_diag_chain, examples=(120, 2000), shards=(1, 4),
             rule="open chains with 2-4 diagonal / antidiagonal / single-column tensors in a row on a dangling leg, tensors inserted in "
                  "a drawn order, one or two passes called with the default output labels: same tensor over the same outer labels; nt: a "
                  "pass fired"),
    SubCheck("fuse_gauged", run_gauge, s_fuse_gauged, examples=(100, 2000), shards=(2, 6),
             rule="graphs with 1-3 double/triple bonds x a dictionary of random positive bond gauges covering a random part of the "
                  "bonds x fuse_multibonds(gauges=) / tensor_fuse_squeeze(gauges=): (network, gauges) denotes the same tensor, no "
                  "gauge is left under a dead label or with a wrong size; nt: a multibond and at least one gauge"),
    SubCheck("lattice_simplify", run_lattice, s_lattice, examples=(80, 1500), shards=(2, 6),
             rule="2-3 x 2-5 lattices of product / low-rank tensors (many adjacent loops and pairs) x one simplification pass, both "
                  "spellings; nt: the pass changed the network"),
]
