"""C14 — belief propagation is exact on trees and its marginals are consistent.

Cases are acyclic networks built by construction (random-parent trees, forests,
optional hyper-edges attached so that the incidence graph stays a tree, optional
dangling labels), data positive / positive-with-zeros / signed / complex, and a
drawn set of run options (damping, update order, local convergence, diis,
normalize / distance names, message initialisation with an explicit seed).

Oracle: numpy.einsum over the generator labels (vf.oracle.einsum_value) for the
contracted value, the dense vector for norms, marginals and reduced density
matrices.  Every sub-check is one entry point family, so one defect does not hide
the others.
"""
from __future__ import annotations

import math

import numpy as np
from hypothesis import strategies as st

from .. import arrays as A
from ..core import INV64, Reject, SubCheck, Violation, rel_err
from ..oracle import einsum_value, tn_tensors

RULE = ("cases are acyclic labelled networks built by construction (random-parent trees/forests of 2-9 tensors, bond "
        "dim 1-3, optional hyper-edges of degree 3-4 with acyclic incidence graph, optional dangling labels, lazy "
        "groupings into connected regions) x data kind (positive, positive with zeros, signed, complex) x run options "
        "(damping, sequential/parallel, local convergence, diis, normalize/distance names, seeded message "
        "initialisation); oracle numpy.einsum; non-trivial = >=4 tensors and (signed/complex data or a hyper-edge or "
        "damping>0 or a non-default schedule/initialisation)")
ASSUMPTIONS = [
    "numpy.einsum (integer sublist form) is the trusted denotation of a network",
    "cases whose exact value is below 1e-6 x product of tensor norms are rejected (BP divides by the value; the "
    "cancellation error of the reference itself is then no longer 100x below the 1e-6 tolerance)",
    "message tolerance 1e-12 and the library default iteration limit are 'converged' for a tree (finite convergence)",
    "gauging / compressing is only compared on networks where every tensor carries a dangling label (documented in "
    "DESIGN S: on scalar networks BP gauging is not exact)",
    "lazy flavours are always given site_tags and regions are connected sub-trees, so the region graph is acyclic",
]

TOL = INV64          # 1e-6 (DESIGN O)
BP_TOL = 1e-12
ZERO_REL = 1e-6
MAXIT = 1000         # library default


def qt():
    import quimb.tensor as qtn
    import quimb.tensor.belief_propagation as bp

    return qtn, bp


# ---------------------------------------------------------------------------
# geometry + data, pure functions of the case
# ---------------------------------------------------------------------------

KINDS = ("pos", "pos", "signed", "signed", "complex", "complex", "pos0")
KINDS_DENSE = ("pos", "signed", "signed", "complex", "complex")
# hyper flavours also get strongly varying positive data (exp(1.2 * normal)): an error in how a label is summed over is
# second order in the value for near-uniform data
KINDS_HYPER = KINDS + ("posvar", "posvar")


@st.composite
def s_net(draw, tier="quick", hyper=False, phys="none", uniform=False, min_n=2, max_n=9, kinds=KINDS, groups=False,
          forest=True, exponents=(0.0, 0.0, 0.0, 0.0, 1.5, -2.0), own_labels=3):
    """JSON description of an acyclic network.

    attach[i-1] = [code, target, dim] for tensor i >= 1:
      code 0: new bond (label e<i>, size dim) to tensor  target % i
      code 1: join an existing label (target % #candidates) -> hyper-edge of degree 3/4 (falls back to code 0)
      code 2: start a new component (forest)
    A new tensor is attached through exactly one label, so the incidence graph is a forest by construction.
    """
    n = draw(st.integers(min_n, max_n))
    codes = [0] * 14 + ([1] * 6 if hyper else []) + ([2] if forest else [])
    attach = [[draw(st.sampled_from(codes)), draw(st.integers(0, 63)), draw(st.sampled_from([1, 2, 2, 3, 3]))]
              for _ in range(1, n)]
    if phys == "none":
        ph = [0] * n
    elif phys == "opt":
        ph = [draw(st.sampled_from([0, 1, 2, 2, 3])) for _ in range(n)]
    else:
        ph = [draw(st.sampled_from([1, 2, 2, 2, 3])) for _ in range(n)]
    net = {"n": n, "attach": attach, "phys": ph, "uniform": draw(st.integers(1, 3)) if uniform else 0,
           "kind": draw(st.sampled_from(kinds)), "seed": draw(A.seeds), "exponent": draw(st.sampled_from(exponents))}
    if groups:
        # merge[i-1]: tensor i joins the region of the tensor it was attached to (regions = connected sub-trees)
        net["merge"] = [draw(st.integers(0, 2)) == 0 for _ in range(1, n)]
    if hyper:
        # dangle[i] > 0: tensor i also carries a label d<i> that sits on no other tensor (a rank-1 hyper edge / leaf
        # variable of the factor graph, as in the k-SAT networks of quimb's own tests): the hyper flavours sum over it
        # (in own_labels/6 of the cases, so that plain hyper trees stay well represented)
        if draw(st.integers(0, 5)) < own_labels:
            net["dangle"] = [draw(st.sampled_from([0, 0, 0, 2, 3, 4])) for _ in range(n)]
        else:
            net["dangle"] = [0] * n
    return net


def geometry(net):
    """-> (inds per tensor, sizes, degree per label, parent per tensor, group per tensor)"""
    n = net["n"]
    inds = [[] for _ in range(n)]
    sizes, deg, labels = {}, {}, []
    parent = [-1] * n
    group = list(range(n))
    merge = net.get("merge")
    for i, (code, t, d) in enumerate(net["attach"], start=1):
        if net.get("uniform"):
            d = net["uniform"]
        if i == 1:
            code = 0  # at least one bond: a network of scalars only has no messages at all
        if code == 1:
            cands = [l for l in labels if deg[l] < 4]
            if cands:
                l = cands[t % len(cands)]
                inds[i].append(l)
                deg[l] += 1
                continue
            code = 0
        if code == 0:
            p = t % i
            l = f"e{i}"
            labels.append(l)
            sizes[l] = int(d)
            deg[l] = 2
            inds[p].append(l)
            inds[i].append(l)
            parent[i] = p
            if merge is not None and merge[i - 1] and i > 1:
                # (tensor 1 always starts its own region: at least one bond between two regions, i.e. one message)
                group[i] = group[p]
    if merge is not None and len(set(group)) == 1 and n >= 2:
        group[n - 1] = n - 1  # the last tensor is always a leaf: at least two regions
    dense = 1
    for i, p in enumerate(net["phys"]):
        if p:
            while dense * p > 2048 and p > 1:
                p -= 1
            dense *= p
            l = f"k{i}"
            inds[i].append(l)
            sizes[l] = int(p)
            deg[l] = 1
    for i, d in enumerate(net.get("dangle") or []):
        if d:
            l = f"d{i}"
            inds[i].append(l)
            sizes[l] = int(net.get("uniform") or d)
            deg[l] = 1
    return inds, sizes, deg, parent, group


def make_data(rng, kind, shape):
    if kind == "pos":
        return rng.uniform(0.2, 1.0, size=shape)
    if kind == "pos0":
        return rng.uniform(0.2, 1.0, size=shape) * (rng.random(size=shape) > 0.25)
    if kind == "posvar":
        return np.exp(1.2 * rng.normal(size=shape))
    if kind == "signed":
        return rng.normal(size=shape)
    if kind == "complex":
        return rng.normal(size=shape) + 1j * rng.normal(size=shape)
    raise ValueError(kind)


def build_arrays(net):
    inds, sizes, deg, parent, group = geometry(net)
    out = []
    for i, ii in enumerate(inds):
        rng = np.random.default_rng([int(net["seed"]), i])
        ii = [ii[j] for j in rng.permutation(len(ii))]
        shape = tuple(sizes[l] for l in ii)
        out.append((np.asarray(make_data(rng, net["kind"], shape)), tuple(ii)))
    return out, sizes, deg, group


def build_tn(net, arrs, group, Q, cls=None):
    ts = [Q.Tensor(a.copy(), inds=ii, tags=[f"I{i}", f"G{group[i]}"]) for i, (a, ii) in enumerate(arrs)]
    tn = Q.TensorNetwork(ts)
    if net.get("exponent"):
        tn.exponent = float(net["exponent"])
    return tn


def tid_of(tn, i):
    (tid,) = tn._get_tids_from_tags(f"I{i}")
    return tid


def magnitude(arrs):
    m = 1.0
    for a, _ in arrs:
        m *= max(float(np.linalg.norm(np.asarray(a, dtype=np.complex128).ravel())), 1e-300)
    return m


def carrs(arrs):
    return [(np.asarray(a, dtype=np.complex128), i) for a, i in arrs]


def exact_value(net, arrs):
    """value of the 1-norm network (without exponent), product of norms; rejects near-zero values"""
    z = complex(einsum_value(carrs(arrs), ()))
    mag = magnitude(arrs)
    if z == 0 or not abs(z) >= ZERO_REL * mag:
        raise Reject("exact value below 1e-6 x product of norms")
    return z, mag


def outer_labels(net, sizes):
    return [f"k{i}" for i in range(net["n"]) if f"k{i}" in sizes]


def exact_psi(net, arrs, sizes):
    outer = outer_labels(net, sizes)
    psi = einsum_value(carrs(arrs), outer)
    n2 = float(np.sum(np.abs(psi) ** 2))
    mag = magnitude(arrs)
    if n2 == 0 or not n2 >= 1e-12 * mag ** 2:
        raise Reject("norm below 1e-6 x product of norms")
    return psi, outer, n2, mag


def net_classes(net, deg, group=None):
    c = ["kind=" + net["kind"], f"n={net['n']}"]
    if any(d >= 3 for d in deg.values()):
        c.append("hyper")
    if any(net.get("dangle") or []):
        c.append("rank1-label")
    if any(code == 2 for code, _, _ in net["attach"]):
        c.append("forest")
    if net.get("exponent"):
        c.append("exp!=0")
    if group is not None and len(set(group)) < net["n"]:
        c.append("grouped")
    return c


def has_rank0(arrs):
    return any(len(ii) == 0 for _, ii in arrs)


def rel_scalar(got, ref):
    got, ref = complex(got), complex(ref)
    if not (math.isfinite(got.real) and math.isfinite(got.imag)):
        return float("inf")
    s = max(abs(got), abs(ref))
    return 0.0 if s == 0 else abs(got - ref) / s


# ---------------------------------------------------------------------------
# run options
# ---------------------------------------------------------------------------

NORMS = [None, None, "L1", "L2", "L2phased", "Linf"]
DISTS = [None, None, "L1", "L2", "L2phased", "Linf", "cosine"]


@st.composite
def s_opts(draw, flavour):
    o = {"damping": draw(st.sampled_from([0.0, 0.0, 0.0, 0.1, 0.3, 0.5])),
         "update": draw(st.sampled_from(["sequential", "parallel"])),
         "local": draw(st.booleans()), "diis": draw(st.integers(0, 4)) == 0,
         "normalize": draw(st.sampled_from(NORMS)), "distance": draw(st.sampled_from(DISTS)),
         "init": draw(st.sampled_from(["default", "default", "random", "ones"])), "iseed": draw(A.seeds),
         "strip": draw(st.integers(0, 3)) == 0}
    if flavour == "hv1":
        o["update"] = "parallel"
        o["normalize"] = draw(st.sampled_from([None, "L1", "L2", "Linf"]))
        o["distance"] = draw(st.sampled_from([None, "L1", "L2", "Linf"]))
        o["init"] = draw(st.sampled_from(["default", "dense", "random"]))
    if flavour in ("l1", "l2"):
        # lazy updates are full contractions: keep the geometric tail of damped runs short
        o["damping"] = draw(st.sampled_from([0.0, 0.0, 0.3, 0.5]))
        if o["distance"] == "cosine":
            o["distance"] = None
    if flavour == "l2":
        o["diis"] = False
        o["init"] = "default"
    if flavour == "hd1" and o["init"] == "ones":
        o["init"] = "default"
    if o["distance"] == "cosine":
        # documented as 'less precision' (floor ~1e-8): a damped run would stop 100x closer to the tolerance
        o["damping"] = 0.0
    return o


def pos_fill(seed, cplx=False):
    """message initialisation callable: strictly positive entries from an explicit seed; the generator is
    re-created per shape so the result does not depend on call order"""
    def fill(shape):
        shape = tuple(int(s) for s in shape)
        rng = np.random.default_rng([int(seed), *shape, 7])
        x = rng.uniform(0.2, 1.0, size=shape)
        return x.astype(np.complex128) if cplx else x

    return fill


def psd_messages(tn, seed, cplx):
    """random positive definite initial messages for D2BP, keyed (ix, tid)"""
    out = {}
    tag_of = {tid: sorted(t.tags)[0] for tid, t in tn.tensor_map.items()}
    for ix, tids in tn.ind_map.items():
        tids = sorted(tids)
        if len(tids) != 2:
            continue
        d = tn.ind_size(ix)
        for k, tid in enumerate(tids):
            rng = np.random.default_rng([int(seed), int(ix[1:]), int(tag_of[tid][1:]), d])
            a = rng.normal(size=(d, d))
            if cplx:
                a = a + 1j * rng.normal(size=(d, d))
            out[ix, tid] = a @ a.conj().T + 0.3 * np.eye(d)
    return out


def opt_classes(o):
    c = [f"update={o['update']}", f"init={o['init']}"]
    if o["damping"]:
        c.append("damped")
    if o["diis"]:
        c.append("diis")
    if o["local"]:
        c.append("local")
    if o["normalize"]:
        c.append("norm=" + o["normalize"])
    if o["distance"]:
        c.append("dist=" + o["distance"])
    if o["strip"]:
        c.append("strip")
    return c


def nontrivial(net, deg, o):
    return net["n"] >= 4 and (net["kind"] in ("signed", "complex", "posvar") or any(d >= 3 for d in deg.values())
                              or any(net.get("dangle") or []) or o["damping"] > 0 or o["update"] == "parallel" or o["init"] != "default" or o["diis"])


def run_kwargs(flavour, o, tn, net, ctor_only=False):
    """-> (constructor kwargs, run kwargs) for the flavour's class; the contract_* functions take the union"""
    cplx = net["kind"] == "complex"
    ctor = {"damping": o["damping"], "update": o["update"]}
    run = {"max_iterations": MAXIT, "tol": BP_TOL}
    if o["normalize"] is not None:
        ctor["normalize"] = o["normalize"]
    if o["distance"] is not None:
        ctor["distance"] = o["distance"]
    if flavour in ("d1", "d2", "l1", "l2"):
        ctor["local_convergence"] = o["local"]
    if flavour != "l2":
        run["diis"] = o["diis"]
    if flavour == "d1":
        if o["init"] == "random":
            ctor["messages"] = pos_fill(o["iseed"], cplx)
        elif o["init"] == "ones":
            ctor["message_init_function"] = lambda shape: np.ones(shape, dtype=complex if cplx else float)
    elif flavour == "hd1":
        if o["init"] == "random":
            ctor["messages"] = pos_fill(o["iseed"], cplx)
    elif flavour == "hv1":
        if o["init"] == "random":
            ctor["messages"] = pos_fill(o["iseed"], cplx)
        elif o["init"] == "dense":
            ctor["messages"] = "dense"
    elif flavour == "l1":
        if o["init"] == "random":
            ctor["message_init_function"] = pos_fill(o["iseed"], cplx)
        elif o["init"] == "ones":
            ctor["message_init_function"] = lambda shape: np.ones(shape, dtype=complex if cplx else float)
    elif flavour == "d2":
        if o["init"] == "random":
            ctor["messages"] = psd_messages(tn, o["iseed"], cplx)
        elif o["init"] == "ones":
            ctor["messages"] = {k: np.eye(v.shape[0], dtype=v.dtype) for k, v in psd_messages(tn, 0, cplx).items()}
    return ctor, run


def unstrip(res, strip):
    if strip:
        if not (isinstance(res, tuple) and len(res) == 2):
            raise Violation("strip-exponent-shape", got=repr(type(res)))
        m, e = res
        return complex(m) * 10.0 ** float(e)
    return complex(res)



# ---------------------------------------------------------------------------
# failure classification (keeps known-finding matches narrow)
# ---------------------------------------------------------------------------

LOCAL_FLAVOURS = ("d1", "d2", "l1", "l2")


def passes(measure, arg, clause=None):
    """does the re-run get past the clause that failed originally?  (a different, later clause may still fail:
    the question is only whether the original failure is explained)"""
    try:
        measure(arg)
    except Violation as v:
        return clause is not None and v.reason != clause
    except Exception:  # noqa: BLE001
        return False
    return True


def nonfinite_failure(exc):
    """the failure is a nan / inf result, or the LinAlgError that numpy raises when nan reaches DIIS' pinv"""
    if isinstance(exc, Violation):
        e = exc.info.get("err")
        return e is not None and not math.isfinite(float(e))
    return isinstance(exc, np.linalg.LinAlgError)


def with_diagnosis(measure, o, flavour, net, sizes):
    """measure(opts) -> outcome, raising Violation when an oracle clause fails.

    When it fails, re-runs decide whether the failure belongs to a narrow, already understood class:
      damped-local-stuck : damping>0 with local_convergence=True fails, the same run with local_convergence=False is exact
      diis-local-stuck   : diis=True with local_convergence=True fails, local_convergence=False is exact (and, when the
                           run is also damped, diis=False is exact too)
      damped-half-cancel : damping==0.5 on real signed data gives nan/garbage (one-norm flavours), damping=0.45 is exact
      diis-sign-mix      : diis=True on real signed data (one-norm flavours) fails where diis=False is exact: the sign of
                           a real message is a gauge, the extrapolation linearly mixes sign-flipped copies of it, giving
                           exactly 0 -> nan -> LinAlgError in pinv, or (sign-blind 'cosine' distance) a garbage message
                           that is returned as converged
    anything else is re-raised unchanged."""
    try:
        return measure(o)
    except Reject:
        raise
    except Exception as exc:  # noqa: BLE001 - re-raised below unless classified
        clause = exc.reason if isinstance(exc, Violation) else "crash:" + type(exc).__name__
        if o["local"] and flavour in LOCAL_FLAVOURS and (o["damping"] > 0 or o["diis"]):
            if passes(measure, dict(o, local=False), clause):
                if o["diis"] and (o["damping"] == 0 or passes(measure, dict(o, diis=False), clause)):
                    raise Violation("diis-local-stuck", flavour=flavour, clause=clause) from None
                raise Violation("damped-local-stuck", flavour=flavour, clause=clause) from None
        if o["damping"] == 0.5 and net["kind"] == "signed" and flavour in ("d1", "hd1", "hv1", "l1"):
            if passes(measure, dict(o, damping=0.45), clause):
                raise Violation("damped-half-cancel", flavour=flavour, clause=clause) from None
        if o["diis"] and net["kind"] == "signed" and flavour in ("d1", "hd1", "hv1", "l1"):
            if passes(measure, dict(o, diis=False), clause):
                raise Violation("diis-sign-mix", flavour=flavour, clause=clause, nonfinite=nonfinite_failure(exc)) from None
        raise

# ---------------------------------------------------------------------------
# 1-4. one-norm flavours: contract_*bp == einsum
# ---------------------------------------------------------------------------

def s_contract1(flavour):
    def strat(tier):
        @st.composite
        def s(draw):
            net = draw(s_net(tier, hyper=flavour in ("hd1", "hv1"), uniform=flavour == "hv1", groups=flavour == "l1",
                             kinds=KINDS_HYPER if flavour in ("hd1", "hv1") else KINDS))
            return {"net": net, "opts": draw(s_opts(flavour))}

        return s()

    return strat


def call_contract1(flavour, BP, tn, ctor, run, strip, site_tags=None):
    kw = dict(ctor)
    kw.update(run)
    info = {}
    if flavour == "d1":
        res = BP.contract_d1bp(tn, strip_exponent=strip, info=info, **kw)
    elif flavour == "hd1":
        res = BP.contract_hd1bp(tn, strip_exponent=strip, info=info, **kw)
    elif flavour == "hv1":
        res = BP.contract_hv1bp(tn, strip_exponent=strip, info=info, **kw)
    elif flavour == "l1":
        res = BP.contract_l1bp(tn, site_tags=site_tags, strip_exponent=strip, info=info, **kw)
    else:
        raise AssertionError(flavour)
    return unstrip(res, strip), info


def run_contract1(flavour):
    def run(case):
        Q, BP = qt()
        net, o = case["net"], case["opts"]
        arrs, sizes, deg, group = build_arrays(net)
        z, mag = exact_value(net, arrs)
        ref = z * 10.0 ** float(net.get("exponent") or 0.0)
        site_tags = sorted({f"G{g}" for g in group}) if flavour == "l1" else None
        r0 = has_rank0(arrs)

        def measure(o):
            tn = build_tn(net, arrs, group, Q)
            ctor, runkw = run_kwargs(flavour, o, tn, net)
            before = [a.copy() for a, _ in tn_tensors(tn)]
            got, info = call_contract1(flavour, BP, tn, ctor, runkw, o["strip"], site_tags)
            if any(not np.array_equal(a, b) for a, (b, _) in zip(before, tn_tensors(tn))):
                raise Violation("input-mutated", flavour=flavour)
            err = rel_scalar(got, ref)
            if not err <= TOL:
                if r0:
                    # classify: is the result exactly the value with the rank-0 tensors left out?
                    s = 1.0
                    for a, ii in arrs:
                        if len(ii) == 0:
                            s = s * complex(a)
                    if s != 0 and rel_scalar(got * s, ref) <= TOL:
                        raise Violation("rank0-tensor-dropped", flavour=flavour, err=err)
                raise Violation("value", flavour=flavour, err=err, kind=net["kind"], rank0=r0, diis=o["diis"],
                                converged=bool(info.get("converged")), iterations=info.get("iterations"))
            return err, info

        err, info = with_diagnosis(measure, o, flavour, net, sizes)
        cls = ["flavour=" + flavour] + net_classes(net, deg, group if flavour == "l1" else None) + opt_classes(o)
        if r0:
            cls.append("rank0")
        cls.append("converged" if info.get("converged") else "not-converged")
        return {"nt": nontrivial(net, deg, o), "cls": cls, "err": err}

    return run


# ---------------------------------------------------------------------------
# 5-6. two-norm flavours: contract_d2bp / contract_l2bp == <psi|psi>
# ---------------------------------------------------------------------------

def s_contract2(flavour):
    def strat(tier):
        @st.composite
        def s(draw):
            net = draw(s_net(tier, phys=draw(st.sampled_from(["opt", "all"])), groups=flavour == "l2"))
            return {"net": net, "opts": draw(s_opts(flavour))}

        return s()

    return strat


def run_contract2(flavour):
    def run(case):
        Q, BP = qt()
        net, o = case["net"], case["opts"]
        arrs, sizes, deg, group = build_arrays(net)
        psi, outer, n2, mag = exact_psi(net, arrs, sizes)
        ref = n2 * 10.0 ** (2 * float(net.get("exponent") or 0.0))

        def measure(o):
            tn = build_tn(net, arrs, group, Q)
            ctor, runkw = run_kwargs(flavour, o, tn, net)
            kw = dict(ctor)
            kw.update(runkw)
            info = {}
            if flavour == "d2":
                res = BP.contract_d2bp(tn, strip_exponent=o["strip"], info=info, **kw)
            else:
                res = BP.contract_l2bp(tn, site_tags=sorted({f"G{g}" for g in group}), strip_exponent=o["strip"],
                                       info=info, **kw)
            got = unstrip(res, o["strip"])
            err = rel_scalar(got, ref)
            if not err <= TOL:
                raise Violation("value", flavour=flavour, err=err, kind=net["kind"], rank0=has_rank0(arrs), diis=o["diis"],
                                converged=bool(info.get("converged")), iterations=info.get("iterations"))
            return err, info

        err, info = with_diagnosis(measure, o, flavour, net, sizes)
        cls = ["flavour=" + flavour] + net_classes(net, deg, group if flavour == "l2" else None) + opt_classes(o)
        cls.append("dangling=all" if all(net["phys"]) else "dangling=some")
        cls.append("converged" if info.get("converged") else "not-converged")
        return {"nt": nontrivial(net, deg, o), "cls": cls, "err": err}

    return run


# ---------------------------------------------------------------------------
# 7. marginals read from one-norm messages
# ---------------------------------------------------------------------------

@st.composite
def s_marg1(draw, tier):
    flavour = draw(st.sampled_from(["hd1", "hd1", "hv1", "d1"]))
    # own labels in 1/3 of the cases only: while finding C14-n is open every such case ends in its known crash (after all
    # index marginals and all other tensor marginals have been compared) and counts as swallowed, not as accepted
    net = draw(s_net(tier, hyper=flavour != "d1", uniform=flavour == "hv1", min_n=2, own_labels=2,
                     kinds=KINDS_HYPER if flavour != "d1" else KINDS))
    return {"flavour": flavour, "net": net, "opts": draw(s_opts(flavour)),
            "route": draw(st.sampled_from(["object", "function"]))}


def normalised(v):
    v = np.asarray(v, dtype=np.complex128)
    s = np.sum(v)
    return v / s


def run_marg1(case):
    Q, BP = qt()
    from quimb.tensor.belief_propagation import bp_common, hd1bp, hv1bp

    net, o, flavour = case["net"], case["opts"], case["flavour"]
    arrs, sizes, deg, group = build_arrays(net)
    z, mag = exact_value(net, arrs)
    ca = carrs(arrs)

    def measure(o):
        tn = build_tn(net, arrs, group, Q)
        ctor, runkw = run_kwargs(flavour, o, tn, net)
        worst = 0.0
        if flavour == "d1":
            b = BP.D1BP(tn, **ctor)
            b.run(**runkw)
            for ix, tids in tn.ind_map.items():
                ta, tb = tids
                got = normalised(np.asarray(b.messages[ix, ta]) * np.asarray(b.messages[ix, tb]))
                ref = normalised(einsum_value(ca, (ix,)))
                e = rel_err(got, ref)
                worst = max(worst, e)
                if not e <= TOL:
                    raise Violation("index-marginal", flavour=flavour, err=e, kind=net["kind"])
            return worst
        plain = (o["normalize"] is None and o["distance"] is None
                 and (flavour == "hv1" or (o["update"] == "sequential" and not o["diis"])))
        if case["route"] == "function" and plain:
            route = "function"
            if flavour == "hd1":
                messages, conv = hd1bp.run_belief_propagation_hd1bp(
                    tn, messages=ctor.get("messages"), max_iterations=MAXIT, tol=BP_TOL, damping=o["damping"])
            else:
                messages, conv = hv1bp.run_belief_propagation_hv1bp(
                    tn, messages=ctor.get("messages"), max_iterations=MAXIT, tol=BP_TOL, damping=o["damping"],
                    diis=o["diis"])
        else:
            route = "object"
            if flavour == "hd1":
                b = BP.HD1BP(tn, **ctor)
                b.run(**runkw)
                messages = b.messages
            else:
                b = BP.HV1BP(tn, **ctor)
                b.run(**runkw)
                messages = b.get_messages_dense()
        margs = bp_common.compute_all_index_marginals_from_messages(tn, messages)
        if set(margs) != set(tn.ind_map):
            raise Violation("marginal-keys", flavour=flavour)
        for ix in tn.ind_map:
            ref = normalised(einsum_value(ca, (ix,)))
            got = np.asarray(margs[ix])
            e = rel_err(got, ref)
            worst = max(worst, e)
            if not e <= TOL:
                raise Violation("index-marginal", flavour=flavour, err=e, kind=net["kind"], degree=len(tn.ind_map[ix]),
                                route=route)
            one = bp_common.compute_index_marginal(tn, ix, messages)
            if not rel_err(np.asarray(one), got) <= 1e-12:
                raise Violation("index-marginal-single-vs-all", flavour=flavour)
        # tensors that carry a label of their own (rank-1 hyper edge) last: a failure there must not hide the others
        order = sorted(range(len(arrs)), key=lambda i: any(deg[l] == 1 for l in arrs[i][1]))
        for i in order:
            a, ii = arrs[i]
            if not ii:
                continue
            tid = tid_of(tn, i)
            t = tn.tensor_map[tid]
            own = any(deg[l] == 1 for l in ii)
            try:
                got = np.asarray(bp_common.compute_tensor_marginal(tn, tid, messages))
            except TypeError as exc:
                if own and "empty" in str(exc):
                    # product over the *other* tensors of a label that has no other tensor
                    raise Violation("tensor-marginal-own-label-crash", flavour=flavour, exc="TypeError") from None
                raise
            ref = einsum_value(ca, tuple(t.inds))
            ref = ref / np.sum(ref)
            if got.shape != ref.shape:
                raise Violation("tensor-marginal-shape", flavour=flavour, got=list(got.shape), want=list(ref.shape))
            e = rel_err(got, ref)
            worst = max(worst, e)
            if not e <= TOL:
                raise Violation("tensor-marginal", flavour=flavour, err=e, kind=net["kind"], rank=len(ii), route=route)
        return worst

    worst = with_diagnosis(measure, o, flavour, net, sizes)
    cls = ["flavour=" + flavour, "route=" + case["route"]] + net_classes(net, deg) + opt_classes(o)
    return {"nt": nontrivial(net, deg, o), "cls": cls, "err": worst}


# ---------------------------------------------------------------------------
# 8. two-norm marginals and reduced density matrices
# ---------------------------------------------------------------------------

@st.composite
def s_marg2(draw, tier):
    flavour = draw(st.sampled_from(["d2", "d2", "l2"]))
    net = draw(s_net(tier, phys="all", kinds=KINDS_DENSE + ("pos0",), exponents=(0.0,)))
    return {"flavour": flavour, "net": net, "opts": draw(s_opts(flavour)), "pick": draw(st.integers(0, 63))}


def exact_rdm(psi, outer, keep):
    n = len(outer)
    a = list(range(n))
    b = [i + n if outer[i] in keep else i for i in range(n)]
    ko = [outer.index(k) for k in keep]
    rho = np.einsum(psi, a, psi.conj(), b, ko + [k + n for k in ko])
    d = int(np.prod([psi.shape[k] for k in ko]))
    rho = rho.reshape(d, d)
    return rho / np.trace(rho)


def run_marg2(case):
    Q, BP = qt()
    net, o, flavour = case["net"], case["opts"], case["flavour"]
    arrs, sizes, deg, group = build_arrays(net)
    psi, outer, n2, mag = exact_psi(net, arrs, sizes)
    n = net["n"]
    parent = geometry(net)[3]

    def measure(o):
        tn = build_tn(net, arrs, group, Q)
        tn = tn.view_as(Q.TensorNetworkGenVector, site_tag_id="I{}", site_ind_id="k{}", sites=range(n))
        ctor, runkw = run_kwargs(flavour, o, tn, net)
        worst = 0.0
        if flavour == "d2":
            b = BP.D2BP(tn, **ctor)
            b.run(**runkw)
            for i in range(n):
                ix = f"k{i}"
                got = np.asarray(b.compute_marginal(ix))
                ref = np.real(np.diag(exact_rdm(psi, outer, [ix])))
                e = rel_err(got, ref)
                worst = max(worst, e)
                if not e <= TOL:
                    raise Violation("index-marginal", flavour=flavour, err=e, kind=net["kind"])
            # reduced density matrix of one site and of one bonded pair (connected clusters are exact on a tree)
            i = case["pick"] % n
            wheres = [[i]]
            if parent[i] >= 0:
                wheres.append([i, parent[i]])
                wheres.append([parent[i], i])
            for where in wheres:
                got = np.asarray(b.partial_trace(where))
                ref = exact_rdm(psi, outer, [f"k{s}" for s in where])
                e = rel_err(got, ref)
                worst = max(worst, e)
                if not e <= TOL:
                    raise Violation("partial-trace", flavour=flavour, err=e, kind=net["kind"], sites=len(where))
        else:
            b = BP.L2BP(tn, **ctor)
            b.run(**runkw)
            for i in range(n):
                if f"I{i}" not in b.neighbors:
                    continue  # an isolated site has no entry in the neighbour map that partial_trace reads
                got = np.asarray(b.partial_trace(i))
                ref = exact_rdm(psi, outer, [f"k{i}"])
                e = rel_err(got, ref)
                worst = max(worst, e)
                if not e <= TOL:
                    raise Violation("partial-trace", flavour=flavour, err=e, kind=net["kind"], sites=1)
        return worst

    worst = with_diagnosis(measure, o, flavour, net, sizes)
    cls = ["flavour=" + flavour] + net_classes(net, deg) + opt_classes(o)
    return {"nt": nontrivial(net, deg, o), "cls": cls, "err": worst}


# ---------------------------------------------------------------------------
# 9. schedule independence: two option sets on the same network agree
# ---------------------------------------------------------------------------

@st.composite
def s_schedule(draw, tier):
    flavour = draw(st.sampled_from(["d1", "hd1", "hv1", "l1", "d2", "l2"]))
    two = flavour in ("d2", "l2")
    net = draw(s_net(tier, hyper=flavour in ("hd1", "hv1"), uniform=flavour == "hv1", groups=flavour in ("l1", "l2"),
                     phys=draw(st.sampled_from(["opt", "all"])) if two else "none", min_n=3))
    oa, ob = draw(s_opts(flavour)), draw(s_opts(flavour))
    return {"flavour": flavour, "net": net, "a": oa, "b": ob}


def unit(v):
    """message up to scale: unit norm, first largest entry real positive"""
    v = np.asarray(v, dtype=np.complex128).ravel()
    nrm = np.linalg.norm(v)
    if nrm == 0:
        return v
    v = v / nrm
    k = int(np.argmax(np.abs(v) > 0.5 * np.max(np.abs(v))))
    return v * (abs(v[k]) / v[k])


def run_schedule(case):
    Q, BP = qt()
    net, flavour = case["net"], case["flavour"]
    arrs, sizes, deg, group = build_arrays(net)
    two = flavour in ("d2", "l2")
    if two:
        psi, outer, n2, mag = exact_psi(net, arrs, sizes)
    else:
        z, mag = exact_value(net, arrs)
    site_tags = sorted({f"G{g}" for g in group})
    klass = {"d1": BP.D1BP, "hd1": BP.HD1BP, "hv1": BP.HV1BP, "l1": BP.L1BP, "d2": BP.D2BP, "l2": BP.L2BP}[flavour]

    def one(o):
        tn = build_tn(net, arrs, group, Q)
        ctor, runkw = run_kwargs(flavour, o, tn, net)
        if flavour in ("l1", "l2"):
            b = klass(tn, site_tags=site_tags, **ctor)
        else:
            b = klass(tn, **ctor)
        b.run(**runkw)
        val = complex(b.contract(check_zero=False)) if flavour == "hv1" else complex(b.contract())
        m = b.get_messages_dense() if flavour == "hv1" else b.messages
        tags = {tid: sorted(t.tags)[0] for tid, t in tn.tensor_map.items()}
        mm = {}
        for k, v in m.items():
            key = tuple(x if isinstance(x, str) else tags.get(x, x) for x in k)
            mm[key] = unit(v.data if isinstance(v, Q.Tensor) else v)
        return val, mm

    def measure(pair):
        (va, ma), (vb, mb) = one(pair["a"]), one(pair["b"])
        err = rel_scalar(va, vb)
        if not err <= TOL:
            raise Violation("schedule-value", flavour=flavour, err=err, kind=net["kind"])
        if set(ma) != set(mb):
            raise Violation("schedule-message-keys", flavour=flavour)
        worst = err
        for k in ma:
            e = rel_err(ma[k], mb[k])
            worst = max(worst, e)
            if not e <= 10 * TOL:
                raise Violation("schedule-message", flavour=flavour, err=e, kind=net["kind"])
        return worst

    a, b = case["a"], case["b"]
    try:
        worst = measure({"a": a, "b": b})
    except Reject:
        raise
    except Exception as exc:  # noqa: BLE001
        clause = exc.reason if isinstance(exc, Violation) else "crash:" + type(exc).__name__
        risky = [o for o in (a, b) if o["local"] and (o["damping"] > 0 or o["diis"])]
        if flavour in LOCAL_FLAVOURS and risky:
            if passes(measure, {"a": dict(a, local=False), "b": dict(b, local=False)}, clause):
                if any(o["diis"] for o in risky) and (
                        all(o["damping"] == 0 for o in risky) or passes(measure, {"a": dict(a, diis=False), "b": dict(b, diis=False)}, clause)):
                    raise Violation("diis-local-stuck", flavour=flavour, clause=clause) from None
                raise Violation("damped-local-stuck", flavour=flavour, clause=clause) from None
        if flavour in ("d1", "hd1", "hv1", "l1") and net["kind"] == "signed" and any(o["damping"] == 0.5 for o in (a, b)):
            if passes(measure, {"a": dict(a, damping=min(a["damping"], 0.45)), "b": dict(b, damping=min(b["damping"], 0.45))}, clause):
                raise Violation("damped-half-cancel", flavour=flavour, clause=clause) from None
        if flavour in ("d1", "hd1", "hv1", "l1") and net["kind"] == "signed" and any(o["diis"] for o in (a, b)):
            if passes(measure, {"a": dict(a, diis=False), "b": dict(b, diis=False)}, clause):
                raise Violation("diis-sign-mix", flavour=flavour, clause=clause, nonfinite=nonfinite_failure(exc)) from None
        raise
    differ = [k for k in ("damping", "update", "local", "diis", "init", "normalize", "distance") if a[k] != b[k]]
    cls = ["flavour=" + flavour] + net_classes(net, deg) + ["differ=" + k for k in differ]
    return {"nt": net["n"] >= 4 and bool(set(differ) & {"damping", "update", "local", "diis", "init"}), "cls": cls,
            "err": worst}


# ---------------------------------------------------------------------------
# 10-11. gauging / compressing with converged messages and no truncation
# ---------------------------------------------------------------------------

GAUGE_ROUTES = ["gauge_d2bp", "gauge_all_belief_propagation", "gauge_all_belief_propagation_", "gauge_all(bp)",
                "compress_d2bp", "compress_d2bp(inplace)", "D2BP.compress", "D2BP.gauge_symmetric"]


@st.composite
def s_gauge(draw, tier):
    net = draw(s_net(tier, phys="all", kinds=KINDS_DENSE, exponents=(0.0, 0.0, 0.0, 1.5)))
    o = draw(s_opts("d2"))
    o["strip"] = False
    return {"net": net, "opts": o, "route": draw(st.sampled_from(GAUGE_ROUTES))}


def dense_of(tn, outer):
    v = einsum_value(carrs(tn_tensors(tn)), outer)
    return v * 10.0 ** float(getattr(tn, "exponent", 0.0) or 0.0)


def run_gauge(case):
    Q, BP = qt()
    net, o, route = case["net"], case["opts"], case["route"]
    arrs, sizes, deg, group = build_arrays(net)
    psi, outer, n2, mag = exact_psi(net, arrs, sizes)

    def measure(o):
        tn = build_tn(net, arrs, group, Q)
        ref = dense_of(tn, outer)
        ctor, runkw = run_kwargs("d2", o, tn, net)
        kw = dict(ctor)
        kw.update(runkw)
        inplace = False
        if route == "gauge_d2bp":
            out = BP.gauge_d2bp(tn, **kw)
        elif route == "gauge_all_belief_propagation":
            out = tn.gauge_all_belief_propagation(**kw)
        elif route == "gauge_all_belief_propagation_":
            out = tn.gauge_all_belief_propagation_(**kw)
            inplace = True
        elif route == "gauge_all(bp)":
            out = tn.gauge_all("bp", **kw)
        elif route == "compress_d2bp":
            out = BP.compress_d2bp(tn, max_bond=None, cutoff=0.0, **kw)
        elif route == "compress_d2bp(inplace)":
            out = BP.compress_d2bp(tn, max_bond=None, cutoff=0.0, inplace=True, **kw)
            inplace = True
        else:
            b = BP.D2BP(tn, **ctor)
            b.run(**runkw)
            out = b.compress(max_bond=None, cutoff=0.0) if route == "D2BP.compress" else b.gauge_symmetric()
        if inplace and out is not tn:
            raise Violation("inplace-returned-copy", route=route)
        if sorted(out.outer_inds()) != sorted(outer):
            raise Violation("outer-labels-changed", route=route)
        got = dense_of(out, outer)
        err = rel_err(got, ref)
        if not err <= TOL:
            raise Violation("dense-changed", route=route, err=err, kind=net["kind"])
        if not inplace:
            e0 = rel_err(dense_of(tn, outer), ref)
            if not e0 <= 1e-12:
                raise Violation("receiver-mutated", route=route)
        return err

    err = with_diagnosis(measure, o, "d2", net, sizes)
    cls = ["route=" + route] + net_classes(net, deg) + opt_classes(o)
    return {"nt": nontrivial(net, deg, o), "cls": cls, "err": err}


@st.composite
def s_compress_l2(draw, tier):
    net = draw(s_net(tier, phys="all", kinds=KINDS_DENSE, groups=True, exponents=(0.0, 0.0, 0.0, 1.5)))
    o = draw(s_opts("l2"))
    o["strip"] = False
    return {"net": net, "opts": o, "lazy": draw(st.booleans()), "inplace": draw(st.booleans()),
            "route": draw(st.sampled_from(["compress_l2bp", "L2BP.compress"]))}


def run_compress_l2(case):
    Q, BP = qt()
    net, o = case["net"], case["opts"]
    arrs, sizes, deg, group = build_arrays(net)
    psi, outer, n2, mag = exact_psi(net, arrs, sizes)
    site_tags = sorted({f"G{g}" for g in group})

    def measure(o):
        tn = build_tn(net, arrs, group, Q)
        ref = dense_of(tn, outer)
        ctor, runkw = run_kwargs("l2", o, tn, net)
        if case["route"] == "compress_l2bp":
            kw = dict(ctor)
            kw.update(runkw)
            out = BP.compress_l2bp(tn, max_bond=None, cutoff=0.0, site_tags=site_tags, lazy=case["lazy"],
                                   inplace=case["inplace"], **kw)
            inplace = case["inplace"]
        else:
            b = BP.L2BP(tn, site_tags=site_tags, **ctor)
            b.run(**runkw)
            out = b.compress(tn.copy(), max_bond=None, cutoff=0.0, lazy=case["lazy"])
            inplace = False
        if inplace and out is not tn:
            raise Violation("inplace-returned-copy", route=case["route"])
        if sorted(out.outer_inds()) != sorted(outer):
            raise Violation("outer-labels-changed", route=case["route"])
        got = dense_of(out, outer)
        err = rel_err(got, ref)
        if not err <= TOL:
            raise Violation("dense-changed", route=case["route"], err=err, kind=net["kind"], lazy=case["lazy"])
        if not case["lazy"] and out.num_tensors != len(set(group)):
            # documented: "producing a tensor network with a single tensor per site"
            raise Violation("not-one-tensor-per-site", got=out.num_tensors, want=len(set(group)))
        if not inplace and not rel_err(dense_of(tn, outer), ref) <= 1e-12:
            raise Violation("receiver-mutated", route=case["route"])
        return err

    err = with_diagnosis(measure, o, "l2", net, sizes)
    cls = ["route=" + case["route"], "lazy" if case["lazy"] else "eager"] + net_classes(net, deg, group) + opt_classes(o)
    return {"nt": nontrivial(net, deg, o), "cls": cls, "err": err}


# ---------------------------------------------------------------------------
# 12. region graph counting numbers (Kikuchi identity)
# ---------------------------------------------------------------------------

@st.composite
def s_regions(draw, tier):
    nv = draw(st.integers(2, 8))
    nr = draw(st.integers(1, 6))
    regions = [sorted(draw(st.sets(st.integers(0, nv - 1), min_size=1, max_size=min(nv, 5)))) for _ in range(nr)]
    return {"regions": regions, "singles": draw(st.booleans()), "names": draw(st.sampled_from(["int", "str", "tuple"])),
            "route": draw(st.sampled_from(["RegionGraph", "gen_region_counts"])), "autoprune": draw(st.booleans())}


def node_name(v, how):
    if how == "int":
        return v
    if how == "str":
        return f"n{v}"
    return (v // 3, v % 3)


def run_regions(case):
    from quimb.tensor.belief_propagation.regions import RegionGraph, gen_region_counts

    regions = [[node_name(v, case["names"]) for v in r] for r in case["regions"]]
    if case["singles"]:
        # the spelling used by the cluster expansions: every node also as its own region
        nodes = sorted({v for r in case["regions"] for v in r})
        regions = regions + [[node_name(v, case["names"])] for v in nodes]
    if case["route"] == "RegionGraph":
        rg = RegionGraph(regions, autocomplete=True, autoprune=case["autoprune"])
        pairs = [(r, rg.get_count(r)) for r in rg.regions]
        claimed = rg.isbalanced()
    else:
        pairs = list(gen_region_counts(regions, autocomplete=True, autoprune=case["autoprune"]))
        claimed = None
    total = {}
    for r, c in pairs:
        for v in r:
            total[v] = total.get(v, 0) + c
    allnodes = {v for r in regions for v in r}
    bad = sorted((repr(v), total.get(v, 0)) for v in allnodes if total.get(v, 0) != 1)
    distinct = len({frozenset(r) for r in regions})
    if bad:
        # classify: is a region of the intersection closure (with non-zero Moebius count) absent from the result?
        closure = {frozenset(r) for r in regions}
        grew = True
        while grew:
            grew = False
            for x in list(closure):
                for y in list(closure):
                    z = x & y
                    if z and z not in closure:
                        closure.add(z)
                        grew = True
        ref = {}
        for r in sorted(closure, key=len, reverse=True):
            ref[r] = 1 - sum(c for q, c in ref.items() if r < q)
        have = {frozenset(r) for r, c in pairs}
        missing = [r for r, c in ref.items() if c != 0 and r not in have]
        common = bool(frozenset.intersection(*map(frozenset, regions)))
        if missing:
            raise Violation("intersection-missing", route=case["route"], common_node=common, bad=bad[:3])
        raise Violation("node-count-not-one", route=case["route"], common_node=common, bad=bad[:3])
    if claimed is False:
        raise Violation("isbalanced-false", route=case["route"])
    return {"nt": distinct >= 3, "cls": ["route=" + case["route"], f"regions={min(distinct, 6)}",
                                         "singles" if case["singles"] else "bare"], "err": 0.0}


# ---------------------------------------------------------------------------
# 13. combine_local_contractions == product / quotient formula
# ---------------------------------------------------------------------------

@st.composite
def s_combine(draw, tier):
    kind = draw(st.sampled_from(["pos", "signed", "complex"]))
    n = draw(st.integers(0, 7))
    vals = []
    for _ in range(n):
        vals.append([draw(A.seeds), draw(st.sampled_from([1, 1, -1, -1, 2, -2, 3])),
                     draw(st.sampled_from(["unit", "unit", "tiny", "huge", "zero"]))])
    return {"kind": kind, "vals": vals, "strip": draw(st.booleans()), "check_zero": draw(st.booleans()),
            "mantissa": draw(st.sampled_from([None, None, 1.0, -1.0, 2.5])), "exponent": draw(st.sampled_from([None, None, 0.0, 3.0, -250.0])),
            "power": draw(st.sampled_from([1.0, 1.0, 1.0, 2.0, 0.5, -1.0])), "container": draw(st.sampled_from(["numpy", "python", "0d"]))}


def run_combine(case):
    from quimb.tensor.belief_propagation import combine_local_contractions

    kind = case["kind"]
    xs, ps = [], []
    haszero = False
    for seed, p, scale in case["vals"]:
        rng = np.random.default_rng(seed)
        x = rng.uniform(0.3, 3.0)
        if kind == "signed" and rng.random() < 0.5:
            x = -x
        if kind == "complex":
            x = x * np.exp(1j * rng.uniform(-np.pi, np.pi))
        if scale == "tiny":
            x = x * 1e-150
        elif scale == "huge":
            x = x * 1e150
        elif scale == "zero":
            x = x * 0.0
            p = abs(p)
            haszero = True
        xs.append(x)
        ps.append(p)
    power = case["power"]
    if power not in (1.0, 2.0, -1.0) and (kind != "pos" or (case["mantissa"] or 1.0) < 0):
        power = 1.0  # fractional powers of a negative / complex product are branch dependent
    if haszero and (not case["check_zero"]):
        raise Reject("zero factor without check_zero is outside the documented domain (log of zero)")
    if haszero and power < 0:
        power = 1.0
    if case["container"] == "numpy":
        vals = [(np.complex128(x) if kind == "complex" else np.float64(x), p) for x, p in zip(xs, ps)]
    elif case["container"] == "0d":
        vals = [(np.array(x), p) for x, p in zip(xs, ps)]
    else:
        vals = [(complex(x) if kind == "complex" else float(x), p) for x, p in zip(xs, ps)]
    kw = {}
    if case["mantissa"] is not None:
        kw["mantissa"] = case["mantissa"]
    if case["exponent"] is not None:
        kw["exponent"] = case["exponent"]
    if power != 1.0:
        kw["power"] = power
    if case["container"] == "python":
        kw["backend"] = "numpy"
    res = combine_local_contractions(vals, strip_exponent=case["strip"], check_zero=case["check_zero"], **kw)
    # reference in log space
    m0 = case["mantissa"] if case["mantissa"] is not None else 1.0
    e0 = case["exponent"] if case["exponent"] is not None else 0.0
    if haszero:
        # documented: "check for zero values and return zero early"
        if case["strip"]:
            ok = isinstance(res, tuple) and len(res) == 2 and complex(res[0]) == 0
        else:
            ok = complex(res) == 0
        if not ok:
            raise Violation("zero-not-returned", strip=case["strip"])
        return {"nt": len(xs) >= 2, "cls": ["zero", "kind=" + kind], "err": 0.0}
    logmag = math.log10(abs(m0)) + e0
    phase = complex(m0) / abs(m0)
    for x, p in zip(xs, ps):
        logmag += p * math.log10(abs(x))
        phase *= (complex(x) / abs(x)) ** p
    logmag *= power
    phase = phase ** power if power != 1.0 else phase
    if case["strip"]:
        if not (isinstance(res, tuple) and len(res) == 2):
            raise Violation("strip-exponent-shape", got=repr(type(res)))
        m, e = res
        m = complex(m)
        if m == 0 or not math.isfinite(abs(m)):
            raise Violation("mantissa-degenerate", got=repr(m))
        glog = math.log10(abs(m)) + float(np.real(e))
        gphase = m / abs(m)
    else:
        if abs(logmag) > 300:
            # the un-stripped spelling cannot represent it; only the stripped one is meaningful
            return {"nt": False, "cls": ["overflow-unstripped"], "err": 0.0}
        g = complex(res)
        if g == 0 or not math.isfinite(abs(g)):
            raise Violation("value", got=repr(g), want_log10=logmag, kind=kind)
        glog = math.log10(abs(g))
        gphase = g / abs(g)
    err = max(abs(glog - logmag) / max(1.0, abs(logmag)) , abs(gphase - phase))
    if not err <= 1e-9:
        raise Violation("value", err=err, kind=kind, strip=case["strip"], power=power)
    cls = ["kind=" + kind, "strip" if case["strip"] else "plain", f"power={power}", "container=" + case["container"]]
    if any(s in ("tiny", "huge") for _, _, s in case["vals"]):
        cls.append("extreme")
    return {"nt": len(xs) >= 2 and (kind != "pos" or any(p < 0 for p in ps)), "cls": cls, "err": err}


# ---------------------------------------------------------------------------
# 14. on a tree every normalisation helper / loop or cluster expansion entry point reduces to BP == exact
# ---------------------------------------------------------------------------

EXP_ROUTES = {
    "d1": ["normalize_message_pairs", "normalize_tensors", "contract_gloop_expand", "contract_gloop_expand(int)",
           "contract_loop_series_expansion", "contract_with_loops"],
    "hd1": ["normalize_messages", "contract_gloop_expand"],
    "l1": ["normalize_message_pairs"],
    "d2": ["normalize_message_pairs", "normalize_tensors", "contract_gloop_expand", "contract_loop_series_expansion"],
    "l2": ["normalize_message_pairs"],
}


@st.composite
def s_expansions(draw, tier):
    flavour = draw(st.sampled_from(["d1", "d1", "hd1", "l1", "d2", "d2", "l2"]))
    two = flavour in ("d2", "l2")
    net = draw(s_net(tier, hyper=flavour == "hd1", groups=flavour in ("l1", "l2"),
                     phys=draw(st.sampled_from(["opt", "all"])) if two else "none"))
    o = draw(s_opts(flavour))
    return {"flavour": flavour, "net": net, "opts": o, "route": draw(st.sampled_from(EXP_ROUTES[flavour])),
            "strip": draw(st.booleans())}


def run_expansions(case):
    Q, BP = qt()
    net, o, flavour, route = case["net"], case["opts"], case["flavour"], case["route"]
    arrs, sizes, deg, group = build_arrays(net)
    expo = float(net.get("exponent") or 0.0)
    if flavour in ("d2", "l2"):
        psi, outer, n2, mag = exact_psi(net, arrs, sizes)
        ref = n2 * 10.0 ** (2 * expo)
    else:
        z, mag = exact_value(net, arrs)
        ref = z * 10.0 ** expo
    site_tags = sorted({f"G{g}" for g in group})
    klass = {"d1": BP.D1BP, "hd1": BP.HD1BP, "l1": BP.L1BP, "d2": BP.D2BP, "l2": BP.L2BP}[flavour]
    strip = case["strip"]

    def measure(o):
        tn = build_tn(net, arrs, group, Q)
        ctor, runkw = run_kwargs(flavour, o, tn, net)
        b = klass(tn, site_tags=site_tags, **ctor) if flavour in ("l1", "l2") else klass(tn, **ctor)
        b.run(**runkw)
        plain = complex(b.contract())
        e0 = rel_scalar(plain, ref)
        if not e0 <= TOL:
            raise Violation("value", flavour=flavour, route="contract", err=e0, kind=net["kind"])
        if route in ("normalize_message_pairs", "normalize_tensors", "normalize_messages"):
            getattr(b, route)()
            got = unstrip(b.contract(strip_exponent=strip), strip)
        elif route == "contract_gloop_expand(int)":
            got = unstrip(b.contract_gloop_expand(gloops=4, strip_exponent=strip), strip)
        else:
            got = unstrip(getattr(b, route)(strip_exponent=strip), strip)
        err = rel_scalar(got, ref)
        if not err <= TOL:
            if rel_scalar(abs(got), abs(ref)) <= TOL:
                # modulus right, sign / phase wrong
                raise Violation("phase-lost", flavour=flavour, route=route, kind=net["kind"])
            if flavour == "d2" and expo != 0 and rel_scalar(got, ref * 10.0 ** (-expo)) <= TOL:
                # exactly one factor 10**exponent is missing
                raise Violation("exponent-counted-once", flavour=flavour, route=route)
            if flavour == "hd1" and route == "contract_gloop_expand" and rel_scalar(got, 10.0 ** expo) <= TOL:
                # no tensor was counted at all: the result is the bare 10**exponent
                raise Violation("tree-tensors-not-counted", flavour=flavour, route=route)
            if flavour == "hd1" and route == "normalize_messages" and net["kind"] == "signed" and not math.isfinite(abs(got)):
                raise Violation("nan-after-normalize-messages", flavour=flavour, route=route)
            raise Violation("value-after", flavour=flavour, route=route, err=err, kind=net["kind"], exp_nonzero=expo != 0)
        return max(err, e0)

    err = with_diagnosis(measure, o, flavour, net, sizes)
    cls = ["flavour=" + flavour, "route=" + route] + net_classes(net, deg) + opt_classes(o)
    return {"nt": net["n"] >= 4, "cls": cls, "err": err}


# ---------------------------------------------------------------------------
# 15. decimation sampling: on a tree the reported probability omega is the exact probability of the sample
# ---------------------------------------------------------------------------

@st.composite
def s_sample(draw, tier):
    flavour = draw(st.sampled_from(["hd1", "hv1", "d2"]))
    if flavour == "d2":
        net = draw(s_net(tier, phys="all", max_n=6, kinds=KINDS_DENSE, exponents=(0.0,)))
        net["phys"] = [2] * net["n"]  # sample_d2bp draws from [0, 1]
    else:
        net = draw(s_net(tier, hyper=True, uniform=flavour == "hv1", max_n=6, kinds=("pos", "pos", "pos0", "posvar"),
                         exponents=(0.0,)))
    return {"flavour": flavour, "net": net, "seed": draw(st.integers(0, 2 ** 31 - 1)),
            "damping": draw(st.sampled_from([0.0, 0.0, 0.3])), "local": draw(st.booleans()),
            "subset": draw(st.booleans())}


def run_sample(case):
    Q, BP = qt()
    net, flavour = case["net"], case["flavour"]
    arrs, sizes, deg, group = build_arrays(net)
    tn = build_tn(net, arrs, group, Q)
    if flavour == "d2":
        psi, outer, n2, mag = exact_psi(net, arrs, sizes)
        config, tnc, omega = BP.sample_d2bp(tn, seed=case["seed"], tol=BP_TOL, max_iterations=MAXIT, damping=case["damping"],
                                            local_convergence=case["local"])
        if set(config) != set(outer):
            raise Violation("sample-keys", flavour=flavour)
        amp = psi[tuple(int(config[k]) for k in outer)]
        p = float(abs(amp) ** 2 / n2)
        w = complex(einsum_value(carrs(tn_tensors(tnc)), ()))
        if not rel_scalar(w, amp) <= 1e-9:
            raise Violation("sample-network", flavour=flavour)
    else:
        z, mag = exact_value(net, arrs)
        labels = sorted(sizes)
        out = labels[: max(1, len(labels) // 2)] if case["subset"] else None
        fn = BP.sample_hd1bp if flavour == "hd1" else BP.sample_hv1bp
        config, tnc, omega = fn(tn, output_inds=out, seed=case["seed"], tol=BP_TOL, max_iterations=MAXIT,
                                damping=case["damping"])
        if set(config) != set(out if out is not None else labels):
            raise Violation("sample-keys", flavour=flavour)
        # weight of the sampled configuration (the remaining labels summed) / Z
        sel = []
        for a, ii in carrs(arrs):
            idx = tuple(int(config[l]) if l in config else slice(None) for l in ii)
            sel.append((a[idx], tuple(l for l in ii if l not in config)))
        wref = complex(einsum_value(sel, ()))
        p = float(np.real(wref / z))
        w = complex(einsum_value(carrs(tn_tensors(tnc)), ()))
        if not rel_scalar(w, wref) <= 1e-9:
            raise Violation("sample-network", flavour=flavour)
    if not p > 0:
        raise Violation("sampled-impossible-configuration", flavour=flavour, p=p)
    err = abs(float(omega) - p) / max(p, float(omega))
    if not err <= TOL:
        raise Violation("omega", flavour=flavour, err=err, local=bool(case["local"]) if flavour == "d2" else None,
                        damped=case["damping"] > 0)
    cls = ["flavour=" + flavour] + net_classes(net, deg) + (["damped"] if case["damping"] else []) + \
          (["local"] if case["local"] and flavour == "d2" else []) + (["subset"] if case["subset"] and flavour != "d2" else [])
    return {"nt": net["n"] >= 3, "cls": cls, "err": err}


# ---------------------------------------------------------------------------
# 16. deep chains of structured tensors: the stop rules must not end a run whose front is still travelling
# ---------------------------------------------------------------------------

@st.composite
def s_deep(draw, tier):
    flavour = draw(st.sampled_from(["d1", "d1", "hd1", "hd1", "hv1", "hv1", "d2", "d2", "l1", "l2"]))
    return {"flavour": flavour, "L": draw(st.integers(2, 44 if flavour not in ("l1", "l2") else 30)),
            "D": draw(st.sampled_from([2, 2, 3])),
            "mid": draw(st.sampled_from(["eye", "perm", "scaledperm", "scaledperm", "generic"])),
            "update": "parallel" if flavour == "hv1" else draw(st.sampled_from(["parallel", "parallel", "sequential"])),
            "tol": draw(st.sampled_from([BP_TOL, 5e-6])), "reverse": draw(st.booleans()), "seed": draw(A.seeds)}


def deep_chain(case, two):
    """end vector - L structured matrices - end vector (every tensor x a positive vector on its own dangling label for
    the two-norm flavours); returns tensors [(array, inds)] in storage order and the exact value / norm squared"""
    rng = np.random.default_rng(int(case["seed"]))
    L, D = case["L"], case["D"]
    mats = []
    for _ in range(L):
        if case["mid"] == "generic":
            m = rng.uniform(0.2, 1.0, size=(D, D))
        else:
            m = np.eye(D)
            if case["mid"] != "eye":
                m = m[:, rng.permutation(D)]
            if case["mid"] == "scaledperm":
                m = m * rng.uniform(0.5, 2.0, size=D)
        mats.append(m)
    a, b = rng.uniform(0.5, 2.0, size=D), rng.uniform(0.5, 2.0, size=D)
    v = a.copy()
    for m in mats:
        v = v @ m
    z = float(v @ b)
    cores = [(a, ("e0",))] + [(m, (f"e{i}", f"e{i + 1}")) for i, m in enumerate(mats)] + [(b, (f"e{L}",))]
    out, n2 = [], z * z
    for i, (arr, inds) in enumerate(cores):
        if two:
            ph = rng.uniform(0.5, 1.5, size=2)
            arr = np.multiply.outer(arr, ph)
            inds = inds + (f"k{i}",)
            n2 *= float(ph @ ph)
        out.append((arr, inds, i))
    if case["reverse"]:
        out = out[::-1]
    return out, (n2 if two else z)


def run_deep(case):
    Q, BP = qt()
    flavour = case["flavour"]
    two = flavour in ("d2", "l2")
    ts, ref = deep_chain(case, two)
    klass = {"d1": BP.D1BP, "hd1": BP.HD1BP, "hv1": BP.HV1BP, "l1": BP.L1BP, "d2": BP.D2BP, "l2": BP.L2BP}[flavour]
    site_tags = [f"I{i}" for _, _, i in ts]

    # the default message tolerance 5e-6 is only used with structured matrices: there a message is a (scaled) permuted copy,
    # its change is O(1) until the front arrives and exactly 0 afterwards, so a true stop is exact; with generic matrices
    # the messages converge geometrically along the chain and a legitimate stop at 5e-6 leaves an undefined value error
    run_tol = BP_TOL if case["mid"] == "generic" else case["tol"]

    def value(**runkw):
        tn = Q.TensorNetwork([Q.Tensor(a.copy(), inds=ii, tags=[f"I{i}"]) for a, ii, i in ts])
        b = klass(tn, site_tags=site_tags, update=case["update"]) if flavour in ("l1", "l2") else klass(tn, update=case["update"])
        info = {}
        b.run(max_iterations=MAXIT, tol=run_tol, info=info, **runkw)
        return complex(b.contract()), info

    got, info = value()
    tol = TOL
    err = rel_scalar(got, ref)
    if not err <= tol:
        # classify: is it the rolling-mean stop rule (tol_rolling_diff = tol by default; 0 switches it off)?
        got2, info2 = value(tol_rolling_diff=0.0)
        if rel_scalar(got2, ref) <= tol and info.get("converged") and info.get("max_mdiff", 0) > run_tol:
            raise Violation("rolling-diff-false-convergence", flavour=flavour, update=case["update"])
        raise Violation("value", flavour=flavour, err=err, update=case["update"], converged=bool(info.get("converged")),
                        iterations=info.get("iterations"))
    cls = ["flavour=" + flavour, "mid=" + case["mid"], "update=" + case["update"], "L>=18" if case["L"] >= 18 else "L<18",
           "tol=default" if run_tol != BP_TOL else "tol=1e-12"]
    return {"nt": case["L"] >= 18 and case["mid"] != "generic", "cls": cls, "err": err}


# ---------------------------------------------------------------------------
# 17. D2BP.gate_: after applying gates through the BP object the object still describes the gated state
# ---------------------------------------------------------------------------

@st.composite
def s_gate(draw, tier):
    net = draw(s_net(tier, phys="all", max_n=7, kinds=KINDS_DENSE, exponents=(0.0,), forest=False))
    net["phys"] = [2] * net["n"]
    # bonds <= 2 = the dangling size: every message is full rank.  gate_ gauges with sqrt(message) + 1e-12 and un-gauges with
    # the inverse; on rank-deficient messages (bond 3 next to a leaf) that costs ~1e-8, only 70x below the tolerance
    for at in net["attach"]:
        at[2] = min(at[2], 2)
    o = draw(s_opts("d2"))
    o["diis"] = False
    # single-site gates in a minority of the cases only: while finding C14-p is open every such case ends in the known failure
    ops = [[draw(st.sampled_from([2, 2, 2, 2, 1])), draw(st.integers(0, 63)), draw(A.seeds), draw(st.booleans()), draw(st.booleans())]
           for _ in range(draw(st.integers(1, 3)))]
    return {"net": net, "opts": o, "ops": ops, "rerun": draw(st.booleans())}


def run_gate(case):
    Q, BP = qt()
    net, o = case["net"], case["opts"]
    arrs, sizes, deg, group = build_arrays(net)
    psi, outer, n2, mag = exact_psi(net, arrs, sizes)
    n = net["n"]
    parent = geometry(net)[3]
    cplx = net["kind"] == "complex"
    # the gates and the reference state
    ref = np.asarray(psi, dtype=np.complex128)
    gates = []
    for k, pick, gseed, unitary, flip in case["ops"]:
        i = 1 + pick % (n - 1)   # connected tree: every tensor >= 1 has a parent
        where = [i]
        if k == 2 and parent[i] >= 0:
            where = [parent[i], i] if flip else [i, parent[i]]
        d = 2 ** len(where)
        G = A.make_matrix(gseed, "unitary" if unitary else "gauss", d, d, "complex128" if cplx else "float64")
        if not unitary:
            G = G + 2.0 * np.eye(d)  # keep it well conditioned
        ax = [outer.index(f"k{s}") for s in where]
        g = np.asarray(G, dtype=np.complex128).reshape([2] * (2 * len(where)))
        ref = np.moveaxis(np.tensordot(g, ref, axes=(list(range(len(where), 2 * len(where))), ax)), list(range(len(where))), ax)
        gates.append((G, tuple(where), unitary))
    n2g = float(np.sum(np.abs(ref) ** 2))

    def measure(o):
        tn = build_tn(net, arrs, group, Q)
        tn = tn.view_as(Q.TensorNetworkGenVector, site_tag_id="I{}", site_ind_id="k{}", sites=range(n))
        ctor, runkw = run_kwargs("d2", o, tn, net)
        b = BP.D2BP(tn, **ctor)
        b.run(**runkw)
        for G, where, unitary in gates:
            b.gate_(G, where)
            if case["rerun"]:
                b.run(**runkw)
        b.run(**runkw)
        got = einsum_value(carrs(tn_tensors(b.tn)), outer)
        e = rel_err(got, ref)
        if not e <= TOL:
            raise Violation("gated-network", err=e, sites=[len(w) for _, w, _ in gates])
        worst = e
        ev = rel_scalar(complex(b.contract()), n2g)
        worst = max(worst, ev)

        def fresh_ok():
            # a new BP object on the gated network: is only the old object's cached state out of date?
            b2 = BP.D2BP(b.tn.copy(), **{k: v for k, v in ctor.items() if k != "messages"})
            b2.run(**runkw)
            return rel_scalar(complex(b2.contract()), n2g) <= TOL

        if not ev <= TOL:
            raise Violation("value-after-gate", err=ev, sites=sorted({len(w) for _, w, _ in gates}), kind=net["kind"],
                            fresh_ok=fresh_ok())
        for G, where, unitary in gates:
            s0 = where[0]
            rho = np.asarray(b.partial_trace((s0,)))
            er = rel_err(rho, exact_rdm(ref, outer, [f"k{s0}"]))
            worst = max(worst, er)
            if not er <= TOL:
                raise Violation("partial-trace-after-gate", err=er, sites=sorted({len(w) for _, w, _ in gates}), fresh_ok=fresh_ok())
        return worst

    try:
        worst = with_diagnosis(measure, o, "d2", net, sizes)
    except Violation as v:
        if (v.reason in ("value-after-gate", "partial-trace-after-gate") and v.info.get("fresh_ok")
                and any(len(w) == 1 for _, w, _ in gates)):
            # the gated network is right and a fresh D2BP on it is exact: the object that applied a single-site gate is stale
            raise Violation("single-site-gate-stale", clause=v.reason) from None
        raise
    cls = net_classes(net, deg) + opt_classes(o) + [f"gate{len(w)}" + ("u" if u else "g") for _, w, u in gates] + \
          (["rerun-between"] if case["rerun"] else [])
    return {"nt": net["n"] >= 3, "cls": cls, "err": worst}


# ---------------------------------------------------------------------------
# 18. hyper-edge of degree >= 3 where one incoming message has an exactly zero entry (integer data, exact cancellation)
# ---------------------------------------------------------------------------

@st.composite
def s_hyperzero(draw, tier):
    small = st.integers(1, 4)
    return {"flavour": draw(st.sampled_from(["hd1", "hv1"])), "p": draw(small), "q": draw(small), "r": draw(small),
            "b": [draw(small), draw(small)], "c": [draw(small), draw(small)], "extra": draw(st.integers(0, 2)),
            "zero_at": draw(st.integers(0, 1)), "update": draw(st.sampled_from(["sequential", "parallel"])),
            "cancel": draw(st.booleans())}


def run_hyperzero(case):
    Q, BP = qt()
    from quimb.tensor.belief_propagation import bp_common

    p, q, r = float(case["p"]), float(case["q"]), float(case["r"])
    # A[x, y] contracted with d = (1, 1) on y gives the message (0, q + r) (or reversed) to the hyper label x: the zero is an
    # exact cancellation p - p, every entry of A is non-zero
    Aarr = np.array([[p, -p if case["cancel"] else p + 1.0], [q, r]])   # (control without cancellation: no zero entry)
    if case["zero_at"]:
        Aarr = Aarr[::-1].copy()
    arrs = [(Aarr, ("x", "y")), (np.array(case["b"], dtype=float), ("x",)), (np.array(case["c"], dtype=float), ("x",)),
            (np.ones(2), ("y",))]
    for k in range(case["extra"]):
        arrs.append((np.array([1.0 + k, 2.0]), ("x",)))
    flavour = case["flavour"]
    tn = Q.TensorNetwork([Q.Tensor(a.copy(), inds=ii, tags=[f"I{i}"]) for i, (a, ii) in enumerate(arrs)])
    z = complex(einsum_value(carrs(arrs), ()))
    if z == 0:
        raise Reject("zero value")
    if flavour == "hd1":
        b = BP.HD1BP(tn, update=case["update"])
        b.run(max_iterations=MAXIT, tol=BP_TOL)
        messages = b.messages
        val = complex(b.contract())
    else:
        b = BP.HV1BP(tn)
        b.run(max_iterations=MAXIT, tol=BP_TOL)
        messages = b.get_messages_dense()
        val = complex(b.contract())
    worst = rel_scalar(val, z)
    if not worst <= TOL:
        raise Violation("value", flavour=flavour, err=worst)
    for ix in ("x", "y"):
        ref = normalised(einsum_value(carrs(arrs), (ix,)))
        got = np.asarray(bp_common.compute_index_marginal(tn, ix, messages))
        e = rel_err(got, ref)
        worst = max(worst, e)
        if not e <= TOL:
            raise Violation("index-marginal-zero-entry" if case["cancel"] else "index-marginal", flavour=flavour, label=ix, err=e)
    return {"nt": True, "cls": ["flavour=" + flavour, f"degree={3 + case['extra']}", "update=" + case["update"],
                                                "cancel" if case["cancel"] else "control"], "err": worst}


SUBCHECKS = [
    SubCheck("d1bp.contract", run_contract1("d1"), s_contract1("d1"), examples=(300, 3000), shards=(1, 4),
             rule="contract_d1bp on trees/forests (rank-0 components incl.) x all options vs einsum; nt as RULE"),
    SubCheck("hd1bp.contract", run_contract1("hd1"), s_contract1("hd1"), examples=(300, 3000), shards=(1, 4),
             rule="contract_hd1bp incl. hyper-edges of degree 3-4 vs einsum; nt as RULE"),
    SubCheck("hv1bp.contract", run_contract1("hv1"), s_contract1("hv1"), examples=(300, 3000), shards=(1, 4),
             rule="contract_hv1bp (uniform dimension, parallel only) incl. hyper-edges vs einsum; nt as RULE"),
    SubCheck("l1bp.contract", run_contract1("l1"), s_contract1("l1"), examples=(150, 1500), shards=(1, 4),
             rule="contract_l1bp with explicit site_tags, regions = connected sub-trees, vs einsum; nt as RULE"),
    SubCheck("d2bp.contract", run_contract2("d2"), s_contract2("d2"), examples=(250, 2500), shards=(1, 4),
             rule="contract_d2bp vs sum |psi|^2 of the dense vector (dangling labels on some / all tensors); nt as RULE"),
    SubCheck("l2bp.contract", run_contract2("l2"), s_contract2("l2"), examples=(150, 1200), shards=(1, 4),
             rule="contract_l2bp with explicit site_tags (connected regions) vs sum |psi|^2; nt as RULE"),
    SubCheck("marginals.one_norm", run_marg1, s_marg1, examples=(300, 3000), shards=(1, 4),
             rule="index marginals (all labels, incl. hyper) and tensor marginals read from HD1BP / HV1BP / D1BP messages vs "
                  "normalised einsum marginals; nt as RULE"),
    SubCheck("marginals.two_norm", run_marg2, s_marg2, examples=(100, 1000), shards=(2, 8),
             rule="D2BP.compute_marginal for every dangling label, D2BP.partial_trace of one site and one bonded pair, "
                  "L2BP.partial_trace of every site vs reduced density matrices of the dense vector; nt as RULE"),
    SubCheck("schedule.independence", run_schedule, s_schedule, examples=(200, 2500), shards=(1, 4),
             rule="two drawn option sets on the same network (6 flavours, class API): values agree to 1e-6 and messages agree "
                  "up to scale; nt: >=4 tensors and the sets differ in damping/update/local/diis/init"),
    SubCheck("gauge.d2bp", run_gauge, s_gauge, examples=(120, 1200), shards=(2, 8),
             rule="8 spellings of BP gauging / compression with max_bond=None, cutoff=0 on networks with a dangling label on "
                  "every tensor: einsum denotation unchanged, receiver untouched unless inplace; nt as RULE"),
    SubCheck("compress.l2bp", run_compress_l2, s_compress_l2, examples=(120, 1200), shards=(1, 4),
             rule="compress_l2bp / L2BP.compress (lazy and eager, grouped regions) without truncation: denotation unchanged, "
                  "eager result has one tensor per region; nt as RULE"),
    SubCheck("tree.expansions", run_expansions, s_expansions, examples=(300, 3000), shards=(1, 4),
             rule="after convergence: normalize_message_pairs / normalize_tensors / normalize_messages then contract(), "
                  "contract_gloop_expand, contract_loop_series_expansion, contract_with_loops of D1BP/HD1BP/L1BP/D2BP/L2BP on a tree "
                  "(no loops) == exact value incl. the network exponent; nt: >=4 tensors"),
    SubCheck("sample.omega", run_sample, s_sample, examples=(150, 1500), shards=(1, 4),
             rule="sample_hd1bp / sample_hv1bp (positive data, hyper-edges, optional label subset) and sample_d2bp (dangling size 2) "
                  "with explicit seed: returned omega == exact probability of the returned configuration, returned network == the "
                  "selected slice; nt: >=3 tensors"),
    SubCheck("deep_chain.schedule", run_deep, s_deep, examples=(150, 1500), shards=(1, 4),
             rule="chains of 2-44 structured matrices (identity, permutation, scaled permutation; generic as control) between two "
                  "random vectors, 6 flavours (class API), parallel / sequential, tol 1e-12 or the default 5e-6, storage order "
                  "forward / reversed: contract() == exact chain product to 1e-6 (generic matrices always at tol 1e-12); nt: L>=18, structured"),
    SubCheck("d2bp.gate", run_gate, s_gate, examples=(120, 1500), shards=(1, 4),
             rule="1-3 single-site / bonded two-site gates (unitary or well conditioned generic) applied with D2BP.gate_ (no truncation), "
                  "optionally re-running in between: bp.tn == gated dense vector, contract() == its norm squared, partial_trace of the "
                  "gated site == exact; nt: >=3 tensors"),
    SubCheck("hyper.zero_entry", run_hyperzero, s_hyperzero, examples=(60, 600), shards=(1, 2),
             rule="constructed integer networks: a hyper label of degree 3-5 where one incoming message has an exactly zero entry by "
                  "cancellation (no tensor entry is zero; half are controls without cancellation): value and index marginals "
                  "of HD1BP / HV1BP == einsum; all nt"),
    SubCheck("regions.counting", run_regions, s_regions, examples=(1000, 8000), shards=(1, 4),
             rule="RegionGraph / gen_region_counts with autocomplete on random region sets: counting numbers of the regions "
                  "containing any node sum to 1; nt: >=3 distinct generating regions"),
    SubCheck("combine_local", run_combine, s_combine, examples=(800, 8000), shards=(1, 4),
             rule="combine_local_contractions vs log-space product/quotient formula incl. signs, phases, zeros, 1e+-150 factors, "
                  "initial mantissa/exponent, power, strip_exponent; nt: >=2 factors with a sign/phase or a negative power"),
]
