"""C01 — a tensor network denotes one value; every contraction route returns it.

Oracle: numpy.einsum over generator labels (integer-sublist form, so labels on
>= 3 tensors and labels repeated on one tensor are handled) times
10**exponent.  Every sub-check is one family of public entry points.
"""
from __future__ import annotations

import numpy as np
from hypothesis import strategies as st

from .. import arrays as A
from .. import gen as G
from ..core import EXACT32, EXACT64, Reject, SubCheck, Violation, rejecting, rel_err
from ..oracle import einsum_value, tn_tensors

RULE = ("cases are labelled hypergraph networks (1-6 tensors, rank 0-4, dims 1-3, hyper labels, repeated labels, "
        "stored exponent, 4 dtypes) x route/options drawn by Hypothesis; oracle numpy.einsum x 10**exponent; "
        "non-trivial = >=2 tensors and (non-zero exponent or hyper label or a route other than plain contract(all))")
ASSUMPTIONS = [
    "numpy.einsum (integer sublist form) is the trusted denotation",
    "single precision networks are only given exponents |e|<=3 (10**40 overflows float32)",
    "strip_exponent is only compared on networks whose value is not exactly zero",
]


def qtn():
    import quimb.tensor as qtn
    from quimb.tensor.tensor_core import TNLinearOperator

    qtn.TNLinearOperator = TNLinearOperator
    return qtn


def eff_exponent(desc):
    e = float(desc.get("exponent") or 0.0)
    if G.net_single(desc) and abs(e) > 3:
        e = 3.0 if e > 0 else -3.0
    return e


def build(desc, assembly=None):
    """`assembly` (optional) = [kind, seed]: how the same tensors come to be in one network.  'plain' is the constructor
    (tensor ids 0..n-1 in insertion order); the other kinds produce the id orders real histories produce:
    'select_or' = a leading part selected out of a padded network (high ids) combined with the rest (low ids),
    'tids' = add_tensor(tid=...) with a permutation of ids.  The denoted value does not depend on it."""
    d = dict(desc)
    d["exponent"] = eff_exponent(desc)
    tn = G.build_network(d)
    kind, aseed = assembly or ("plain", 0)
    n = tn.num_tensors
    if kind == "plain" or n < 2:
        return tn, d["exponent"]
    Q = qtn()
    ts = list(tn)
    rng = np.random.default_rng(aseed)
    if kind == "select_or":
        k = int(rng.integers(1, n))
        npad = int(rng.integers(1, 4))
        pad = [Q.Tensor(np.ones(()), (), tags="__pad__") for _ in range(npad)]
        big = Q.TensorNetwork(pad + [t.copy() for t in ts[:k]])
        for t in list(big.tensor_map.values())[npad:]:
            t.add_tag("__head__")
        head = big.select("__head__")
        head.drop_tags("__head__")
        # check_collisions=False: with the default, `|` renames labels that are *inner* to the added part, which would cut a
        # hyper label shared by both parts (documented behaviour of combining, not under test here)
        out = head.combine(Q.TensorNetwork([t.copy() for t in ts[k:]]), virtual=True, check_collisions=False)
    else:
        perm = rng.permutation(n).tolist()
        out = Q.TensorNetwork([])
        for t, tid in zip(ts, perm):
            out.add_tensor(t.copy(), tid=int(tid))
    out.exponent = tn.exponent
    return out, d["exponent"]


s_assembly = st.one_of(st.just(["plain", 0]), st.tuples(st.sampled_from(["select_or", "tids"]), st.integers(0, 10**6)).map(list))


def tol_of(desc):
    return EXACT32 if G.net_single(desc) else EXACT64


def as_array(x, want_inds=None):
    """Array of a returned scalar / Tensor, transposed to want_inds when a Tensor."""
    Q = qtn()
    if isinstance(x, Q.Tensor):
        if want_inds is not None:
            if set(x.inds) != set(want_inds) or len(x.inds) != len(want_inds):
                raise Violation("output-labels", got=list(x.inds), want=list(want_inds))
            return np.asarray(x.data), tuple(x.inds)
        return np.asarray(x.data), tuple(x.inds)
    return np.asarray(x), ()


def compare(got, got_inds, ref, ref_inds, scale_log10, mag, tol, **info):
    """got * 10**scale_log10 must equal ref (both arrays; got_inds order is
    checked against ref_inds by the caller when the order is promised)."""
    got = np.asarray(got, dtype=np.complex128)
    if tuple(got_inds) != tuple(ref_inds):
        if sorted(got_inds) != sorted(ref_inds):
            raise Violation("output-labels", got=list(got_inds), want=list(ref_inds), **info)
        perm = [list(got_inds).index(l) for l in ref_inds]
        got = np.transpose(got, perm)
    got = got * 10.0 ** float(scale_log10)
    e = rel_err(got, ref, floor=mag)
    if not (e <= tol):
        raise Violation("value", err=e, tol=tol, **info)
    return e


def random_path(n, seed):
    rng = np.random.default_rng(seed)
    path = []
    m = n
    while m > 1:
        i, j = sorted(rng.choice(m, size=2, replace=False).tolist())
        path.append((i, j))
        m -= 1
    return tuple(path)


def nontrivial(desc, route):
    return len(desc["tensors"]) >= 2 and (eff_exponent(desc) != 0 or G.net_is_hyper(desc) or route != "contract_all")


def classes(desc, route):
    c = [route]
    if eff_exponent(desc) != 0:
        c.append("exp!=0")
    if G.net_is_hyper(desc):
        c.append("hyper")
    if G.net_has_repeat(desc):
        c.append("repeat")
    if G.net_single(desc):
        c.append("single")
    return c


# ---------------------------------------------------------------------------
# 1. full contraction routes
# ---------------------------------------------------------------------------

OPTS = ["default", "auto", "greedy", "optimal", "auto-hq", "path", "tree"]


@st.composite
def s_contract_all(draw, tier):
    desc = draw(G.networks(max_tensors=6 if tier == "quick" else 7))
    out = draw(G.output_choice(desc))
    return {
        "net": desc, "output": out,
        "route": draw(st.sampled_from(["contract", "xor_all", "contract_ellipsis", "contract_inplace", "contract_tags_all",
                                       "tensor_contract", "matmul"])),
        "optimize": draw(st.sampled_from(OPTS)), "strip": draw(st.booleans()),
        "preserve_tensor": draw(st.booleans()), "pseed": draw(st.integers(0, 10**6)), "assembly": draw(s_assembly),
    }


def zero_valued(ref, mag):
    # exactly zero, or zero up to the rounding of the reference itself (an integer tensor summing to exactly 0 makes quimb
    # return 0.0 - whose stripped form is (nan, -inf) - while the pairwise reference is left with -8.7e-19: found by the
    # thorough tier at seed 2): the mantissa / exponent split of such a value is not compared
    return float(np.max(np.abs(ref))) <= 1e-13 * max(mag, 1e-300) if np.size(ref) else True


def run_contract_all(case):
    Q = qtn()
    desc = case["net"]
    tn, expo = build(desc, case.get("assembly"))
    n = tn.num_tensors
    hyper = G.net_is_hyper(desc)
    out = case["output"]
    want = tuple(out) if out is not None else tuple(G.net_outer(desc))
    ref, mag = G.ref_value(desc, want)
    tol = tol_of(desc)
    route = case["route"]
    strip = case["strip"]
    if strip and zero_valued(ref, mag):
        strip = False
    opt = case["optimize"]
    kw = {}
    if opt == "path":
        kw["optimize"] = random_path(n, case["pseed"])
    elif opt == "tree":
        import cotengra as ctg

        inputs = [tuple(t.inds) for t in tn]
        sd = {ix: tn.ind_size(ix) for ix in tn.ind_map}
        # the tree is an object the user built earlier: for odd pseed with the outputs in another order than the one now
        # requested (the requested order is the one promised for the result)
        tree_out = tuple(want) if case["pseed"] % 2 == 0 else tuple(sorted(want, reverse=True))
        kw["optimize"] = ctg.ContractionTree.from_path(inputs, tree_out, sd, path=random_path(n, case["pseed"]))
    elif opt != "default":
        kw["optimize"] = opt
    if out is not None:
        kw["output_inds"] = tuple(out)
    order_promised = out is not None
    if route == "xor_all":
        if out is not None and (hyper or set(out) != set(G.net_outer(desc))):
            raise Reject("operator route has no output_inds")
        res = tn ^ all
        order_promised = False
        strip = False
    elif route == "matmul":
        if n != 2 or hyper or G.net_has_repeat(desc):
            # Tensor.__matmul__ is the documented tensordot shortcut over labels *shared by the two tensors*; a label
            # repeated on one tensor is not traced by it (that corner belongs to contract / tensor_contract)
            raise Reject("@ needs two plain tensors")
        t1, t2 = list(tn)
        if set(want) != set(G.net_outer(desc)):
            raise Reject("matmul has no output_inds")
        res = t1 @ t2
        expo = 0.0
        order_promised = False
        strip = False
    elif route == "contract":
        res = tn.contract(all, strip_exponent=strip, preserve_tensor=case["preserve_tensor"], **kw)
    elif route == "contract_ellipsis":
        res = tn.contract(..., strip_exponent=strip, **kw)
    elif route == "contract_inplace":
        res = tn.contract_(all, strip_exponent=strip, **kw)
    elif route == "contract_tags_all":
        res = tn.contract_tags(all, strip_exponent=strip, **kw)
    elif route == "tensor_contract":
        res = Q.tensor_contract(*tn.tensor_map.values(), strip_exponent=strip, exponent=tn.exponent if strip else None, **kw)
        if not strip:
            expo = 0.0
    else:
        raise AssertionError(route)
    scale = -expo
    if isinstance(res, Q.TensorNetwork):
        # in-place spelling keeps the network: must denote the same value
        got = einsum_value([(a.astype(np.complex128), i) for a, i in tn_tensors(res)], want)
        gi = want
        scale = float(res.exponent) - expo
    else:
        if strip:
            if not (isinstance(res, tuple) and len(res) == 2):
                raise Violation("strip-exponent-shape", got=repr(type(res)))
            res, e = res
            scale = float(e) - expo
        if case["preserve_tensor"] and route == "contract" and not isinstance(res, Q.Tensor):
            raise Violation("preserve-tensor", got=repr(type(res)))
        got, gi = as_array(res, want)
        if order_promised and tuple(gi) != tuple(want):
            raise Violation("output-order", got=list(gi), want=list(want), route=route)
    err = compare(got, gi, ref, want, scale, mag, tol, route=route, exp_nonzero=expo != 0, strip=strip)
    return {"nt": nontrivial(desc, route if route != "contract" or opt != "default" else "contract_all"),
            "cls": classes(desc, route) + ["opt=" + opt], "err": err}


# ---------------------------------------------------------------------------
# 2. partial contraction by tags: the returned network denotes the same value
# ---------------------------------------------------------------------------

@st.composite
def s_contract_tags(draw, tier):
    desc = draw(G.networks(min_tensors=2, hyper=False))
    tags = sorted({t for ts in desc["tensors"] for t in ts["tags"]})
    sel = draw(st.lists(st.sampled_from(tags), min_size=1, max_size=3, unique=True)) if tags else []
    return {
        "net": desc, "tags": sel, "which": draw(st.sampled_from(["any", "all", "!any", "!all"])),
        "route": draw(st.sampled_from(["contract_tags", "contract", "xor", "contract_tags_", "contract_"])),
        "strip": draw(st.booleans()), "optimize": draw(st.sampled_from(["default", "greedy", "path", "tree"])),
        "pseed": draw(st.integers(0, 10**6)), "assembly": draw(s_assembly),
    }


def run_contract_tags(case):
    Q = qtn()
    desc = case["net"]
    if not case["tags"]:
        raise Reject("no tags in network")
    tn, expo = build(desc, case.get("assembly"))
    want = tuple(G.net_outer(desc))
    ref, mag = G.ref_value(desc, want)
    tol = tol_of(desc)
    route, which, strip = case["route"], case["which"], case["strip"]
    if strip and zero_valued(ref, mag):
        strip = False
    nsel = len(tn._get_tids_from_tags(case["tags"], which if route.startswith("contract_tags") else "any"))
    kw = {}
    if case["optimize"] == "greedy":
        kw["optimize"] = "greedy"
    elif case["optimize"] == "path" and nsel >= 1:
        kw["optimize"] = random_path(nsel, case["pseed"])
    elif case["optimize"] == "tree" and nsel >= 2:
        # an explicit tree for the selected part, built the way a user would: from tn.select(...) of the same tags
        sel = tn.select(case["tags"], which if route.startswith("contract_tags") else "any")
        with rejecting(ValueError, tag="tree:"):
            kw["optimize"] = sel.contraction_tree(optimize="greedy", output_inds=None)
    before = tn.copy()
    with rejecting(ValueError, tag="no-match:"):
        if nsel == 0:
            # documented: raises ValueError when nothing matches
            pass
        if route == "contract_tags":
            res = tn.contract_tags(case["tags"], which=which, strip_exponent=strip, **kw)
        elif route == "contract_tags_":
            res = tn.contract_tags_(case["tags"], which=which, strip_exponent=strip, **kw)
        elif route == "contract":
            res = tn.contract(case["tags"], strip_exponent=strip, **kw)
        elif route == "contract_":
            res = tn.contract_(case["tags"], strip_exponent=strip, **kw)
        else:
            res = tn ^ case["tags"]
            strip = False
    if nsel == 0:
        raise Violation("no-match-accepted", route=route)
    scale = -expo
    covered_all = False
    if isinstance(res, Q.TensorNetwork):
        got = einsum_value([(a.astype(np.complex128), i) for a, i in tn_tensors(res)], want)
        gi = want
        scale = float(res.exponent) - expo
        if set(res.outer_inds()) != set(want):
            raise Violation("outer-labels-changed", got=sorted(res.outer_inds()), want=sorted(want))
        if res.num_tensors != len(desc["tensors"]) - nsel + 1:
            raise Violation("tensor-count", got=res.num_tensors, want=len(desc["tensors"]) - nsel + 1)
    else:
        covered_all = True
        if strip:
            if not (isinstance(res, tuple) and len(res) == 2):
                raise Violation("strip-exponent-shape", got=repr(type(res)))
            res, e = res
            scale = float(e) - expo
        got, gi = as_array(res, want)
    if not route.endswith("_"):
        # plain spelling must not touch the receiver
        if float(tn.exponent) != float(before.exponent) or tn.num_tensors != before.num_tensors:
            raise Violation("receiver-mutated", route=route)
    err = compare(got, gi, ref, want, scale, mag, tol, route=route, exp_nonzero=expo != 0, covered_all=covered_all,
                  strip=strip)
    return {"nt": nsel >= 2, "cls": classes(desc, route) + (["covers-all"] if covered_all else ["partial"]) + [f"which={which}"],
            "err": err}


# ---------------------------------------------------------------------------
# 3. cumulative contraction
# ---------------------------------------------------------------------------

@st.composite
def s_cumulative(draw, tier):
    desc = draw(G.networks(min_tensors=2, hyper=False, unique_tags=draw(st.booleans())))
    tags = sorted({t for ts in desc["tensors"] for t in ts["tags"]})
    seq = draw(st.lists(st.lists(st.sampled_from(tags), min_size=1, max_size=2, unique=True), min_size=1, max_size=5)) if tags else []
    return {"net": desc, "seq": seq, "route": draw(st.sampled_from(["contract_cumulative", "rshift", "contract_cumulative_"])),
            "strip": draw(st.booleans())}


def run_cumulative(case):
    Q = qtn()
    desc = case["net"]
    if not case["seq"]:
        raise Reject("no tags")
    tn, expo = build(desc)
    want = tuple(G.net_outer(desc))
    ref, mag = G.ref_value(desc, want)
    tol = tol_of(desc)
    strip = case["strip"]
    if strip and zero_valued(ref, mag):
        strip = False
    route = case["route"]
    with rejecting(ValueError, tag="no-match:"):
        if route == "rshift":
            res = tn >> case["seq"]
            strip = False
        elif route == "contract_cumulative_":
            res = tn.contract_cumulative(case["seq"], strip_exponent=strip, inplace=True)
        else:
            res = tn.contract_cumulative(case["seq"], strip_exponent=strip)
    scale = -expo
    full = False
    if isinstance(res, Q.TensorNetwork):
        got = einsum_value([(a.astype(np.complex128), i) for a, i in tn_tensors(res)], want)
        gi = want
        scale = float(res.exponent) - expo
    else:
        full = True
        if strip:
            if not (isinstance(res, tuple) and len(res) == 2):
                raise Violation("strip-exponent-shape", got=repr(type(res)))
            res, e = res
            scale = float(e) - expo
        got, gi = as_array(res, want)
    err = compare(got, gi, ref, want, scale, mag, tol, route=route, exp_nonzero=expo != 0, full=full, strip=strip)
    return {"nt": len(case["seq"]) >= 2, "cls": classes(desc, route) + (["full"] if full else ["partial"]), "err": err}


# ---------------------------------------------------------------------------
# 4. densification
# ---------------------------------------------------------------------------

@st.composite
def s_to_dense(draw, tier):
    desc = draw(G.networks(hyper=draw(st.booleans()), dims=(1, 2, 3)))
    outer = G.net_outer(desc)
    if G.net_is_hyper(desc):
        # any label may be requested for a hyper network
        outer = draw(st.lists(st.sampled_from(sorted(desc["sizes"])), unique=True, min_size=1, max_size=4))
    perm = draw(st.permutations(outer)) if outer else []
    # split into 1..3 groups
    cuts = sorted(draw(st.lists(st.integers(0, len(perm)), max_size=2)))
    groups, last = [], 0
    for c in cuts + [len(perm)]:
        groups.append(list(perm[last:c]))
        last = c
    return {"net": desc, "groups": groups, "qarray": draw(st.booleans())}


def run_to_dense(case):
    desc = case["net"]
    groups = [g for g in case["groups"]]
    if any(len(g) == 0 for g in groups) or not groups:
        raise Reject("empty group (outside documented domain)")
    tn, expo = build(desc)
    flat = [l for g in groups for l in g]
    ref, mag = G.ref_value(desc, flat)
    shape = [int(np.prod([desc["sizes"][l] for l in g])) for g in groups]
    ref = ref.reshape(shape)
    if not G.net_is_hyper(desc) and set(flat) != set(G.net_outer(desc)):
        raise Reject("to_dense must cover the outer labels")
    got = tn.to_dense(*groups, to_qarray=case["qarray"])
    got = np.asarray(got)
    if got.shape != tuple(shape):
        raise Violation("dense-shape", got=list(got.shape), want=shape)
    e = rel_err(got * 10.0 ** (-expo), ref, floor=mag)
    if not e <= tol_of(desc):
        raise Violation("value", err=e, route="to_dense", exp_nonzero=expo != 0)
    return {"nt": nontrivial(desc, "to_dense"), "cls": classes(desc, "to_dense") + [f"groups={len(groups)}"], "err": e}


# ---------------------------------------------------------------------------
# 5. norm / overlap / trace
# ---------------------------------------------------------------------------

@st.composite
def s_norm(draw, tier):
    desc = draw(G.networks(hyper=False, repeat=False))
    other_seeds = [draw(A.seeds) for _ in desc["tensors"]]
    return {"net": desc, "other_seeds": other_seeds, "other_exp": draw(st.sampled_from([0.0, 1.5, -2.0])),
            "route": draw(st.sampled_from(["norm", "norm_sq", "overlap", "make_norm", "make_overlap", "H@", "trace"])),
            "conj_side": draw(st.booleans())}


def run_norm(case):
    Q = qtn()
    desc = case["net"]
    tn, expo = build(desc)
    route = case["route"]
    outer = tuple(G.net_outer(desc))
    x, mag = G.ref_value(desc, outer)
    x = x * 10.0 ** expo
    tol = tol_of(desc) * 10
    nrm = float(np.sqrt(np.sum(np.abs(x) ** 2)))
    floor = mag * 10.0 ** expo
    info = dict(route=route, exp_nonzero=expo != 0)
    if route in ("norm", "norm_sq", "make_norm"):
        if route == "norm":
            got, ref, fl = tn.norm(), nrm, floor
        elif route == "norm_sq":
            got, ref, fl = tn.norm(squared=True), nrm ** 2, floor ** 2
        else:
            got, ref, fl = tn.make_norm().contract(all), nrm ** 2, floor ** 2
        got = complex(got)
        e = rel_err(np.array(got), np.array(ref), floor=fl)
        if not e <= tol:
            raise Violation("value", err=e, **info)
    elif route in ("overlap", "make_overlap", "H@"):
        d2 = {"tensors": [dict(t, seed=s) for t, s in zip(desc["tensors"], case["other_seeds"])], "sizes": desc["sizes"],
              "exponent": case["other_exp"] if not G.net_single(desc) else 0.0}
        tn2, expo2 = build(d2)
        y, mag2 = G.ref_value(d2, outer)
        y = y * 10.0 ** expo2
        # documented: tn.overlap(other) conjugates *other* and mangles its inner labels itself
        if route == "overlap":
            got, ref = tn.overlap(tn2), np.sum(x * np.conj(y))
        elif route == "make_overlap":
            got, ref = tn.make_overlap(tn2).contract(all), np.sum(x * np.conj(y))
        else:
            # plain combination: only outer labels may be shared, so rename the inner ones
            tn2 = tn2.reindex({ix: ix + "_2" for ix in tn2.inner_inds()})
            got, ref = tn.H @ tn2, np.sum(np.conj(x) * y)
        e = rel_err(np.array(complex(got)), np.array(ref), floor=floor * mag2 * 10.0 ** expo2)
        if not e <= tol:
            raise Violation("value", err=e, **info)
    else:  # trace over two equal-size outer labels
        pairs = [(a, b) for i, a in enumerate(outer) for b in outer[i + 1:] if desc["sizes"][a] == desc["sizes"][b]]
        if not pairs:
            raise Reject("no traceable pair")
        a, b = pairs[0]
        rest = tuple(l for l in outer if l not in (a, b))
        got = tn.trace([a], [b])
        arrs = [(arr.astype(np.complex128), tuple(a if l == b else l for l in inds)) for arr, inds in G.build_arrays(desc)]
        ref = einsum_value(arrs, rest) * 10.0 ** expo
        g, gi = as_array(got, rest)
        e = compare(g, gi, ref, rest, 0.0, floor, tol, **info)
    return {"nt": nontrivial(desc, route), "cls": classes(desc, route), "err": e}


# ---------------------------------------------------------------------------
# 5b. norm / overlap with explicit output labels ('hyper' norms), and the Tensor-level overlap spellings
# ---------------------------------------------------------------------------

@st.composite
def s_norm_out(draw, tier):
    desc = draw(G.networks(repeat=False))
    labels = sorted(desc["sizes"])
    out = draw(st.lists(st.sampled_from(labels), unique=True, max_size=3)) if labels else []
    other_seeds = [draw(A.seeds) for _ in desc["tensors"]]
    return {"net": desc, "out": out, "other_seeds": other_seeds, "other_exp": draw(st.sampled_from([0.0, 1.5, -2.0])),
            "route": draw(st.sampled_from(["norm", "norm_sq", "make_norm", "overlap", "make_overlap", "tensor_overlap_tn",
                                           "tn_overlap_tensor", "tensor_overlap_tensor"]))}


def run_norm_out(case):
    """documented: `output_inds` = the labels treated as outputs (everything else is summed *inside* the ket and, separately,
    inside the bra): norm = Frobenius norm of the tensor denoted over those labels, overlap = sum_O x[O] conj(y[O])"""
    Q = qtn()
    desc = case["net"]
    out = tuple(case["out"])
    route = case["route"]
    tn, expo = build(desc)
    x, mag = G.ref_value(desc, out)
    x = x * 10.0 ** expo
    floor = mag * 10.0 ** expo
    tol = tol_of(desc) * 10
    nrm = float(np.sqrt(np.sum(np.abs(x) ** 2)))
    info = dict(route=route, exp_nonzero=expo != 0, omits_dangling=bool(set(G.net_outer(desc)) - set(out)))
    if route == "norm":
        got, ref, fl = tn.norm(output_inds=out), nrm, floor
    elif route == "norm_sq":
        got, ref, fl = tn.norm(output_inds=out, squared=True), nrm ** 2, floor ** 2
    elif route == "make_norm":
        got, ref, fl = tn.make_norm(output_inds=out).contract(all, output_inds=()), nrm ** 2, floor ** 2
    else:
        d2 = {"tensors": [dict(t, seed=s_) for t, s_ in zip(desc["tensors"], case["other_seeds"])], "sizes": desc["sizes"],
              "exponent": case["other_exp"] if not G.net_single(desc) else 0.0}
        tn2, expo2 = build(d2)
        if route in ("tensor_overlap_tn", "tn_overlap_tensor"):
            if G.net_is_hyper(desc):
                raise Reject("Tensor<->network overlap has no output_inds: plain networks only")
            out = tuple(G.net_outer(desc))  # ... over their outer labels
            x, mag = G.ref_value(desc, out)
            x = x * 10.0 ** expo
        y, mag2 = G.ref_value(d2, out)
        y = y * 10.0 ** expo2
        fl = floor * mag2 * 10.0 ** expo2
        # the argument is the conjugated one, in every spelling; dense operands are the harness's own tensors and get a phase,
        # so that the inner product is not real even for real networks (which side is conjugated then matters)
        ph1, ph2 = 0.6 + 0.8j, 0.8 - 0.6j
        if route == "overlap":
            got, ref = tn.overlap(tn2, output_inds=out), np.sum(x * np.conj(y))
        elif route == "make_overlap":
            got, ref = tn.make_overlap(tn2, output_inds=out).contract(all, output_inds=()), np.sum(x * np.conj(y))
        elif route == "tensor_overlap_tensor":
            tx = Q.Tensor(np.asarray(x * ph1, dtype=np.complex128), out)
            ty = Q.Tensor(np.asarray(y * ph2, dtype=np.complex128), out)
            got, ref = tx.overlap(ty), np.sum((x * ph1) * np.conj(y * ph2))
        elif route == "tensor_overlap_tn":
            tx = Q.Tensor(np.asarray(x * ph1, dtype=np.complex128), out)
            got, ref = tx.overlap(tn2), np.sum((x * ph1) * np.conj(y))
        else:
            ty = Q.Tensor(np.asarray(y * ph2, dtype=np.complex128), out)
            got, ref = tn.overlap(ty), np.sum(x * np.conj(y * ph2))
    e = rel_err(np.array(complex(got)), np.array(ref), floor=fl)
    if not e <= tol:
        raise Violation("value", err=e, **info)
    return {"nt": len(desc["tensors"]) >= 2, "cls": classes(desc, route) + (["omits-dangling"] if info["omits_dangling"] else []) +
            ([f"nout={len(out)}"]), "err": e}


# ---------------------------------------------------------------------------
# 6. exponent book-keeping operations followed by contraction
# ---------------------------------------------------------------------------

@st.composite
def s_exponent_ops(draw, tier):
    desc = draw(G.networks(min_tensors=2, hyper=False, repeat=False,
                           kinds=("gauss", "uniform_pos", "int", "sparse"), dtypes=A.DTYPES64))
    ops = draw(st.lists(st.sampled_from(["multiply", "multiply_spread", "negate", "distribute", "distribute_new",
                                         "equalize", "equalize_v", "strip_one", "select_with", "partition",
                                         "copy", "multiply_each", "and_other", "isub", "astype"]), min_size=1, max_size=4))
    return {"net": desc, "ops": ops, "x": draw(st.sampled_from([2.0, -3.0, 0.5, 1e-3, 7.0])),
            "tag_i": draw(st.integers(0, 5)), "val": draw(st.sampled_from([1.0, 0.5, 3.0]))}


def run_exponent_ops(case):
    Q = qtn()
    desc = case["net"]
    tn, expo = build(desc)
    want = tuple(G.net_outer(desc))
    ref, mag = G.ref_value(desc, want)
    ref = ref * 10.0 ** expo
    floor = mag * 10.0 ** expo
    if zero_valued(ref, floor):
        raise Reject("zero valued network (equalize/strip divide by norms)")
    if min(float(np.linalg.norm(a)) for a, _ in G.build_arrays(desc)) == 0.0:
        raise Reject("zero tensor")
    x = case["x"]
    tags = sorted({t for ts in desc["tensors"] for t in ts["tags"]})
    for op in case["ops"]:
        if op == "multiply":
            tn = tn.multiply(x, spread_over=1)
            ref, floor = ref * x, floor * abs(x)
        elif op == "multiply_spread":
            tn.multiply_(x, spread_over="all")
            ref, floor = ref * x, floor * abs(x)
        elif op == "multiply_each":
            tn = tn.multiply_each(x)
            ref, floor = ref * x ** tn.num_tensors, floor * abs(x) ** tn.num_tensors
        elif op == "negate":
            tn = tn.negate()
            ref = -ref
        elif op == "distribute":
            tn.distribute_exponent()
            if tn.exponent != 0.0:
                raise Violation("distribute-left-exponent", got=float(tn.exponent))
        elif op == "distribute_new":
            tn.distribute_exponent(1.0)
        elif op == "equalize":
            tn = tn.equalize_norms()
        elif op == "equalize_v":
            tn.equalize_norms_(case["val"])
            for t in tn:
                if abs(float(t.norm()) - case["val"]) > 1e-6 * case["val"]:
                    raise Violation("equalize-norm-value", got=float(t.norm()), want=case["val"])
        elif op == "strip_one":
            tid = sorted(tn.tensor_map)[case["tag_i"] % tn.num_tensors]
            tn.strip_exponent(tid, case["val"])
        elif op == "select_with":
            if not tags:
                continue
            tg = tags[case["tag_i"] % len(tags)]
            a = tn.select(tg, which="any", with_exponent=True)
            b = tn.select(tg, which="!any", with_exponent=False)
            tn = a | b
        elif op == "partition":
            if not tags:
                continue
            tg = tags[case["tag_i"] % len(tags)]
            # only the in-place spelling documents what happens to the exponent (it stays on the receiver)
            a, b = tn.partition(tg, inplace=True)
            tn = a | b
        elif op == "copy":
            tn = tn.copy(deep=bool(case["tag_i"] % 2))
        elif op == "and_other":
            s = Q.TensorNetwork([Q.Tensor(np.array(2.0), inds=(), tags="S")])
            s.exponent = 1.0
            tn = tn & s if case["tag_i"] % 2 else s | tn
            ref, floor = ref * 20.0, floor * 20.0
        elif op == "isub":
            s = Q.TensorNetwork([Q.Tensor(np.array(0.5), inds=(), tags="S")])
            s.exponent = -2.0
            tn &= s
            ref, floor = ref * 0.005, floor * 0.005
        elif op == "astype":
            tn = tn.astype("complex128")
    got = einsum_value([(a.astype(np.complex128), i) for a, i in tn_tensors(tn)], want) * 10.0 ** float(tn.exponent)
    e = rel_err(got, ref, floor=floor)
    if not e <= 1e-8:
        raise Violation("value", err=e, ops=case["ops"], route="exponent_ops")
    # and the library's own evaluation agrees
    res = tn.contract(all, output_inds=want)
    g, gi = as_array(res, want)
    e2 = compare(g, gi, ref, want, 0.0, floor, 1e-8, route="exponent_ops/contract", ops=case["ops"])
    return {"nt": True, "cls": ["op=" + o for o in case["ops"]] + (["exp!=0"] if expo else []), "err": max(e, e2)}


# ---------------------------------------------------------------------------
# 7. acting as a linear operator
# ---------------------------------------------------------------------------

@st.composite
def s_linop(draw, tier):
    hyper = draw(st.booleans())
    desc = draw(G.networks(min_tensors=1, hyper=hyper, repeat=False, dims=(1, 2, 3), same_dtype=True,
                           kinds=("gauss", "gauss", "uniform_pos", "int")))
    # construct (rather than hope for) at least two dangling labels
    extra = ["p", "q", "r"]
    while len(G.net_outer(desc)) < 2 or (extra and draw(st.integers(0, 3)) == 0):
        if not extra:
            break
        l = extra.pop(0)
        t = desc["tensors"][draw(st.integers(0, len(desc["tensors"]) - 1))]
        t["inds"].insert(draw(st.integers(0, len(t["inds"]))), l)
        desc["sizes"][l] = draw(st.sampled_from([1, 2, 2, 3]))
    outer = G.net_outer(desc)
    perm = draw(st.permutations(outer)) if outer else []
    k = draw(st.integers(1, max(1, len(perm) - 1)))
    if draw(st.integers(0, 3)) == 0 and len(perm) >= 2:
        # square operator: make the two sides dimension-compatible so trace() is reachable
        k = len(perm) // 2
        perm = list(perm)[: 2 * k]
        for a, b in zip(perm[:k], perm[k:]):
            desc["sizes"][b] = desc["sizes"][a]
    return {"net": desc, "left": list(perm[:k]), "right": list(perm[k:]),
            "view": draw(st.lists(st.sampled_from(["H", "T", "conj", "astype64", "astype128", "copy"]), max_size=3)),
            "act": draw(st.sampled_from(["matvec", "matmat", "to_dense", "trace", "rmatvec", "A", "ldims"])),
            "vseed": draw(A.seeds), "route": draw(st.sampled_from(["aslinearoperator", "TNLinearOperator", "tensors"]))}


def run_linop(case):
    Q = qtn()
    desc = case["net"]
    left, right = case["left"], case["right"]
    if not left or not right:
        raise Reject("operator needs both sides")
    if "astype64" in case["view"] and abs(float(desc.get("exponent") or 0)) > 3:
        desc = dict(desc, exponent=3.0 if desc["exponent"] > 0 else -3.0)  # 10**40 overflows complex64
    if not G.net_is_hyper(desc) and set(left + right) != set(G.net_outer(desc)):
        raise Reject("operator must cover the outer labels")
    tn, expo = build(desc)
    ref, mag = G.ref_value(desc, left + right)
    dl = int(np.prod([desc["sizes"][l] for l in left]))
    dr = int(np.prod([desc["sizes"][l] for l in right]))
    M = ref.reshape(dl, dr) * 10.0 ** expo
    floor = mag * 10.0 ** expo
    route = case["route"]
    single = G.net_single(desc)
    if route == "aslinearoperator":
        lo = tn.aslinearoperator(left, right)
    elif route == "TNLinearOperator":
        lo = Q.TNLinearOperator(tn, left, right)
    else:
        if expo != 0.0:
            raise Reject("a plain tensor list carries no exponent")
        lo = Q.TNLinearOperator(list(tn), left, right)
    def act_on(lo, M, single, views, stage):
        """apply the case's action to one operator object and compare with the dense matrix M"""
        tol = (EXACT32 if single else EXACT64) * 10
        if tuple(lo.shape) != M.shape:
            raise Violation("linop-shape", got=list(lo.shape), want=list(M.shape), views=views)
        rng = np.random.default_rng(case["vseed"])
        act = case["act"]
        cdt = np.complex64 if single else np.complex128
        info = dict(route="linop:" + act, views=views, exp_nonzero=expo != 0, build=route, stage=stage)
        if act == "matvec":
            v = (rng.normal(size=M.shape[1]) + 1j * rng.normal(size=M.shape[1])).astype(cdt)
            got, want = lo @ v, M @ v
            fl = floor * np.linalg.norm(v)
        elif act == "rmatvec":
            v = (rng.normal(size=M.shape[0]) + 1j * rng.normal(size=M.shape[0])).astype(cdt)
            got, want = lo.rmatvec(v), M.conj().T @ v
            fl = floor * np.linalg.norm(v)
        elif act == "matmat":
            V = (rng.normal(size=(M.shape[1], 3)) + 1j * rng.normal(size=(M.shape[1], 3))).astype(cdt)
            got, want = lo @ V, M @ V
            fl = floor * np.linalg.norm(V)
        elif act == "to_dense":
            with rejecting(ValueError, tag="hyper-to_dense:"):
                got = lo.to_dense()
            want, fl = M, floor
        elif act == "A":
            with rejecting(ValueError, tag="hyper-to_dense:"):
                got = lo.A
            want, fl = M, floor
        elif act == "trace":
            if list(lo.ldims) != list(lo.rdims):
                raise Reject("not square side by side")
            with rejecting(ValueError, tag="trace:"):
                got = lo.trace()
            want, fl = np.trace(M), floor
        else:
            got = np.array(list(lo.ldims) + list(lo.rdims))
            want = np.array([s_ for s_ in (lo.ldims + lo.rdims)])
            if int(np.prod(lo.ldims)) != M.shape[0] or int(np.prod(lo.rdims)) != M.shape[1]:
                raise Violation("linop-dims", views=views)
            fl = 1.0
        e = rel_err(np.asarray(got), np.asarray(want), floor=fl)
        if not e <= tol:
            raise Violation("value", err=e, **info)
        return e

    # use history: the base operator is used first, the views are derived from the *used* object, and the base is used
    # again afterwards - cached contractors / cached results shared between an operator and its views must not leak
    base, M0 = lo, M
    e = 0.0
    if case["view"]:
        try:
            e = act_on(base, M0, single, [], "base-before")
        except Reject:
            pass
    views = []
    for v in case["view"]:
        if v == "H":
            lo, M = lo.H, M.conj().T
        elif v == "T":
            lo, M = lo.T, M.T
        elif v == "conj":
            lo, M = lo.conj(), M.conj()
        elif v == "astype64":
            lo = lo.astype("complex64")
            single = True
        elif v == "astype128":
            lo = lo.astype("complex128")
        elif v == "copy":
            lo = lo.copy() if hasattr(lo, "copy") else lo
        views.append(v)
    e = max(e, act_on(lo, M, single, views, "view"))
    if case["view"]:
        try:
            e = max(e, act_on(base, M0, G.net_single(desc), [], "base-after"))
        except Reject:
            pass
    act = case["act"]
    return {"nt": True, "cls": ["act=" + act, "build=" + route] + ["view=" + v for v in views] + (["exp!=0"] if expo else []) +
            (["hyper"] if G.net_is_hyper(desc) else []), "err": e}


# ---------------------------------------------------------------------------
# 8. structured contraction of 1D networks
# ---------------------------------------------------------------------------

@st.composite
def s_structured(draw, tier):
    L = draw(st.integers(2, 7))
    return {"kind": draw(st.sampled_from(["mps", "mpo", "overlap", "expec"])), "L": L, "bond": draw(st.integers(1, 3)),
            "phys": draw(st.sampled_from([1, 2, 3])), "cyclic": L >= 3 and draw(st.booleans()), "seed": draw(A.seeds),
            "dtype": draw(st.sampled_from(A.DTYPES64)), "exponent": draw(st.sampled_from([0.0, 0.0, 2.0, -1.5])),
            "bsz": draw(st.integers(1, 5)), "start": draw(st.integers(0, 6)), "stop": draw(st.integers(0, 7)),
            "route": draw(st.sampled_from(["ellipsis", "slice", "structured", "structured_", "xor_ellipsis", "xor_slice"])),
            "strip": draw(st.booleans()), "drop": draw(st.integers(0, 3))}


def run_structured(case):
    Q = qtn()
    L = case["L"]
    rng_seed = case["seed"] % (2**31)
    kind = case["kind"]
    common = dict(cyclic=case["cyclic"], dtype=case["dtype"], seed=rng_seed)
    if kind == "mps":
        tn = Q.MPS_rand_state(L, case["bond"], phys_dim=case["phys"], **common)
    elif kind == "mpo":
        tn = Q.MPO_rand(L, case["bond"], phys_dim=case["phys"], **common)
    elif kind == "overlap":
        a = Q.MPS_rand_state(L, case["bond"], phys_dim=case["phys"], **common)
        b = Q.MPS_rand_state(L, case["bond"] + 1, phys_dim=case["phys"], cyclic=case["cyclic"], dtype=case["dtype"], seed=rng_seed + 1)
        tn = a.H | b
    else:
        a = Q.MPS_rand_state(L, case["bond"], phys_dim=case["phys"], **common)
        o = Q.MPO_rand(L, 2, phys_dim=case["phys"], cyclic=case["cyclic"], dtype=case["dtype"], seed=rng_seed + 2)
        tn = a.H | o | a.reindex_sites("b{}")
        if not hasattr(tn, "contract_structured"):
            raise Reject("not structured")
    expo = float(case["exponent"])
    tn.exponent = expo
    want = tuple(tn.outer_inds())
    arrs = [(a.astype(np.complex128), i) for a, i in tn_tensors(tn)]
    ref = einsum_value(arrs, want)
    mag = float(np.prod([max(np.linalg.norm(a), 1e-300) for a, _ in arrs]))
    route = case["route"]
    strip = case["strip"] and not zero_valued(ref, mag)
    sl = slice(case["start"] % L, (case["stop"] % (L + 1)) or None)
    kw = {}
    if kind in ("overlap", "expec") and "slice" not in route and not case["cyclic"]:
        kw["structure_bsz"] = case["bsz"]
    if not getattr(tn, "_CONTRACT_STRUCTURED", False):
        raise Reject("class lost structure")
    with rejecting(NotImplementedError, tag="cyclic-slice:"):
        if route == "ellipsis":
            res = tn.contract(..., strip_exponent=strip, **kw)
        elif route == "slice":
            res = tn.contract(sl, strip_exponent=strip)
        elif route == "structured":
            res = tn.contract_structured(..., strip_exponent=strip, **kw)
        elif route == "structured_":
            res = tn.contract_structured(sl, inplace=True, strip_exponent=strip)
        elif route == "xor_ellipsis":
            res = tn ^ ...
            strip = False
        else:
            res = tn ^ sl
            strip = False
    scale = -expo
    if isinstance(res, Q.TensorNetwork):
        got = einsum_value([(a.astype(np.complex128), i) for a, i in tn_tensors(res)], want)
        gi = want
        scale = float(res.exponent) - expo
        if set(res.outer_inds()) != set(want):
            raise Violation("outer-labels-changed", route=route)
    else:
        if strip:
            if not (isinstance(res, tuple) and len(res) == 2):
                raise Violation("strip-exponent-shape", got=repr(type(res)))
            res, e = res
            scale = float(e) - expo
        got, gi = as_array(res, want)
    err = compare(got, gi, ref, want, scale, mag, 1e-8, route="structured:" + route, exp_nonzero=expo != 0, kind=kind,
                  partial=isinstance(res, Q.TensorNetwork), strip=strip)
    return {"nt": L >= 3 and (expo != 0 or "slice" in route or kw.get("structure_bsz", 1) > 1),
            "cls": ["kind=" + kind, "route=" + route] + (["exp!=0"] if expo else []) + (["cyclic"] if case["cyclic"] else []),
            "err": err}


# ---------------------------------------------------------------------------
# 9. local (pairwise / per-label) contraction inside hyper networks
# ---------------------------------------------------------------------------

@st.composite
def s_partial_hyper(draw, tier):
    desc = draw(G.networks(min_tensors=3, max_tensors=6, hyper=True, repeat=False, unique_tags=True, dims=(1, 2, 3),
                           kinds=("gauss", "gauss", "uniform_pos", "int")))
    # make sure a label sits on >= 3 tensors (constructed, not hoped for)
    cnt = G.net_counts(desc)
    if not any(c >= 3 for c in cnt.values()):
        labels = sorted(desc["sizes"]) or ["a"]
        l = draw(st.sampled_from(labels))
        if l not in desc["sizes"]:
            desc["sizes"][l] = 2
        added = 0
        for t in desc["tensors"]:
            if l not in t["inds"] and added < 3:
                t["inds"].append(l)
                added += 1
    n = len(desc["tensors"])
    steps = draw(st.lists(st.tuples(st.sampled_from(["between", "ind", "tags"]), st.integers(0, 1000), st.integers(0, 1000)),
                          min_size=1, max_size=3))
    return {"net": desc, "steps": [list(x) for x in steps]}


def run_partial_hyper(case):
    desc = case["net"]
    tn, expo = build(desc)
    want = tuple(G.net_outer(desc))
    ref, mag = G.ref_value(desc, want)
    tol = tol_of(desc) * 10
    done = []
    hyper_touched = False
    for kind, i, j in case["steps"]:
        if tn.num_tensors < 2:
            break
        tags = sorted(t for t in tn.tag_map if t.startswith("T") and len(tn.tag_map[t]) == 1)
        cnt = {}
        for t in tn:
            for ix in t.inds:
                cnt[ix] = cnt.get(ix, 0) + 1
        if kind == "between":
            if len(tags) < 2:
                continue
            t1, t2 = tags[i % len(tags)], tags[j % len(tags)]
            if t1 == t2:
                continue
            shared = set(tn[t1].inds) & set(tn[t2].inds)
            hyper_touched |= any(cnt[ix] >= 3 for ix in shared)
            tn.contract_between(t1, t2)
        elif kind == "ind":
            inner = sorted(ix for ix, c in cnt.items() if c >= 2)
            if not inner:
                continue
            ix = inner[i % len(inner)]
            # other hyper labels carried by the tensors being merged must survive when they still sit elsewhere
            carriers = [t for t in tn if ix in t.inds]
            hyper_touched |= any(cnt[l] >= 3 and l != ix and sum(l in t.inds for t in carriers) >= 2 for t in carriers for l in t.inds)
            tn.contract_ind(ix)
        else:
            if len(tags) < 2:
                continue
            sel = sorted({tags[i % len(tags)], tags[j % len(tags)]})
            if len(sel) < 2:
                continue
            # documented: a hyper network needs explicit output_inds for a tag-wise partial contraction
            keep = set(want)
            for t in tn:
                if not (set(t.tags) & set(sel)):
                    keep.update(t.inds)
            sel_inds = []
            for s_ in sel:
                for ix in tn[s_].inds:
                    if ix not in sel_inds:
                        sel_inds.append(ix)
            out = tuple(ix for ix in sel_inds if ix in keep)
            shared = set(tn[sel[0]].inds) & set(tn[sel[1]].inds)
            hyper_touched |= any(cnt[ix] >= 3 for ix in shared)
            tn.contract_tags_(sel, which="any", output_inds=out)
        done.append(kind)
        if not set(want) <= set(tn.ind_map):
            raise Violation("outer-label-lost", step=kind, lost=sorted(set(want) - set(tn.ind_map)), hyper_touched=hyper_touched)
        got = einsum_value([(a.astype(np.complex128), i_) for a, i_ in tn_tensors(tn)], want) * 10.0 ** (float(tn.exponent) - expo)
        e = rel_err(got, ref, floor=mag)
        if not e <= tol:
            raise Violation("value", err=e, route="partial_hyper:" + kind, steps=done, hyper_touched=hyper_touched)
    if not done:
        raise Reject("no applicable step")
    return {"nt": hyper_touched, "cls": ["step=" + d for d in done] + (["hyper-label-partially-covered"] if hyper_touched else []), "err": 0.0}


SUBCHECKS = [
    SubCheck("contract_all", run_contract_all, s_contract_all, examples=(250, 4000), shards=(2, 8),
             rule="full contraction through 7 routes x 7 optimizers/paths/trees x strip_exponent; nt: >=2 tensors and (exponent!=0 or hyper or non-default route/optimizer)"),
    SubCheck("contract_tags", run_contract_tags, s_contract_tags, examples=(250, 4000), shards=(2, 6),
             rule="partial/total contraction by tags (any/all/!any/!all, 5 spellings); returned network re-evaluated by einsum; nt: >=2 tensors selected"),
    SubCheck("cumulative", run_cumulative, s_cumulative, examples=(200, 3000), shards=(1, 4),
             rule="contract_cumulative / >> over tag-group sequences; nt: >=2 groups"),
    SubCheck("to_dense", run_to_dense, s_to_dense, examples=(200, 3000), shards=(1, 4),
             rule="to_dense over grouped label permutations incl. hyper networks; nt as RULE"),
    SubCheck("norm_overlap_out", run_norm_out, s_norm_out, examples=(250, 3000), shards=(1, 4),
             rule="networks incl. hyper labels x explicit output_inds (any subset of the labels, incl. ones that omit a dangling "
                  "label) x norm / norm(squared) / make_norm / overlap / make_overlap, and the Tensor.overlap(Tensor | network) / "
                  "network.overlap(Tensor) spellings; reference = Frobenius norm / inner product of the einsum tensors over the "
                  "output labels (the argument conjugated); nt: >= 2 tensors"),
    SubCheck("norm_overlap_trace", run_norm, s_norm, examples=(200, 3000), shards=(1, 4),
             rule="norm, norm(squared), overlap, make_norm, make_overlap, H@, trace vs dense; nt as RULE"),
    SubCheck("exponent_ops", run_exponent_ops, s_exponent_ops, examples=(200, 3000), shards=(1, 4),
             rule="sequences of 1-4 exponent book-keeping operations (multiply, negate, distribute, equalize, strip, select, partition, combine) then evaluation; all nt"),
    SubCheck("linop", run_linop, s_linop, examples=(300, 4000), shards=(2, 6),
             rule="TNLinearOperator built 3 ways, composed views (H,T,conj,astype,neg) x 7 actions vs dense matrix; all nt"),
    SubCheck("partial_hyper", run_partial_hyper, s_partial_hyper, examples=(250, 4000), shards=(1, 4),
             rule="hyper networks with a label on >= 3 tensors (constructed) x 1-3 local contractions (contract_between, contract_ind, "
                  "contract_tags_ with explicit output_inds): the remaining network still denotes the value; nt: a step merged some but "
                  "not all carriers of a hyper label"),
    SubCheck("structured_1d", run_structured, s_structured, examples=(150, 2500), shards=(1, 4),
             rule="MPS/MPO/overlap/expectation networks contracted structurally (..., slices, bsz 1-5, exponent); nt: L>=3 and (exponent or slice or bsz>1)"),
]
