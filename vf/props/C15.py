"""C15 — Kronecker, embedding, permutation and partial-trace routines obey their algebra.

Oracles (numpy only): ``np.kron`` with explicit identities, reshape-transpose-
reshape for subsystem permutations, ``np.einsum`` partial trace, brute-force
mixed-radix coordinate enumeration for ``dim_map`` / ``dim_compress``, textbook
spin-1/2 chains assembled with ``np.kron`` for the Hamiltonian builders.  Every
sub-check is one entry point (or one mode of it) so that one defect does not
hide the rest.
"""
from __future__ import annotations

import itertools
import zlib

import numpy as np
import scipy.sparse as sp
from hypothesis import strategies as st

from .. import arrays as A
from ..core import EXACT32, EXACT64, Reject, SubCheck, Violation, rel_err
from ..oracle import embed, kron_all, ptrace

RULE = ("cases are subsystem dimension lists (length 1-5 over {1,2,3,4}, total dimension <= 1024, <= 64 for the python-loop "
        "sparse partial trace), ordered index subsets, operators / kets / density operators built from Hypothesis-drawn "
        "seeds in dense, csr, csc, coo, bsr form, and the documented options (sparse, stype, coo_build, parallel, ownership); "
        "two exhaustive grids: kron(*ops, ownership=(ri,rf)) over all dims in {1,2,3}^(<=4) x 6 storage kinds x every "
        "0<=ri<rf<=D, and every ham_* builder that accepts `ownership` x every row range for chains of 2-4 (thorough 5) spins; "
        "non-trivial = >=3 subsystems with mixed dims and a non-sorted index subset (per sub-check rules below for "
        "the routines that have no index subset)")
ASSUMPTIONS = [
    "np.kron, np.transpose/reshape and np.einsum are the trusted reference semantics",
    "partial_trace documents `ket or density operator`: only kets and Hermitian operators are generated (the sparse "
    "path fills the lower triangle by conjugation); bras are not given to partial_trace",
    "partial_trace returns the kept subsystems in subsystem order whatever the order of `keep` (dense and sparse paths "
    "agree on this; the docstring only shows sorted `keep`), so the reference uses sorted(keep)",
    "ikron with several operators is only generated with one operator per listed subsystem (cyclic assignment "
    "inds[i] <- ops[i % len(ops)]); mixing overlay blocks with several operators is undocumented and not generated",
    "a 1x1 object is both a ket and an operator for quimb; total dimension 1 is excluded from permute / partial_trace",
    "ham_mbl is only compared with its own full object for the same explicit seed (its field values come from the "
    "global numpy RNG); the other builders are also compared with an independent np.kron chain where the lattice has "
    "no doubled bonds",
]

FMTS = ("csr", "csc", "coo", "bsr")
STORE = ("dense", "ndarray") + FMTS
SX = np.array([[0, 1], [1, 0]], dtype=complex) / 2
SY = np.array([[0, -1j], [1j, 0]], dtype=complex) / 2
SZ = np.array([[1, 0], [0, -1]], dtype=complex) / 2
SXYZ = (SX, SY, SZ)


def Q():
    import quimb as qu

    return qu


def dense(x):
    if sp.issparse(x):
        return np.asarray(x.toarray())
    return np.asarray(x)


def store(a, fmt):
    """The 2-D array `a` in the requested storage."""
    if fmt == "dense":
        return Q().qarray(a)
    if fmt == "ndarray":
        return np.array(a)
    return sp.csr_matrix(a).asformat(fmt)


def make_op(seed, kind, shape, dtype):
    """make_array plus integer blocks: `bigint` entries are odd and up to 2**26 in magnitude (not representable in
    single precision), `int` entries are in -2..2, so a product with one bigint factor is exact in int64 and float64."""
    if dtype == "int64":
        rng = np.random.default_rng(int(seed))
        shape = tuple(int(x) for x in shape)
        if kind == "bigint":
            return (2 * rng.integers(-2 ** 25, 2 ** 25, size=shape) + 1).astype(np.int64)
        return rng.integers(-2, 3, size=shape).astype(np.int64)
    return A.make_array(seed, kind, shape, dtype)


def int_kinds(ops):
    """Integer family: exactly one big-integer factor, the rest small integers."""
    for i, o in enumerate(ops):
        o["dtype"] = "int64"
        o["kind"] = "bigint" if i == 0 else "int"
    return ops


def is_sparse_fmt(fmt):
    return fmt in FMTS


def tol_dt(*dts):
    return EXACT32 if any(str(d) in ("float32", "complex64") for d in dts) else EXACT64


def prod(xs):
    out = 1
    for x in xs:
        out *= int(x)
    return out


def own_from(u, v, D):
    """A row range 0 <= ri < rf <= D from two drawn integers."""
    ri = u % D
    rf = ri + 1 + v % (D - ri)
    return ri, rf


def check_close(got, ref, tol, floor, reason="value", **info):
    got = dense(got)
    ref = np.asarray(ref)
    if got.shape != ref.shape:
        raise Violation("shape", got=list(got.shape), want=list(ref.shape), **info)
    e = rel_err(got, ref, floor=floor)
    if not e <= tol:
        raise Violation(reason, err=e, **info)
    return e


def mixed(dims):
    d = [x for x in dims if x > 1]
    return len(set(d)) >= 2


def unsorted(inds):
    return list(inds) != sorted(inds)


s_fmt = st.sampled_from(STORE)
s_sfmt = st.sampled_from(FMTS)
s_kind = st.sampled_from(["gauss", "gauss", "sparse", "int"])
s_dtype = st.sampled_from(["float64", "complex128", "complex128", "float32", "complex64"])
s_dtype64 = st.sampled_from(A.DTYPES64)


@st.composite
def s_dims(draw, min_n=1, max_n=5, vals=(1, 2, 2, 3, 3, 4), cap=1024, need_nontrivial=True):
    n = draw(st.sampled_from([k for k in (1, 2, 3, 3, 4, 4, 5, 5) if min_n <= k <= max_n]))
    dims = []
    for _ in range(n):
        ok = [v for v in vals if prod(dims) * v <= cap] or [1]
        dims.append(draw(st.sampled_from(ok)))
    if need_nontrivial and prod(dims) == 1:
        dims[draw(st.integers(0, n - 1))] = draw(st.sampled_from([2, 3]))
    return dims


def s_size(draw, n, empty=False):
    """Size of an index subset of range(n): proper subsets preferred, everything / one / nothing still reachable."""
    opts = ([0] if empty else []) + [1] + list(range(2, n)) * 3 + [n]
    return draw(st.sampled_from([o for o in opts if o <= n]))


# ---------------------------------------------------------------------------
# 1. exhaustive: kron(*ops, ownership=(ri, rf)) == full[ri:rf]
# ---------------------------------------------------------------------------

GRID_KINDS = ("dense", "csr", "coo", "csc", "bsr", "mixed")


def enum_kron_grid(tier):
    for nops in (1, 2, 3, 4) if tier == "quick" else (1, 2, 3, 4, 5):
        for dims in itertools.product((1, 2, 3), repeat=nops):
            seed = zlib.crc32(repr(dims).encode())
            rng = np.random.default_rng(seed)
            cols = [int(c) for c in rng.integers(1, 4, size=nops)]
            for kind in GRID_KINDS:
                yield {"dims": list(dims), "cols": cols, "kind": kind, "seed": seed,
                       "dtype": "complex128" if (seed >> 3) % 2 else "float64"}


def bsr_possible(fmts):
    """kron builds a bsr matrix when an operand is bsr or a sparse block meets a dense one."""
    sparse = [f for f in fmts if is_sparse_fmt(f)]
    return "bsr" in fmts or (bool(sparse) and len(sparse) < len(fmts))


def grid_formats(case):
    kind = case["kind"]
    if kind == "mixed":
        fm = ["dense", "csr", "coo", "csc", "bsr"]
        return [fm[(i + case["seed"]) % 5] for i in range(len(case["dims"]))]
    return [kind] * len(case["dims"])


def run_kron_grid(case):
    qu = Q()
    ops_d = [A.make_array(case["seed"] + 7 * i, "gauss", (d, c), case["dtype"])
             for i, (d, c) in enumerate(zip(case["dims"], case["cols"]))]
    fmts = grid_formats(case)
    ops = [store(o, f) for o, f in zip(ops_d, fmts)]
    ref = kron_all(ops_d)
    D = ref.shape[0]
    mag = float(np.linalg.norm(ref))
    amax = float(np.max(np.abs(ref)))
    kind = case["kind"]
    own_full = dense(qu.kron(*ops))
    e = check_close(own_full, ref, 1e-13, mag, kind=kind, clause="full")
    n = nt = unserved = 0
    want_sparse = any(is_sparse_fmt(f) for f in fmts)
    may_bsr = bsr_possible(fmts)
    for ri in range(D):
        for rf in range(ri + 1, D + 1):
            try:
                X = qu.kron(*ops, ownership=(ri, rf))
            except NotImplementedError:
                if may_bsr:
                    unserved += 1  # reported once per chunk, after every other cell has been checked
                    continue
                raise
            if sp.issparse(X) != want_sparse:
                raise Violation("container", kind=kind, own=[ri, rf], got=type(X).__name__)
            Xd = dense(X)
            if Xd.shape != (rf - ri, ref.shape[1]):
                raise Violation("own-shape", kind=kind, own=[ri, rf], got=list(Xd.shape), want=[rf - ri, ref.shape[1]])
            # the statement: exactly the rows of the full object.  Each entry is one product of the same
            # factors, so only the last-bit rounding of (complex) products may differ.
            d = float(np.max(np.abs(Xd - own_full[ri:rf])))
            if not d <= 1e-13 * amax:
                raise Violation("own-rows", kind=kind, own=[ri, rf], D=D, err=d / max(amax, 1e-300))
            e = max(e, d / max(amax, 1e-300))
            n += 1
            if (ri, rf) != (0, D) and sum(d_ > 1 for d_ in case["dims"]) >= 2:
                nt += 1
    if unserved:
        raise Violation("format-unsupported", entry="ownership-slice-bsr", kind=kind)
    return {"nt": nt > 0, "n": n, "nt_n": nt, "cls": ["kind=" + kind, "nops=%d" % len(ops)], "err": e}


# ---------------------------------------------------------------------------
# 2. kron / kronpow / & over storage formats, shapes and options
# ---------------------------------------------------------------------------

@st.composite
def s_kron_formats(draw, tier):
    n = draw(st.integers(1, 5))
    dvals = (1, 2, 3, 4) if n <= 4 else (1, 2, 3)
    shape_kind = draw(st.sampled_from(["op", "op", "ket", "bra", "rect", "any"]))
    dt0 = draw(s_dtype)
    ints = draw(st.integers(0, 5)) == 0  # integer blocks (docstring example of kron uses them)
    single = dt0 in ("float32", "complex64")
    ops = []
    for _ in range(n):
        d = draw(st.sampled_from(dvals))
        sk = shape_kind if shape_kind != "any" else draw(st.sampled_from(["op", "ket", "bra", "rect"]))
        shape = {"op": (d, d), "ket": (d, 1), "bra": (1, d), "rect": (d, draw(st.sampled_from(dvals)))}[sk]
        dt = draw(st.sampled_from(["float32", "complex64"] if single else ["float64", "complex128"]))
        ops.append({"shape": list(shape), "fmt": draw(s_fmt), "kind": draw(s_kind), "seed": draw(A.seeds), "dtype": dt})
    if ints:
        int_kinds(ops)
        if draw(st.booleans()):
            for o in ops:  # the precision question only arises on the all-dense path
                o["fmt"] = draw(st.sampled_from(["dense", "ndarray"]))
    any_sparse = any(is_sparse_fmt(o["fmt"]) for o in ops)
    # sparse-only options are mostly drawn when something is sparse (documented: they concern sparse results)
    allow = any_sparse or draw(st.integers(0, 7)) == 0
    return {
        "ops": ops,
        "route": draw(st.sampled_from(["kron", "kron", "and", "kronpow"])),
        "stype": draw(st.sampled_from([None, None] + list(FMTS))) if allow else None,
        "coo_build": draw(st.booleans()) if allow else False,
        "parallel": draw(st.booleans()),
        "own": draw(st.one_of(st.none(), st.tuples(st.integers(0, 10**6), st.integers(0, 10**6)))),
        "power": draw(st.integers(1, 3)),
    }


def run_kron_formats(case):
    qu = Q()
    route = case["route"]
    specs = case["ops"]
    if route == "kronpow":
        specs = [specs[0]] * case["power"]
        if specs[0]["dtype"] == "int64" and case["power"] > 1:
            specs = [dict(specs[0], kind="int")] * case["power"]  # bigint**p would leave the exact range
    arrs = [make_op(o["seed"], o["kind"], o["shape"], o["dtype"]) for o in specs]
    ints = any(o["dtype"] == "int64" for o in specs)
    fm = [o["fmt"] for o in specs]
    if route == "and":
        fm = ["dense" if f == "ndarray" else f for f in fm]  # & on a bare ndarray is numpy's bitwise and
    ops = [store(a, f) for a, f in zip(arrs, fm)]
    ref = kron_all(arrs)
    mag = float(np.prod([max(np.linalg.norm(a), 1e-300) for a in arrs]))
    tol = tol_dt(*[o["dtype"] for o in specs])
    any_sparse = any(is_sparse_fmt(f) for f in fm)
    kw = {}
    own = None
    if route != "and":
        if case["stype"] is not None:
            kw["stype"] = case["stype"]
        if case["coo_build"]:
            kw["coo_build"] = True
        if case["parallel"]:
            kw["parallel"] = True
        if case["own"] is not None:
            own = own_from(*case["own"], ref.shape[0])
            kw["ownership"] = own
            ref = ref[own[0]:own[1]]
    info = dict(route=route, sparse_in=any_sparse, opts=sorted(k for k in kw if k != "ownership"), own=own is not None)
    if route == "and":
        X = ops[0]
        for o in ops[1:]:
            X = X & o
    else:
        try:
            if route == "kronpow":
                X = qu.kronpow(ops[0], case["power"], **kw)
            else:
                X = qu.kron(*ops, **kw)
        except AttributeError as e:
            if not any_sparse and ("stype" in kw or "coo_build" in kw):
                # documented: stype / coo_build only concern sparse results
                raise Violation("dense-with-sparse-option", entry="kron", msg=str(e)[:80])
            raise
        except NotImplementedError:
            if own is not None and bsr_possible(["dense" if f == "ndarray" else f for f in fm]):
                raise Violation("format-unsupported", entry="ownership-slice-bsr", kind="formats")
            raise
    if sp.issparse(X) != any_sparse:
        raise Violation("container", got=type(X).__name__, **info)
    if any_sparse and kw.get("stype") and X.format != kw["stype"]:
        raise Violation("stype-ignored", entry="kron", got=X.format, want=kw["stype"])
    if ints:
        Xd = dense(X)
        ei = rel_err(Xd, ref, floor=mag) if Xd.shape == ref.shape else float("inf")
        if Xd.shape == ref.shape and tol < ei < 1e-6:  # single-precision rounding scale; anything larger is a plain value error
            raise Violation("int-precision", entry="kron", got_dtype=str(Xd.dtype), err=ei, sparse_in=any_sparse)
    e = check_close(X, ref, tol, mag, **info)
    shapes = {tuple(o["shape"]) for o in specs}
    return {"nt": len(specs) >= 3 and len(shapes) >= 2 and (any_sparse or own is not None),
            "cls": ["route=" + route, "sparse" if any_sparse else "dense"] + ["fmt=" + f for f in set(fm)] +
                   ["opt=" + k for k in kw] + ["n=%d" % len(specs)] + (["int64"] if ints else []), "err": e}


# ---------------------------------------------------------------------------
# 3. ikron: embedding == kron with identities
# ---------------------------------------------------------------------------

@st.composite
def s_ikron(draw, tier):
    mode = draw(st.sampled_from(["sites", "sites", "sites", "overlay", "auto", "int"]))
    dims = draw(s_dims(max_n=5, need_nontrivial=False))
    n = len(dims)
    ops = []
    dt = draw(s_dtype)
    pair = ["float32", "complex64"] if dt in ("float32", "complex64") else ["float64", "complex128"]

    def op(sz):
        return {"size": sz, "fmt": draw(s_fmt), "kind": draw(s_kind), "seed": draw(A.seeds), "dtype": draw(st.sampled_from(pair))}

    if mode == "overlay":
        a = draw(st.integers(0, n - 1))
        b = draw(st.integers(a + 1, n))
        inds = draw(st.permutations(list(range(a, b))))
        if b - a >= 2 and prod(dims[a:b]) == 1:
            # a 1x1 operator on several 1-dimensional sites reads equally as "one copy per site": not an overlay
            dims[draw(st.integers(a, b - 1))] = 2
        inds = list(inds)
        if b - a >= 3 and draw(st.booleans()):
            # "span" spelling used by ham_j1j2: only some sites of the block are listed (both ends always are);
            # the operator still covers the whole span first..last
            inner = [i for i in inds if a < i < b - 1]
            drop = set(draw(st.lists(st.sampled_from(inner), min_size=1, max_size=len(inner), unique=True)))
            inds = [i for i in inds if i not in drop]
            if dims[a] == 1:
                dims[a] = 2  # quimb only keeps accumulating over unlisted sites once the running size exceeds 1
        ops = [op(prod(dims[a:b]))]
    elif mode == "int":
        inds = draw(st.integers(0, n - 1))
        ops = [op(dims[inds])]
    else:
        m = s_size(draw, n)
        inds = list(draw(st.permutations(list(range(n))))[:m])
        k = draw(st.sampled_from([1] + list(range(2, m + 1)) * 2))
        sizes = [draw(st.sampled_from([1, 2, 2, 3, 4])) for _ in range(k)]
        if mode == "auto":
            for i in inds:
                dims[i] = -1
        else:
            for i, ind in enumerate(inds):
                dims[ind] = sizes[i % k]
        ops = [op(s) for s in sizes]
    if draw(st.integers(0, 6)) == 0:
        int_kinds(ops)
        if draw(st.booleans()):
            for o in ops:
                o["fmt"] = draw(st.sampled_from(["dense", "ndarray"]))
    any_sparse = any(is_sparse_fmt(o["fmt"]) for o in ops)
    sparse = draw(st.sampled_from([None, None, True, False]))
    span = mode == "overlay" and len(inds) < max(inds) - min(inds) + 1
    will_sparse = sparse is True or (sparse is None and any_sparse) or any_sparse
    allow = will_sparse or draw(st.integers(0, 9)) == 0
    return {
        "mode": mode, "span": span, "dims": dims, "inds": inds, "ops": ops, "bare": mode in ("overlay", "int") and draw(st.booleans()),
        "sparse": sparse, "stype": draw(st.sampled_from([None, None] + list(FMTS))) if allow else None,
        "coo_build": draw(st.booleans()) if allow else False, "parallel": draw(st.integers(0, 3)) == 0,
        "own": draw(st.one_of(st.none(), st.none(), st.tuples(st.integers(0, 10**6), st.integers(0, 10**6)))),
    }


def ikron_reference(case, arrs):
    """List of kron factors in subsystem order."""
    dims, inds, mode = case["dims"], case["inds"], case["mode"]
    n = len(dims)
    if mode == "int":
        inds = [inds]
    if mode == "overlay":
        a, b = min(inds), max(inds) + 1
        facs = [np.eye(d) for d in dims[:a]] + [arrs[0]] + [np.eye(d) for d in dims[b:]]
        return facs
    at = {ind: arrs[i % len(arrs)] for i, ind in enumerate(inds)}
    return [at[i] if i in at else np.eye(dims[i]) for i in range(n)]


def run_ikron(case):
    qu = Q()
    specs = case["ops"]
    for o in specs:
        if o["size"] < 1:
            raise Reject("empty operator")
    ints = any(o["dtype"] == "int64" for o in specs)
    if ints and case["mode"] in ("sites", "auto") and len(case["inds"]) > len(specs):
        # the big-integer operator would be placed more than once: its powers leave the exact int64 / float64 range
        specs = [dict(o, kind="int") for o in specs]
    arrs = [make_op(o["seed"], o["kind"], (o["size"], o["size"]), o["dtype"]) for o in specs]
    ops = [store(a, o["fmt"]) for a, o in zip(arrs, specs)]
    facs = ikron_reference(case, arrs)
    ref = kron_all(facs)
    D = ref.shape[0]
    if D > 1024:
        raise Reject("too large")
    mag = float(np.prod([max(np.linalg.norm(f), 1e-300) for f in facs]))
    tol = tol_dt(*[o["dtype"] for o in specs])
    any_sparse = any(is_sparse_fmt(o["fmt"]) for o in specs)
    kw = {}
    for k in ("sparse", "stype"):
        if case[k] is not None:
            kw[k] = case[k]
    if case["coo_build"]:
        kw["coo_build"] = True
    if case["parallel"]:
        kw["parallel"] = True
    own = None
    if case["own"] is not None:
        own = own_from(*case["own"], D)
        kw["ownership"] = own
        ref = ref[own[0]:own[1]]
    targets = set(case["inds"] if isinstance(case["inds"], list) else [case["inds"]])
    if case["mode"] == "overlay":
        targets = set(range(min(targets), max(targets) + 1))
    # identity factors of dimension 1 are never materialised by ikron
    has_identity = any(abs(d) > 1 for i, d in enumerate(case["dims"]) if i not in targets)
    result_sparse = any_sparse or (case["sparse"] is True and has_identity)
    arg = ops[0] if case["bare"] else ops
    info = dict(mode=case["mode"], sparse_in=any_sparse, sparse_opt=case["sparse"], own=own is not None)
    try:
        X = qu.ikron(arg, case["dims"], case["inds"], **kw)
    except AttributeError as e:
        if not result_sparse and ("stype" in kw or "coo_build" in kw):
            raise Violation("dense-with-sparse-option", entry="ikron", msg=str(e)[:80])
        raise
    except NotImplementedError:
        eff = case["sparse"] if case["sparse"] is not None else any_sparse
        ff = ["dense" if o["fmt"] == "ndarray" else o["fmt"] for o in specs] + ((["csr"] if eff else ["dense"]) if has_identity else [])
        if own is not None and bsr_possible(ff):
            raise Violation("format-unsupported", entry="ownership-slice-bsr", kind="ikron")
        raise
    if case["sparse"] is True and not sp.issparse(X):
        raise Violation("sparse-option-ignored", entry="ikron", has_identity=has_identity, sparse_in=any_sparse)
    if case["sparse"] is not True and sp.issparse(X) != result_sparse:
        raise Violation("container", got=type(X).__name__, **info)
    if sp.issparse(X) and kw.get("stype") and X.format != kw["stype"]:
        raise Violation("stype-ignored", entry="ikron", got=X.format, want=kw["stype"])
    if ints:
        Xd = dense(X)
        ei = rel_err(Xd, ref, floor=mag) if Xd.shape == ref.shape else float("inf")
        if Xd.shape == ref.shape and tol < ei < 1e-6:
            raise Violation("int-precision", entry="ikron", got_dtype=str(Xd.dtype), err=ei, sparse_in=any_sparse)
    e = check_close(X, ref, tol, mag, **info)
    il = case["inds"] if isinstance(case["inds"], list) else [case["inds"]]
    dd = [abs(d) for d in case["dims"]]
    return {"nt": len(dd) >= 3 and (mixed(dd) or case["mode"] == "auto") and (unsorted(il) or case["mode"] in ("overlay", "int")),
            "cls": ["mode=" + case["mode"] + ("-span" if case.get("span") else ""), "sparse_in" if any_sparse else "dense_in",
                    "nops=%d" % len(ops)] +
                   ["opt=" + k for k in kw] + (["unsorted"] if unsorted(il) else []) +
                   (["has1"] if 1 in case["dims"] else []) + (["int64"] if ints else []), "err": e}


# ---------------------------------------------------------------------------
# 4. ikron with 2-D / 3-D dims and coordinates
# ---------------------------------------------------------------------------

@st.composite
def s_ikron_coords(draw, tier):
    nd = draw(st.sampled_from([2, 2, 3]))
    shape = [draw(st.integers(1, 3)) for _ in range(nd)]
    while prod(shape) > 6:
        shape[max(range(nd), key=lambda q: shape[q])] -= 1
    if prod(shape) < 3 and draw(st.integers(0, 4)) > 0:
        shape[draw(st.integers(0, nd - 1))] = 3  # mostly at least three subsystems
    nsys = prod(shape)
    dims = []
    for _ in range(nsys):
        ok = [v for v in (1, 2, 2, 3) if prod(dims) * v <= 729]
        dims.append(draw(st.sampled_from(ok)))
    m = s_size(draw, min(nsys, 4))
    flat = list(draw(st.permutations(list(range(nsys))))[:m])
    k = draw(st.sampled_from([1] + list(range(2, m + 1)) * 2))
    sizes = [draw(st.sampled_from([1, 2, 2, 3])) for _ in range(k)]
    for i, ind in enumerate(flat):
        dims[ind] = sizes[i % k]
    coords = [[int(c) for c in np.unravel_index(f, shape)] for f in flat]
    ops = [{"size": s, "fmt": draw(s_fmt), "kind": draw(s_kind), "seed": draw(A.seeds), "dtype": draw(s_dtype64)} for s in sizes]
    return {"shape": shape, "dims": dims, "coords": coords, "flat": flat, "ops": ops, "as_array": draw(st.booleans()),
            "own": draw(st.one_of(st.none(), st.tuples(st.integers(0, 10**6), st.integers(0, 10**6))))}


def run_ikron_coords(case):
    qu = Q()
    shape, dims = case["shape"], case["dims"]
    if prod(dims) > 1024:
        raise Reject("too large")
    arrs = [A.make_array(o["seed"], o["kind"], (o["size"], o["size"]), o["dtype"]) for o in case["ops"]]
    ops = [store(a, o["fmt"]) for a, o in zip(arrs, case["ops"])]
    at = {ind: arrs[i % len(arrs)] for i, ind in enumerate(case["flat"])}
    facs = [at[i] if i in at else np.eye(dims[i]) for i in range(len(dims))]
    ref = kron_all(facs)
    mag = float(np.prod([max(np.linalg.norm(f), 1e-300) for f in facs]))
    nested = np.array(dims).reshape(shape)
    dims_arg = nested if case["as_array"] else nested.tolist()
    kw = {}
    if case["own"] is not None:
        own = own_from(*case["own"], ref.shape[0])
        kw["ownership"] = own
        ref = ref[own[0]:own[1]]
    try:
        X = qu.ikron(ops, dims_arg, [tuple(c) for c in case["coords"]], **kw)
    except NotImplementedError:
        fmts = ["dense" if o["fmt"] == "ndarray" else o["fmt"] for o in case["ops"]]
        anys = any(is_sparse_fmt(f) for f in fmts)
        if kw and bsr_possible(fmts + (["csr" if anys else "dense"] if len(at) < len(dims) else [])):
            raise Violation("format-unsupported", entry="ownership-slice-bsr", kind="ikron")
        raise
    e = check_close(X, ref, EXACT64, mag, nd=len(shape))
    return {"nt": len(dims) >= 3 and unsorted(case["flat"]) and mixed(dims),
            "cls": ["nd=%d" % len(shape), "array" if case["as_array"] else "nested", "nops=%d" % len(ops)] +
                   (["unsorted"] if unsorted(case["flat"]) else []) + (["own"] if kw else []), "err": e}


# ---------------------------------------------------------------------------
# 5. pkron: operator on dims[inds] in any order == explicit embedding
# ---------------------------------------------------------------------------

@st.composite
def s_pkron(draw, tier):
    dims = draw(s_dims(max_n=5, need_nontrivial=True))
    n = len(dims)
    m = s_size(draw, n)
    inds = list(draw(st.permutations(list(range(n))))[:m])
    fmt = draw(s_fmt)
    sparse = draw(st.sampled_from([None, None, True]))
    will_sparse = is_sparse_fmt(fmt) or sparse is True
    allow = will_sparse or draw(st.integers(0, 9)) == 0
    return {"dims": dims, "inds": inds, "fmt": fmt, "kind": draw(s_kind), "seed": draw(A.seeds), "dtype": draw(st.sampled_from(["float64", "complex128", "complex128", "float32", "complex64", "int64"])),
            "sparse": sparse, "stype": draw(st.sampled_from([None] * 6 + ["csr"] + list(FMTS))) if allow else None,
            "coo_build": draw(st.booleans()) if allow else False, "inds_as": draw(st.sampled_from(["list", "tuple", "array"]))}


def run_pkron(case):
    qu = Q()
    dims, inds = case["dims"], case["inds"]
    sz = prod(dims[i] for i in inds)
    ints = case["dtype"] == "int64"
    a = make_op(case["seed"], "bigint" if ints else case["kind"], (sz, sz), case["dtype"])
    op = store(a, case["fmt"])
    ref = embed(a, dims, inds)
    rest = prod(dims) // sz
    mag = max(float(np.linalg.norm(a)), 1e-300) * np.sqrt(rest)
    kw = {}
    if case["sparse"] is not None:
        kw["sparse"] = case["sparse"]
    if case["stype"] is not None:
        kw["stype"] = case["stype"]
    if case["coo_build"]:
        kw["coo_build"] = True
    ia = {"list": list, "tuple": tuple, "array": np.array}[case["inds_as"]](inds)
    sparse_in = is_sparse_fmt(case["fmt"])
    result_sparse = sparse_in or (case["sparse"] is True and rest > 1)
    try:
        X = qu.pkron(op, dims, ia, **kw)
    except AttributeError as e:
        if not result_sparse and ("stype" in kw or "coo_build" in kw):
            raise Violation("dense-with-sparse-option", entry="pkron", msg=str(e)[:80])
        raise
    info = dict(sparse_in=sparse_in, sparse_opt=case["sparse"])
    if case["sparse"] is True and not sp.issparse(X):
        raise Violation("sparse-option-ignored", entry="pkron", has_identity=rest > 1, sparse_in=sparse_in)
    if sp.issparse(X) != result_sparse and case["sparse"] is not True:
        raise Violation("container", got=type(X).__name__, **info)
    if ints:
        Xd = dense(X)
        ei = rel_err(Xd, ref, floor=mag) if Xd.shape == ref.shape else float("inf")
        if Xd.shape == ref.shape and EXACT64 < ei < 1e-6:
            raise Violation("int-precision", entry="pkron", got_dtype=str(Xd.dtype), err=ei, sparse_in=sparse_in)
    e = check_close(X, ref, tol_dt(case["dtype"]), mag, **info)
    # only after the value is known to be right: the documented output format option
    if sp.issparse(X) and kw.get("stype") and X.format != kw["stype"]:
        raise Violation("stype-ignored", entry="pkron", got=X.format, want=kw["stype"])
    return {"nt": len(dims) >= 3 and mixed(dims) and unsorted(inds),
            "cls": ["fmt=" + case["fmt"], "m=%d" % len(inds), "n=%d" % len(dims)] + ["opt=" + k for k in kw] +
                   (["unsorted"] if unsorted(inds) else []) + (["has1"] if 1 in dims else []) + (["int64"] if ints else []),
            "err": e}


# ---------------------------------------------------------------------------
# 6. permute
# ---------------------------------------------------------------------------

@st.composite
def s_permute(draw, tier):
    dims = draw(s_dims(min_n=1, max_n=5, need_nontrivial=True))
    n = len(dims)
    perm = list(draw(st.permutations(list(range(n)))))
    what = draw(st.sampled_from(["op", "op", "ket", "ket", "product_op", "product_ket", "embedded", "bra"]))
    m = s_size(draw, n)
    return {"dims": dims, "perm": perm, "what": what, "fmt": draw(s_fmt), "kind": draw(s_kind), "seed": draw(A.seeds),
            "dtype": draw(s_dtype), "inds": list(draw(st.permutations(list(range(n))))[:m]),
            "args_as": draw(st.sampled_from(["list", "tuple", "array"]))}


def run_permute(case):
    qu = Q()
    dims, perm, what = case["dims"], case["perm"], case["what"]
    n = len(dims)
    D = prod(dims)
    dt = case["dtype"]
    tol = tol_dt(dt)
    conv = {"list": list, "tuple": tuple, "array": np.array}[case["args_as"]]
    new_dims = [dims[p] for p in perm]
    sparse_in = is_sparse_fmt(case["fmt"])
    extra = []
    if what in ("op", "ket", "bra"):
        if what == "op":
            a = A.make_array(case["seed"], case["kind"], (D, D), dt)
            ref = a.reshape(dims + dims).transpose(perm + [p + n for p in perm]).reshape(D, D)
        else:
            a = A.make_array(case["seed"], case["kind"], (D, 1), dt)
            ref = a.reshape(dims).transpose(perm).reshape(D, 1)
            if what == "bra":
                a, ref = a.reshape(1, D), ref.reshape(1, D)
        mag = float(np.linalg.norm(a))
    elif what in ("product_op", "product_ket"):
        # defining identity: permuting a product gives the product in the new order
        shp = (lambda d: (d, d)) if what == "product_op" else (lambda d: (d, 1))
        fac = [A.make_array(case["seed"] + 13 * i, case["kind"], shp(d), dt) for i, d in enumerate(dims)]
        a = kron_all(fac)
        ref = kron_all([fac[p] for p in perm])
        mag = float(np.prod([max(np.linalg.norm(f), 1e-300) for f in fac]))
    else:
        # permute-then-embed == embedding on the permuted subsystems
        inds = case["inds"]
        fac = {ind: A.make_array(case["seed"] + 13 * i, case["kind"], (dims[ind], dims[ind]), dt) for i, ind in enumerate(inds)}
        a = kron_all([fac.get(i, np.eye(dims[i])) for i in range(n)])
        new_inds = [perm.index(ind) for ind in inds]
        ref = kron_all([fac.get(perm[k], np.eye(new_dims[k])) for k in range(n)])
        mag = float(np.prod([max(np.linalg.norm(f), 1e-300) for f in fac.values()])) * np.sqrt(D / prod(dims[i] for i in inds))
        extra = [new_inds, [fac[ind] for ind in inds]]
    p = store(a, case["fmt"])
    info = dict(what=what, sparse_in=sparse_in)
    if what == "bra":
        try:
            X = qu.permute(p, conv(dims), conv(perm))
        except ValueError as e:
            raise Violation("bra-unsupported", sparse_in=sparse_in, how="raises", msg=str(e)[:60])
        if dense(X).shape != (1, D):
            raise Violation("bra-unsupported", sparse_in=sparse_in, how="shape", got=list(dense(X).shape))
    else:
        X = qu.permute(p, conv(dims), conv(perm))
    if sp.issparse(X) != sparse_in:
        raise Violation("container", got=type(X).__name__, **info)
    e = check_close(X, ref, tol, mag, **info)
    if extra:
        # the library's own embedding on the permuted subsystems agrees
        Y = qu.ikron([store(f, case["fmt"]) for f in extra[1]], new_dims, extra[0])
        e = max(e, check_close(Y, dense(X), tol, mag, clause="ikron-on-permuted", **info))
    inv = [perm.index(i) for i in range(n)]
    return {"nt": n >= 3 and mixed(dims) and inv != perm,
            "cls": ["what=" + what, "fmt=" + case["fmt"], "n=%d" % n] + (["non-involution"] if inv != perm else []) +
                   (["has1"] if 1 in dims else []), "err": e}


# ---------------------------------------------------------------------------
# 7./8. partial trace (dense and sparse)
# ---------------------------------------------------------------------------

def make_state(case, D):
    """(dense array, is_ket) for the drawn state kind."""
    what, dt = case["what"], case["dtype"]
    if what in ("ket", "bra"):
        return A.rand_state(case["seed"], D, dt).reshape(D, 1), True
    if what == "ket_sparse":
        psi = A.make_array(case["seed"], "sparse", (D, 1), dt)
        if not np.any(psi):
            psi[case["seed"] % D, 0] = 1.0
        return psi / np.linalg.norm(psi), True
    if what == "rho":
        return A.rand_rho(case["seed"], D, rank=None, dtype=dt), False
    if what == "rho_lowrank":
        return A.rand_rho(case["seed"], D, rank=1 + case["seed"] % 2, dtype=dt), False
    if what == "herm":
        return A.rand_herm(case["seed"], D, dt), False
    if what == "diag":
        rng = np.random.default_rng(case["seed"])
        p = rng.random(D) + 0.01
        return np.diag(p / p.sum()).astype(dt), False
    raise AssertionError(what)


@st.composite
def s_ptr(draw, tier, sparse):
    cap = 64 if sparse else 1024
    nd = draw(st.sampled_from([1, 1, 1, 2, 3]))
    if nd == 1:
        dims = draw(s_dims(max_n=5, cap=cap, need_nontrivial=True, vals=(1, 2, 2, 2, 3, 3, 4) if sparse else (1, 2, 2, 3, 3, 4)))
        shape = [len(dims)]
    else:
        shape = [draw(st.integers(1, 3)) for _ in range(nd)]
        while prod(shape) > 5:
            shape[max(range(nd), key=lambda q: shape[q])] -= 1
        dims = []
        for _ in range(prod(shape)):
            dims.append(draw(st.sampled_from([v for v in (1, 2, 2, 2, 3) if prod(dims) * v <= cap] or [1])))
        if prod(dims) == 1:
            dims[-1] = 2
    n = len(dims)
    m = s_size(draw, n)
    keep = list(draw(st.permutations(list(range(n))))[:m])
    if draw(st.booleans()):
        keep = sorted(keep)
    return {"dims": dims, "shape": shape, "keep": keep, "seed": draw(A.seeds), "aseed": draw(A.seeds),
            "what": draw(st.sampled_from(["ket", "ket", "bra", "rho", "rho", "rho_lowrank", "herm", "diag", "ket_sparse"])),
            "dtype": draw(s_dtype64) if sparse else draw(st.sampled_from(["float64", "complex128", "complex128", "complex64"])),
            "fmt": draw(st.sampled_from(["csr", "csr", "csc", "csc", "coo", "bsr"])) if sparse else draw(st.sampled_from(["dense", "ndarray"])),
            "keep_int": m == 1 and draw(st.booleans()), "dims_as": draw(st.sampled_from(["list", "tuple", "array"])),
            "via": draw(st.sampled_from(["ptr", "partial_trace", "method"]))}


def run_ptr(case):
    qu = Q()
    dims, keep, shape = case["dims"], case["keep"], case["shape"]
    n = len(dims)
    D = prod(dims)
    sparse_in = is_sparse_fmt(case["fmt"])
    x, is_ket = make_state(case, D)
    tol = tol_dt(case["dtype"]) * 10
    ks = sorted(keep)
    ref = ptrace(x, dims, ks)
    mag = float(np.linalg.norm(x)) ** (2 if is_ket else 1) * (1.0 if is_ket else np.sqrt(D))
    bra = case["what"] == "bra"
    # a bra <psi| denotes the same state as |psi>: its reduced state is that of the ket (not its conjugate)
    p = store(x.conj().T if bra else x, case["fmt"])
    nd = len(shape)
    if nd == 1:
        dims_arg = {"list": list, "tuple": tuple, "array": np.array}[case["dims_as"]](dims)
        keep_arg = keep[0] if case["keep_int"] else list(keep)
    else:
        nested = np.array(dims).reshape(shape)
        dims_arg = nested if case["dims_as"] == "array" else nested.tolist()
        keep_arg = [tuple(int(c) for c in np.unravel_index(k, shape)) for k in keep]
    kept_dim = prod(dims[k] for k in keep)
    info = dict(sparse_in=sparse_in, ket=is_ket, nd=nd)
    via = case["via"]
    if via == "method" and (nd != 1 or case["fmt"] == "ndarray"):
        via = "ptr"
    def do_ptr(obj, how):
        try:
            if how == "method":
                # sparse matrices get `.ptr` patched on; qarray has it natively
                return obj.ptr(dims_arg, keep_arg)
            if how == "ptr":
                return qu.ptr(obj, dims_arg, keep_arg)
            return qu.partial_trace(obj, dims_arg, keep_arg)
        except (TypeError, NotImplementedError) as e:
            if sparse_in and case["fmt"] in ("coo", "bsr"):
                # the statement promises every sparse format; quimb itself patches .ptr onto coo and bsr matrices
                raise Violation("format-unsupported", entry="ptr", sliceable=False, fmt=case["fmt"], exc=type(e).__name__)
            raise

    R = do_ptr(p, via)
    Rd = dense(R)
    if bra:
        eb = rel_err(Rd, ref, floor=mag) if Rd.shape == ref.shape else float("inf")
        if not eb <= tol:
            ec = rel_err(Rd, ref.conj(), floor=mag) if Rd.shape == ref.shape else float("inf")
            raise Violation("ptr-bra", sparse_in=sparse_in, conjugated=bool(ec <= tol), err=eb)
    if Rd.shape != ref.shape:
        raise Violation("shape", entry="ptr", got=list(Rd.shape), want=list(ref.shape), kept_dim=kept_dim, has1=1 in dims, **info)
    e = check_close(Rd, ref, tol, mag, entry="ptr", **info)
    # adjointness: Tr[embed(A) rho] == Tr[A ptr(rho)], with quimb's own embedding and the reference one
    Aop = A.make_array(case["aseed"], "gauss", (kept_dim, kept_dim), "complex128")
    rho = x @ x.conj().T if is_ket else x
    rhs = np.trace(Aop @ Rd)
    lhs_ref = np.trace(embed(Aop, dims, ks) @ rho)
    lhs_q = np.trace(dense(qu.pkron(Aop, dims, ks)) @ rho)
    fl = float(np.linalg.norm(Aop)) * mag
    for nm, lhs in (("oracle-embed", lhs_ref), ("pkron-embed", lhs_q)):
        ea = rel_err(np.array(lhs), np.array(rhs), floor=fl)
        if not ea <= tol:
            raise Violation("adjoint", err=ea, embed=nm, **info)
        e = max(e, ea)
    if is_ket:
        # a ket and its projector give the same reduced state
        proj = store(x @ x.conj().T, case["fmt"]) if D > 1 else None
        if proj is not None:
            R2 = do_ptr(proj, "ptr")
            e = max(e, check_close(R2, Rd, tol, mag, clause="ket-vs-projector", **info))
    return {"nt": n >= 3 and mixed(dims) and (unsorted(keep) or ks != list(range(ks[0], ks[0] + len(ks)))),
            "cls": ["what=" + case["what"], "fmt=" + case["fmt"], "nd=%d" % nd, "n=%d" % n, "via=" + via] +
                   (["unsorted"] if unsorted(keep) else []) + (["has1"] if 1 in dims else []) +
                   (["keep-all"] if len(keep) == n else []), "err": e}


# ---------------------------------------------------------------------------
# 9. itrace
# ---------------------------------------------------------------------------

@st.composite
def s_itrace(draw, tier):
    npairs = draw(st.integers(1, 3))
    nfree = draw(st.integers(0, 3))
    rank = 2 * npairs + nfree
    pos = list(draw(st.permutations(list(range(rank)))))
    pdims = [draw(st.sampled_from([1, 2, 3])) for _ in range(npairs)]
    shape = [0] * rank
    a1, a2 = [], []
    for i in range(npairs):
        x, y = pos[2 * i], pos[2 * i + 1]
        shape[x] = shape[y] = pdims[i]
        a1.append(x)
        a2.append(y)
    for q in pos[2 * npairs:]:
        shape[q] = draw(st.sampled_from([1, 2, 3]))
    return {"shape": shape, "a1": a1, "a2": a2, "seed": draw(A.seeds), "dtype": draw(s_dtype64),
            "spell": draw(st.sampled_from(["lists", "tuples", "ints"]))}


def run_itrace(case):
    qu = Q()
    shape, a1, a2 = case["shape"], case["a1"], case["a2"]
    a = A.make_array(case["seed"], "gauss", shape, case["dtype"])
    labels = list(range(len(shape)))
    for x, y in zip(a1, a2):
        labels[y] = labels[x]
    out = [l for i, l in enumerate(labels) if i not in a1 and i not in a2]
    ref = np.einsum(a, labels, out)
    spell = case["spell"]
    if spell == "ints" and len(a1) == 1:
        axes = (a1[0], a2[0])
    elif spell == "tuples":
        axes = (tuple(a1), tuple(a2))
    else:
        axes = (list(a1), list(a2))
    got = qu.itrace(a, axes)
    e = check_close(np.asarray(got), ref, EXACT64, float(np.linalg.norm(a)), npairs=len(a1))
    interleaved = any(a2[i] < a1[i] for i in range(len(a1))) or a1 != sorted(a1)
    return {"nt": len(a1) >= 2 and interleaved, "cls": ["pairs=%d" % len(a1), "rank=%d" % len(shape), "spell=" + spell], "err": e}


# ---------------------------------------------------------------------------
# 10. partial_transpose
# ---------------------------------------------------------------------------

@st.composite
def s_ptranspose(draw, tier):
    dims = draw(s_dims(min_n=1, max_n=5, need_nontrivial=True))
    n = len(dims)
    m = s_size(draw, n, empty=True)
    sysa = list(draw(st.permutations(list(range(n))))[:m])
    return {"dims": dims, "sysa": sysa, "what": draw(st.sampled_from(["op", "op", "rho", "ket"])), "seed": draw(A.seeds),
            "dtype": draw(st.sampled_from(["float64", "complex128", "complex128", "complex64"])),
            "fmt": draw(st.sampled_from(["dense", "ndarray"])), "sysa_int": m == 1 and draw(st.booleans()),
            "dims_as": draw(st.sampled_from(["list", "tuple"]))}


def run_ptranspose(case):
    qu = Q()
    dims, sysa = case["dims"], case["sysa"]
    n, D = len(dims), prod(dims)
    dt = case["dtype"]
    if case["what"] == "ket":
        psi = A.rand_state(case["seed"], D, dt).reshape(D, 1)
        x, rho = psi, psi @ psi.conj().T
    elif case["what"] == "rho":
        x = rho = A.rand_rho(case["seed"], D, dtype=dt)
    else:
        x = rho = A.make_array(case["seed"], "gauss", (D, D), dt)
    # reference: swap ket and bra index of every subsystem in sysa
    t = rho.reshape(dims + dims)
    for s in sysa:
        t = np.swapaxes(t, s, s + n)
    ref = t.reshape(D, D)
    arg = sysa[0] if case["sysa_int"] else list(sysa)
    dims_arg = tuple(dims) if case["dims_as"] == "tuple" else list(dims)
    p = store(x, case["fmt"])
    got = qu.partial_transpose(p, dims_arg, arg)
    tol = tol_dt(dt)
    mag = float(np.linalg.norm(rho))
    e = check_close(got, ref, tol, mag, what=case["what"])
    # involution and complement == full transpose
    back = qu.partial_transpose(got, dims_arg, arg)
    e = max(e, check_close(back, rho, tol, mag, clause="involution"))
    comp = [i for i in range(n) if i not in sysa]
    both = qu.partial_transpose(got, dims_arg, comp)
    e = max(e, check_close(both, rho.T, tol, mag, clause="complement"))
    return {"nt": n >= 3 and mixed(dims) and 0 < len(sysa) < n and (unsorted(sysa) or sysa != list(range(sysa[0], sysa[0] + len(sysa)))),
            "cls": ["what=" + case["what"], "n=%d" % n, "m=%d" % len(sysa)] + (["unsorted"] if unsorted(sysa) else []), "err": e}


# ---------------------------------------------------------------------------
# 11. dim_map against brute-force coordinate enumeration
# ---------------------------------------------------------------------------

@st.composite
def s_dim_map(draw, tier):
    nd = draw(st.sampled_from([1, 2, 2, 3, 4]))
    shape = [draw(st.integers(1, 4)) for _ in range(nd)]
    while prod(shape) > 24:
        shape[max(range(nd), key=lambda q: shape[q])] -= 1
    dims = [draw(st.sampled_from([1, 2, 3, 4, 5])) for _ in range(prod(shape))]
    ncoo = draw(st.integers(1, 6))
    inrange = draw(st.booleans())
    coos = []
    for _ in range(ncoo):
        if inrange:
            coos.append([draw(st.integers(0, s - 1)) for s in shape])
        else:
            coos.append([draw(st.integers(-s - 1, 2 * s)) for s in shape])
    return {"shape": shape, "dims": dims, "coos": coos, "cyclic": draw(st.booleans()), "trim": draw(st.booleans()),
            "dims_as": draw(st.sampled_from(["nested", "array"])),
            "coos_as": draw(st.sampled_from(["tuples", "lists", "array", "ints"]))}


def run_dim_map(case):
    qu = Q()
    shape, dims, coos = case["shape"], case["dims"], case["coos"]
    cyclic, trim = case["cyclic"], case["trim"]
    nd = len(shape)
    want = []
    oob = False
    for c in coos:
        if cyclic:
            c = [x % s for x, s in zip(c, shape)]
        elif not all(0 <= x < s for x, s in zip(c, shape)):
            if trim:
                continue
            oob = True
            break
        want.append(int(np.ravel_multi_index(tuple(c), tuple(shape))))
    nested = np.array(dims).reshape(shape)
    dims_arg = nested if case["dims_as"] == "array" else nested.tolist()
    ca = case["coos_as"]
    if ca == "ints" and nd != 1:
        ca = "tuples"
    if ca == "ints":
        coos_arg = [c[0] for c in coos]
    elif ca == "array":
        coos_arg = np.array(coos)
    elif ca == "lists":
        coos_arg = [list(c) for c in coos]
    else:
        coos_arg = [tuple(c) for c in coos]
    info = dict(nd=nd, cyclic=cyclic, trim=trim, coos_as=ca)
    try:
        fd, inds = qu.dim_map(dims_arg, coos_arg, cyclic=cyclic, trim=trim)
    except ValueError:
        if oob:
            return {"nt": nd >= 2, "cls": ["nd=%d" % nd, "raises-out-of-range"], "err": 0.0}
        raise Violation("dim-map-raises", **info)
    except TypeError as e:
        if cyclic and trim and nd == 1:
            # documented: trim is "overidden by cyclic", so giving both is allowed
            raise Violation("dim-map-both-flags", nd=nd, msg=str(e)[:60])
        raise
    if oob:
        raise Violation("dim-map-accepts-out-of-range", got=list(inds), **info)
    if [int(d) for d in fd] != [int(d) for d in dims]:
        raise Violation("dim-map-dims", got=[int(d) for d in fd], **info)
    if [int(i) for i in inds] != want:
        raise Violation("dim-map-inds", got=[int(i) for i in inds], want=want, **info)
    wrapped = any(not all(0 <= x < s for x, s in zip(c, shape)) for c in coos)
    return {"nt": nd >= 2 and (wrapped or len(set(shape)) > 1),
            "cls": ["nd=%d" % nd, "cyclic=%s" % cyclic, "trim=%s" % trim, "coos=" + ca] + (["wrapped/trimmed"] if wrapped else []),
            "err": 0.0}


# ---------------------------------------------------------------------------
# 12. dim_compress (exhaustive) against brute-force coordinate enumeration
# ---------------------------------------------------------------------------

def enum_dim_compress(tier):
    maxn = 5 if tier == "quick" else 6
    for n in range(1, maxn + 1):
        for dims in itertools.product((1, 2, 3), repeat=n):
            yield {"dims": list(dims)}


def split_coords(x, dims, marked):
    """(marked part, unmarked part) of flat index x as mixed-radix numbers."""
    digs = []
    for d in reversed(dims):
        digs.append(x % d)
        x //= d
    digs = digs[::-1]
    a = b = 0
    for i, (dg, d) in enumerate(zip(digs, dims)):
        if i in marked:
            a = a * d + dg
        else:
            b = b * d + dg
    return a, b


def run_dim_compress(case):
    qu = Q()
    dims = case["dims"]
    n = len(dims)
    D = prod(dims)
    cells = nt = 0
    zero_dim = []
    for m in range(0, n + 1):
        for inds in itertools.combinations(range(n), m):
            for spell in ((inds,) if m != 1 else (inds, inds[0])):
                cd, ci = qu.dim_compress(tuple(dims), spell)
                cd, ci = [int(d) for d in cd], [int(i) for i in ci]
                info = dict(dims=dims, inds=list(inds), got_dims=cd, got_inds=ci, has1=1 in dims)
                if 0 in cd and 1 in dims:
                    zero_dim.append(info)  # one class; reported once per chunk after the other cells were checked
                    continue
                if prod(cd) != D or any(d < 1 for d in cd):
                    raise Violation("compress-size", zero_dim=False, **info)
                if any(not 0 <= i < len(cd) for i in ci) or len(set(ci)) != len(ci):
                    raise Violation("compress-inds", **info)
                for x in range(D):
                    if split_coords(x, dims, set(inds)) != split_coords(x, cd, set(ci)):
                        raise Violation("compress-coordinates", x=x, **info)
                if 1 not in dims:
                    # documented guarantee: marked / unmarked alternate
                    flags = [i in ci for i in range(len(cd))]
                    if any(flags[i] == flags[i + 1] for i in range(len(flags) - 1)):
                        raise Violation("compress-not-alternating", **info)
                cells += 1
                if n >= 3 and mixed(dims) and 0 < m < n:
                    nt += 1
    if zero_dim:
        raise Violation("compress-size", zero_dim=True, **zero_dim[0])
    return {"nt": nt > 0, "n": cells, "nt_n": nt, "cls": ["n=%d" % n] + (["has1"] if 1 in dims else []), "err": 0.0}


# ---------------------------------------------------------------------------
# 13./14. Hamiltonian builders: ownership rows == rows of the full object
# ---------------------------------------------------------------------------

def site_op(op, i, n):
    return kron_all([op if k == i else np.eye(2) for k in range(n)])


def bond(i, j, n, js=(1.0, 1.0, 1.0)):
    out = 0
    for c, s in zip(js, SXYZ):
        if c != 0:
            out = out + c * kron_all([s if k in (i, j) else np.eye(2) for k in range(n)])
    return out


def ref_heis(n, j, b, cyclic):
    js = tuple(j) if isinstance(j, (list, tuple)) else (j, j, j)
    bs = tuple(b) if isinstance(b, (list, tuple)) else (0.0, 0.0, b)
    H = np.zeros((2 ** n, 2 ** n), dtype=complex)
    pairs = [(i, i + 1) for i in range(n - 1)] + ([(n - 1, 0)] if cyclic else [])
    for i, k in pairs:
        H = H + bond(i, k, n, js)
    for i in range(n):
        for c, s in zip(bs, SXYZ):
            if c != 0:
                H = H - c * site_op(s, i, n)
    return H


def ham_call(case):
    """(callable(**extra) -> H, independent reference or None, D)."""
    qu = Q()
    name, n, p = case["builder"], case["n"], case["params"]
    cyc = bool(p.get("cyclic", False))
    ref = None
    if name == "ham_heis":
        j = tuple(p["j"]) if isinstance(p["j"], list) else p["j"]
        b = tuple(p["b"]) if isinstance(p["b"], list) else p["b"]
        f = lambda **kw: qu.ham_heis(n, j=j, b=b, cyclic=cyc, **kw)
        if not (cyc and n < 3):
            ref = ref_heis(n, j, b, cyc)
    elif name == "ham_ising":
        f = lambda **kw: qu.ham_ising(n, jz=p["jz"], bx=p["bx"], cyclic=cyc, **kw)
        if not (cyc and n < 3):
            ref = ref_heis(n, (0, 0, p["jz"]), (p["bx"], 0, 0), cyc)
    elif name == "ham_XY":
        f = lambda **kw: qu.ham_XY(n, p["jxy"], p["bz"], cyclic=cyc, **kw)
        if not (cyc and n < 3):
            ref = ref_heis(n, (p["jxy"], p["jxy"], 0), (0, 0, p["bz"]), cyc)
    elif name == "ham_XXZ":
        f = lambda **kw: qu.ham_XXZ(n, p["delta"], jxy=p["jxy"], cyclic=cyc, **kw)
        if not (cyc and n < 3):
            ref = ref_heis(n, (p["jxy"], p["jxy"], p["delta"]), 0.0, cyc)
    elif name == "ham_j1j2":
        f = lambda **kw: qu.ham_j1j2(n, j1=p["j1"], j2=p["j2"], bz=p["bz"], cyclic=cyc, **kw)
        if not cyc or n >= 5:
            H = np.zeros((2 ** n, 2 ** n), dtype=complex)
            for i in range(n):
                for step, c in ((1, p["j1"]), (2, p["j2"])):
                    k = i + step
                    if k >= n and not cyc:
                        continue
                    H = H + c * bond(i, k % n, n)
                if p["bz"] != 0:
                    H = H + p["bz"] * site_op(SZ, i, n)
            ref = H
    elif name == "ham_mbl":
        f = lambda **kw: qu.ham_mbl(n, p["dh"], j=p["j"], bz=p["bz"], cyclic=cyc, seed=p["seed"], dh_dist=p["dh_dist"],
                                    dh_dim=p["dh_dim"], **kw)
    elif name == "ham_heis_2D":
        m = p["m"]
        f = lambda **kw: qu.ham_heis_2D(n, m, j=p["j"], bz=p["bz"], cyclic=cyc, **kw)
        if not cyc:
            N = n * m
            H = np.zeros((2 ** N, 2 ** N), dtype=complex)
            for a in range(n):
                for b_ in range(m):
                    if a + 1 < n:
                        H = H + p["j"] * bond(a * m + b_, (a + 1) * m + b_, N)
                    if b_ + 1 < m:
                        H = H + p["j"] * bond(a * m + b_, a * m + b_ + 1, N)
                    if p["bz"] != 0:
                        H = H + p["bz"] * site_op(SZ, a * m + b_, N)
            ref = H
        return f, ref, 2 ** (n * m)
    elif name == "ham_hubbard_hardcore":
        f = lambda **kw: qu.ham_hubbard_hardcore(n, t=p["t"], V=p["V"], mu=p["mu"], cyclic=cyc, **kw)
        if not (cyc and n < 3):
            cd = np.array([[0, 0], [1, 0]], dtype=complex)
            c = cd.T
            num = cd @ c
            H = np.zeros((2 ** n, 2 ** n), dtype=complex)
            two = lambda x, y, i, k: kron_all([x if q == i else y if q == k else np.eye(2) for q in range(n)])
            for i, k in [(i, i + 1) for i in range(n - 1)] + ([(0, n - 1)] if cyc else []):
                H = H - p["t"] * (two(cd, c, i, k) + two(c, cd, i, k)) + p["V"] * two(num, num, i, k)
            for i in range(n):
                H = H - p["mu"] * site_op(num, i, n)
            ref = H
    else:
        raise AssertionError(name)
    return f, ref, 2 ** n


HAM_CONFIGS = [
    ("ham_heis", {"j": 1.0, "b": 0.0}),
    ("ham_heis", {"j": [0.7, -1.1, 0.4], "b": [0.3, -0.2, 0.5]}),
    ("ham_heis", {"j": 0.9, "b": 0.25, "cyclic": True}),
    ("ham_ising", {"jz": 1.3, "bx": 0.6}),
    ("ham_ising", {"jz": -0.8, "bx": 0.45, "cyclic": True}),
    ("ham_XY", {"jxy": 0.75, "bz": 0.2}),
    ("ham_XY", {"jxy": 1.1, "bz": 0.0, "cyclic": True}),
    ("ham_XXZ", {"delta": 0.6, "jxy": 1.2}),
    ("ham_XXZ", {"delta": -1.5, "jxy": 0.8, "cyclic": True}),
    ("ham_j1j2", {"j1": 1.0, "j2": 0.5, "bz": 0.0}),
    ("ham_j1j2", {"j1": 0.8, "j2": -0.3, "bz": 0.15, "cyclic": True}),
    ("ham_mbl", {"dh": 0.7, "j": 1.0, "bz": 0.0, "seed": 7, "dh_dist": "s", "dh_dim": 1}),
    ("ham_mbl", {"dh": 1.3, "j": 0.6, "bz": 0.2, "seed": 11, "dh_dist": "g", "dh_dim": 3, "cyclic": True}),
    ("ham_mbl", {"dh": 0.9, "j": 1.0, "bz": 0.0, "seed": 5, "dh_dist": "qp", "dh_dim": 1}),
    ("ham_hubbard_hardcore", {"t": 0.5, "V": 1.0, "mu": 1.0}),
    ("ham_hubbard_hardcore", {"t": 0.8, "V": -0.4, "mu": 0.3, "cyclic": True}),
    ("ham_heis_2D", {"m": 2, "j": 1.0, "bz": 0.0}),
    ("ham_heis_2D", {"m": 2, "j": 0.7, "bz": 0.3, "cyclic": True}),
]
HAM_OUT = [{"sparse": False}, {"sparse": True}, {"sparse": True, "stype": "coo"}, {"sparse": True, "stype": "csc"},
           {"sparse": True, "stype": "bsr"}]


def ham_domain_ok(name, n, p):
    cyc = p.get("cyclic", False)
    if name == "ham_heis_2D":
        return not cyc or (n >= 2 and p["m"] >= 2)
    if name == "ham_j1j2":
        return n >= 3
    return n >= 2


def enum_ham_grid(tier):
    nmax = 4 if tier == "quick" else 5
    for name, p in HAM_CONFIGS:
        ns = range(1, 3) if name == "ham_heis_2D" else range(2, nmax + 1)
        if name == "ham_heis_2D" and tier != "quick":
            ns = range(1, 3)
        for n in ns:
            if not ham_domain_ok(name, n, p):
                continue
            for i, out in enumerate(HAM_OUT):
                # every configuration with dense and csr output; the other formats on a rotating subset
                if i >= 2 and (zlib.crc32(repr((name, sorted(p.items()), n)).encode()) + i) % 3 and tier == "quick":
                    continue
                yield {"builder": name, "n": n, "params": p, "out": out}


def ham_check_rows(f, out, full, ri, rf, info):
    X = f(ownership=(ri, rf), **out)
    if sp.issparse(X) != bool(out.get("sparse")):
        raise Violation("container", got=type(X).__name__, **info)
    if sp.issparse(X) and X.format != out.get("stype", "csr"):
        raise Violation("stype-ignored", entry=info["builder"], got=X.format, want=out.get("stype", "csr"))
    Xd = dense(X)
    if Xd.shape != (rf - ri, full.shape[1]):
        raise Violation("own-shape", own=[ri, rf], got=list(Xd.shape), want=[rf - ri, full.shape[1]], **info)
    e = rel_err(Xd, full[ri:rf], floor=float(np.linalg.norm(full)) * np.sqrt((rf - ri) / full.shape[0]))
    if not e <= 1e-12:
        raise Violation("own-rows", own=[ri, rf], err=e, **info)
    return e


def run_ham_grid(case):
    f, ref, D = ham_call(case)
    out = case["out"]
    info = dict(builder=case["builder"], n=case["n"], sparse=bool(out.get("sparse")))
    full = dense(f(**out))
    if full.shape != (D, D):
        raise Violation("shape", got=list(full.shape), want=[D, D], **info)
    e = 0.0
    if ref is not None:
        e = check_close(full, ref, EXACT64, float(np.linalg.norm(ref)), clause="independent-full", **info)
    cells = nt = 0
    for ri in range(D):
        for rf in range(ri + 1, D + 1):
            e = max(e, ham_check_rows(f, out, full, ri, rf, info))
            cells += 1
            nt += (ri, rf) != (0, D)
    return {"nt": True, "n": cells, "nt_n": nt, "cls": ["builder=" + case["builder"], "n=%d" % case["n"],
            "out=" + (out.get("stype", "csr") if out.get("sparse") else "dense")] + (["indep-ref"] if ref is not None else []),
            "err": e}


@st.composite
def s_ham_rand(draw, tier):
    name = draw(st.sampled_from(["ham_heis", "ham_heis", "ham_ising", "ham_XY", "ham_XXZ", "ham_j1j2", "ham_mbl",
                                 "ham_heis_2D", "ham_hubbard_hardcore"]))
    c = lambda: draw(st.sampled_from([-1.5, -0.7, -0.25, 0.0, 0.3, 0.5, 1.0, 1.2]))
    cyc = draw(st.booleans())
    nmax = 7 if tier == "quick" else 8
    n = draw(st.integers(3 if name == "ham_j1j2" else 2, nmax))
    if name == "ham_heis":
        p = {"j": draw(st.one_of(st.just(1.0), st.tuples(c(), c(), c()).map(list))) if False else
             ([c(), c(), c()] if draw(st.booleans()) else c()), "b": [c(), c(), c()] if draw(st.booleans()) else c()}
        jj = p["j"] if isinstance(p["j"], list) else [p["j"]]
        if not any(jj):
            p["j"] = 1.0
    elif name == "ham_ising":
        p = {"jz": draw(st.sampled_from([-1.0, 0.5, 1.3])), "bx": c()}
    elif name == "ham_XY":
        p = {"jxy": draw(st.sampled_from([-1.0, 0.5, 1.3])), "bz": c()}
    elif name == "ham_XXZ":
        p = {"delta": c(), "jxy": draw(st.sampled_from([-1.0, 0.5, 1.3]))}
    elif name == "ham_j1j2":
        p = {"j1": draw(st.sampled_from([-1.0, 0.5, 1.0])), "j2": draw(st.sampled_from([-0.5, 0.25, 1.0])), "bz": c()}
    elif name == "ham_mbl":
        dist = draw(st.sampled_from(["s", "g", "qp"]))
        p = {"dh": draw(st.sampled_from([0.3, 1.0, 2.5])), "j": draw(st.sampled_from([1.0, 0.6])), "bz": c(),
             "seed": draw(st.integers(0, 10**6)), "dh_dist": dist, "dh_dim": 1 if dist == "qp" else draw(st.sampled_from([1, 2, 3, "yz"]))}
    elif name == "ham_heis_2D":
        n, m = draw(st.sampled_from([(1, 2), (2, 2), (2, 3), (3, 2), (1, 4), (3, 3), (2, 4)]))
        if cyc and (n < 2 or m < 2):
            cyc = False
        p = {"m": m, "j": draw(st.sampled_from([1.0, -0.7])), "bz": c()}
    else:
        p = {"t": draw(st.sampled_from([0.5, -0.8, 1.0])), "V": c(), "mu": c()}
    if cyc:
        p["cyclic"] = True
    out = draw(st.sampled_from(HAM_OUT))
    extra = {}
    if name in ("ham_heis", "ham_ising", "ham_XY", "ham_XXZ", "ham_heis_2D", "ham_hubbard_hardcore") and draw(st.integers(0, 3)) == 0:
        extra["parallel"] = True
    nr = 6 if tier == "quick" else 12
    return {"builder": name, "n": n, "params": p, "out": out, "extra": extra,
            "ranges": [[draw(st.integers(0, 10**6)), draw(st.integers(0, 10**6))] for _ in range(nr)],
            "split": draw(st.integers(1, 7))}


def run_ham_rand(case):
    f0, ref, D = ham_call(case)
    extra = case.get("extra") or {}
    f = lambda **kw: f0(**extra, **kw)
    out = case["out"]
    info = dict(builder=case["builder"], n=case["n"], sparse=bool(out.get("sparse")), parallel=bool(extra))
    full = dense(f(**out))
    if full.shape != (D, D):
        raise Violation("shape", got=list(full.shape), want=[D, D], **info)
    e = 0.0
    if ref is not None:
        e = check_close(full, ref, EXACT64, float(np.linalg.norm(ref)), clause="independent-full", **info)
    for u, v in case["ranges"]:
        ri, rf = own_from(u, v, D)
        e = max(e, ham_check_rows(f, out, full, ri, rf, info))
    # an MPI-style split of the row range into `split` contiguous blocks tiles the full operator
    k = min(case["split"], D)
    cuts = [round(i * D / k) for i in range(k + 1)]
    blocks = [dense(f(ownership=(a, b), **out)) for a, b in zip(cuts[:-1], cuts[1:]) if b > a]
    e = max(e, check_close(np.concatenate(blocks, axis=0), full, 1e-12, float(np.linalg.norm(full)), clause="split-tiles", **info))
    return {"nt": D >= 16, "cls": ["builder=" + case["builder"], "D=%d" % D,
            "out=" + (out.get("stype", "csr") if out.get("sparse") else "dense")] + (["indep-ref"] if ref is not None else []) +
            (["parallel"] if extra else []) + (["cyclic"] if case["params"].get("cyclic") else []), "err": e}


SUBCHECKS = [
    SubCheck("kron_ownership_grid", run_kron_grid, enum=enum_kron_grid, exhaustive=True, shards=(6, 14),
             soft_budget=(200.0, 1200.0), hard_timeout=(400.0, 2400.0),
             rule="EXHAUSTIVE: all dims in {1,2,3}^(1..4) (thorough ..5; d x c blocks, c in 1..3) x {dense,csr,coo,csc,bsr,mixed} x every "
                  "0<=ri<rf<=D: kron(*ops, ownership=(ri,rf)) has exactly rf-ri rows equal to kron(*ops)[ri:rf] (entrywise to 1e-13 of "
                  "the largest entry: each entry is one product of the same factors) and kron(*ops)==np.kron chain; nt cell: proper "
                  "sub-range with >=2 non-trivial factors"),
    SubCheck("kron_formats", run_kron_formats, s_kron_formats, examples=(600, 6000), shards=(1, 4),
             rule="kron / kronpow / & of 1-5 kets, bras, square and rectangular blocks in dense/ndarray/csr/csc/coo/bsr, 4 dtypes, "
                  "options stype, coo_build, parallel, ownership vs np.kron; output container and stype checked; nt: >=3 factors of "
                  ">=2 shapes with a sparse factor or an ownership range"),
    SubCheck("ikron_embed", run_ikron, s_ikron, examples=(500, 6000), shards=(2, 6),
             rule="ikron: one op per listed subsystem in any order (cyclic assignment), one op on several sites, overlay on a "
                  "contiguous block, -1 auto-sized slots, bare int index; options sparse/stype/coo_build/parallel/ownership vs "
                  "np.kron with identities; nt: >=3 subsystems, mixed dims, non-sorted inds (or overlay)"),
    SubCheck("ikron_coords", run_ikron_coords, s_ikron_coords, examples=(300, 4000), shards=(1, 3),
             rule="ikron with 2-D/3-D nested dims (list or ndarray) and coordinate tuples vs np.kron on the raveled lattice; nt: >=3 "
                  "subsystems, mixed dims, non-sorted coordinates"),
    SubCheck("pkron", run_pkron, s_pkron, examples=(600, 6000), shards=(1, 4),
             rule="pkron(op, dims, inds) for ordered subsets vs explicit kron-with-identity + axis permutation; dense and 4 sparse "
                  "formats, sparse/stype/coo_build options; nt: >=3 subsystems, mixed dims, non-sorted inds"),
    SubCheck("permute", run_permute, s_permute, examples=(600, 6000), shards=(1, 4),
             rule="permute of kets, operators (reshape-transpose reference), product kets/operators (== product in new order), "
                  "embedded operators (== quimb's and numpy's embedding on the permuted subsystems), bras; dense + 4 sparse "
                  "formats; nt: >=3 subsystems, mixed dims, perm not an involution"),
    SubCheck("ptr_dense", run_ptr, lambda tier: s_ptr(tier, False), examples=(600, 6000), shards=(1, 4),
             rule="dense partial_trace/ptr/.ptr of kets, density operators (full, low rank, diagonal), Hermitian operators, 1-D to "
                  "3-D dims with coordinates: == einsum reference, Tr[embed(A) rho]==Tr[A ptr(rho)] with numpy and pkron embedding, "
                  "ket == projector; nt: >=3 subsystems, mixed dims, keep unsorted or non-contiguous"),
    SubCheck("ptr_sparse", run_ptr, lambda tier: s_ptr(tier, True), examples=(400, 4000), shards=(2, 8),
             rule="same as ptr_dense for csr/csc/coo/bsr inputs (D<=64): every format must be served and equal the dense reference"),
    SubCheck("itrace", run_itrace, s_itrace, examples=(300, 4000), shards=(1, 2),
             rule="itrace over 1-3 axis pairs anywhere in a rank<=9 array (int pair / tuples / lists) vs np.einsum; nt: >=2 pairs, "
                  "interleaved or unsorted axes"),
    SubCheck("partial_transpose", run_ptranspose, s_ptranspose, examples=(400, 4000), shards=(1, 3),
             rule="partial_transpose of operators, density operators and kets vs per-subsystem index swap; involution; complement "
                  "gives the full transpose; nt: >=3 subsystems, mixed dims, proper unsorted/non-contiguous sysa"),
    SubCheck("dim_map", run_dim_map, s_dim_map, examples=(600, 6000), shards=(1, 3),
             rule="dim_map for 1-4 dimensional dims (nested / ndarray) and coordinates in and out of range x cyclic x trim vs "
                  "np.ravel_multi_index after explicit wrap/drop; out-of-range without a flag must raise ValueError; nt: >=2-D "
                  "with a wrapped/trimmed coordinate or anisotropic shape"),
    SubCheck("dim_compress_grid", run_dim_compress, enum=enum_dim_compress, exhaustive=True, shards=(2, 4),
             rule="EXHAUSTIVE: dims in {1,2,3}^(1..5) (thorough 6) x every index subset: compressed (dims, inds) preserve the total "
                  "size and the (marked, unmarked) mixed-radix coordinates of every basis state; alternate when no dim is 1"),
    SubCheck("ham_ownership_grid", run_ham_grid, enum=enum_ham_grid, exhaustive=True, shards=(6, 8),
             rule="EXHAUSTIVE over row ranges: 18 configurations of ham_heis/ising/XY/XXZ/j1j2/mbl/hubbard_hardcore/heis_2D, 2-4 "
                  "(thorough 5) spins, dense + sparse output formats, every 0<=ri<rf<=D: builder(ownership=(ri,rf)) == full[ri:rf]; "
                  "full == independent np.kron chain where unambiguous"),
    SubCheck("ham_ownership_rand", run_ham_rand, s_ham_rand, examples=(60, 600), shards=(3, 6),
             rule="random builder parameters, 2-7 (8) spins / 2-D lattices up to 3x3, parallel=True, drawn row ranges and an "
                  "MPI-style k-way split that must tile the full operator; nt: D>=16"),
]
